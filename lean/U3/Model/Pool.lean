import U3.Base.Str
import U3.Gen.Pool
/-!
# The pool / connection / response lifecycle (DESIGN.md Appendix A) — C01, C03

Transcribed from `connectionpool.py` (`_new_conn`, `_get_conn`, `_put_conn`, `_make_request`,
`urlopen`, `close`), `connection.py` (`connect`, `close`, `is_connected`, `request`, `getresponse`),
`response.py` (`release_conn`, `drain_conn`, `close`, `_error_catcher`, `_raw_read`, `read`,
`stream`), `util/connection.py` (`is_connection_dropped`) and the parts of CPython 3.12 `http.client`
(request/response state machine, `begin`, `read`, `_close_conn`, `close`) and `io.BufferedReader`
(private read-ahead buffer) that are on the path.

`urlopen` can also fail *outside* the I/O steps of an attempt, and the scripts say where: before the
checkout (`preflight`: `set_file_position` on a file-like body that cannot be rewound, `_get_timeout` on a
timeout that `Timeout` rejects), after the checkout but before anything is sent (`connReject`: a header value that
`putheader` cannot encode — the request is rejected between `putrequest()` and `endheaders()`) and in the wait
between two attempts (`waitExc`: `Retry-After` that does not parse, `time.sleep` interrupted).

Ids are indices: connection `c` is `conns[c]`, socket `k` is `socks[k]`, response `r` is `resps[r]`.
A socket is *open* exactly as long as somebody references it (`conn.sock`, or a reader made by
`sock.makefile`) — that is CPython's `_io_refs`/`_closed` protocol; the `close k` event is logged at
the moment the last reference goes away.  `which handler catches what` is decided with the
**generated** tables `U3.Gen.*Handlers` / `U3.Gen.ancestors`.
-/
namespace U3.Pool
open U3

/-! ## exceptions -/

abbrev Cls := Nat

/-- `issubclass(c, t)` over the generated universe -/
def isSub (c t : Cls) : Bool := (Gen.ancestors.getD c []).contains t
/-- `isinstance(e, (t₁, …))` -/
def isInst (c : Cls) (tuple : List Cls) : Bool := tuple.any (isSub c)

structure Exc where
  cls : Cls
  errno : Nat := 0        -- `e.errno` (0 = not set)
  orig : Cls := 0         -- `ProxyError.original_error`'s class
deriving Repr, DecidableEq

def exc (c : Cls) : Exc := { cls := c }

/-! ## Retry — the minimal policy used here (`Retry.from_int`): `off` is `retries=False`, `count n`
is `Retry(total=n)` with every other counter `None`.  (`lean/U3/Model/Retry.lean` models the class in
full for C04.) -/

inductive Retry | off | count (n : Nat)
deriving Repr, DecidableEq

inductive IncOut | ok (r : Retry) | raise (e : Exc)

/-- `Retry._is_connection_error` -/
def isConnectionError (e : Exc) : Bool :=
  isSub (if isSub e.cls Gen.cU3ProxyError then e.orig else e.cls) Gen.cU3ConnectTimeoutError
/-- `Retry._is_read_error` -/
def isReadError (e : Exc) : Bool := isInst e.cls [Gen.cU3ReadTimeoutError, Gen.cU3ProtocolError]

/-- `total -= 1 … if new_retry.is_exhausted(): raise MaxRetryError` -/
def Retry.dec : Nat → IncOut
  | 0 => .raise (exc Gen.cU3MaxRetryError)
  | n + 1 => .ok (.count n)

/-- `retries.increment(method, url, error=e)` -/
def Retry.incrementErr (r : Retry) (methodRetryable : Bool) (e : Exc) : IncOut :=
  match r with
  | .off => .raise e                                   -- `total is False and error` → reraise
  | .count n =>
    if isConnectionError e then Retry.dec n            -- `connect is None`
    else if isReadError e then
      (if !methodRetryable then .raise e else Retry.dec n)
    else Retry.dec n

/-- `retries.increment(method, url, response=r)`; `none` = `MaxRetryError` (for `off`: `False - 1 = -1`) -/
def Retry.incrementResp : Retry → Option Retry
  | .off => none
  | .count 0 => none
  | .count (n + 1) => some (.count n)

def Retry.raiseOnRedirect : Retry → Bool
  | .off => false
  | .count _ => true

def retryAfterStatusCodes : List Nat := [413, 429, 503]
def redirectStatuses : List Nat := [301, 302, 303, 307, 308]

/-- `retries.is_retry(method, status, has_retry_after)` with an empty `status_forcelist` -/
def Retry.isRetry (r : Retry) (methodRetryable : Bool) (status : Nat) (hasRetryAfter : Bool) : Bool :=
  methodRetryable && (match r with | .off => false | .count n => n != 0) && hasRetryAfter
    && retryAfterStatusCodes.contains status

/-! ## wire -/

/-- who made the server send a byte: the request with that id, or nobody (`stray`) -/
inductive Tag | req (rid : Nat) | stray
deriving Repr, DecidableEq

structure Head where
  status : Nat
  close : Bool            -- `Connection: close`
  cl : Option Nat         -- `Content-Length`
  location : Bool
  retryAfter : Bool
  garbage : Bool := false -- not an HTTP status line (`BadStatusLine`)
  chunked : Bool := false -- `Transfer-Encoding: chunked` (and then no `Content-Length`)
deriving Repr, DecidableEq

/-- a framing byte of a chunked body: the hex digit of a chunk-size line (chunk sizes are below 16:
one digit, which carries the parsed size), `\r`, `\n`, a byte of a trailer field -/
inductive Fr | size (n : Nat) | cr | lf | tr
deriving Repr, DecidableEq

/-- one byte on the wire: a byte of a response head (the last one carries the parsed head), a
payload byte, or a framing byte of the chunked coding -/
inductive Cell
  | hd (t : Tag) (fin : Option Head)
  | body (t : Tag) (v : Nat)
  | fr (t : Tag) (k : Fr)
deriving Repr, DecidableEq

/-- what a read finds once everything sent has been consumed -/
inductive After | silent | fin | reset | interrupt
deriving Repr, DecidableEq

inductive ConnectOut | ok | refused | timeout | nameRes | interrupt
deriving Repr, DecidableEq
inductive SendOut | ok | epipe | reset | osError | interrupt
deriving Repr, DecidableEq
/-- `set_file_position(body, body_pos)` at the entry of an `urlopen` invocation that has a file-like body
and a recorded position: the `seek` works, or it raises `OSError` (`UnrewindableBodyError`) -/
inductive PreOut | ok | unrewindable
deriving Repr, DecidableEq
/-- the wait between two attempts (`retries.sleep_for_retry(response)` / `retries.sleep(response)`) when
the intermediate response carries a `Retry-After` header: the header parses and `time.sleep` returns, the
header does not parse (`InvalidHeader`), `time.sleep` is interrupted (a `BaseException`) -/
inductive WaitOut | ok | invalidHeader | interrupt
deriving Repr, DecidableEq

/-- the environment's script for ONE attempt (one `urlopen` invocation) -/
structure Attempt where
  connect : ConnectOut := .ok      -- consulted only if the attempt opens a socket
  send : SendOut := .ok
  head : Option Head := none       -- `none`: the server sends no head at all
  headLen : Nat := 1
  body : List Nat := []            -- body bytes actually sent
  stray : List Nat := []           -- unsolicited bytes sent right after
  after : After := .silent
  seg : Nat := 0                   -- max bytes per `recv` on a socket opened by this attempt (0 = unlimited)
  sizes : List Nat := []           -- chunked reply: the chunk sizes the body is cut into
  trailers : List Nat := []        -- chunked reply: the lengths of the trailer fields
  hold : Nat := 0                  -- the server holds back the last `hold` bytes of what follows the head and
                                   -- delivers them when the next request arrives on the connection
  pre : PreOut := .ok              -- consulted only if this invocation rewinds a file-like body
  wait : WaitOut := .ok            -- consulted only if `urlopen` waits after this attempt's response (a retried /
                                   -- redirected response with a `Retry-After` header)
deriving Repr

/-- one chunk: `<size>\r\n<data>\r\n` -/
def oneChunk (t : Tag) (d : List Nat) : List Cell :=
  [Cell.fr t (.size d.length), Cell.fr t .cr, Cell.fr t .lf] ++ d.map (Cell.body t) ++ [Cell.fr t .cr, Cell.fr t .lf]

/-- the chunks of payload `body` cut according to `sizes` (what is left over is one more chunk) -/
def chunkCells (t : Tag) : List Nat → List Nat → List Cell
  | _, [] => []
  | [], b :: bs => oneChunk t (b :: bs)
  | n :: ns, b :: bs =>
    if n = 0 then chunkCells t ns (b :: bs)
    else oneChunk t ((b :: bs).take n) ++ chunkCells t ns ((b :: bs).drop n)

/-- the last-chunk line `0\r\n` -/
def lastChunk (t : Tag) : List Cell := [Cell.fr t (.size 0), Cell.fr t .cr, Cell.fr t .lf]

/-- the trailer section: the fields and the empty line -/
def trailerCells (t : Tag) : List Nat → List Cell
  | [] => [Cell.fr t .cr, Cell.fr t .lf]
  | m :: ms => List.replicate m (Cell.fr t .tr) ++ [Cell.fr t .cr, Cell.fr t .lf] ++ trailerCells t ms

/-- the message body as framed by head `h` -/
def framedCells (rid : Nat) (a : Attempt) (h : Head) : List Cell :=
  if h.chunked then chunkCells (.req rid) a.sizes a.body ++ lastChunk (.req rid) ++ trailerCells (.req rid) a.trailers
  else a.body.map (Cell.body (.req rid))

/-- everything the server sends after the head -/
def postCells (rid : Nat) (a : Attempt) (h : Head) : List Cell :=
  framedCells rid a h ++ a.stray.map (Cell.body .stray)

def headCells (rid : Nat) (n : Nat) (h : Head) : List Cell :=
  List.replicate (n - 1) (Cell.hd (.req rid) none) ++ [Cell.hd (.req rid) (some h)]

/-- the server's whole reaction to request `rid` -/
def serverCells (rid : Nat) (a : Attempt) : List Cell :=
  match a.head with
  | none => []
  | some h => headCells rid a.headLen h ++ postCells rid a h

/-- … the part of it that is sent when the request arrives -/
def serverNow (rid : Nat) (a : Attempt) : List Cell :=
  match a.head with
  | none => []
  | some h => headCells rid a.headLen h ++ (postCells rid a h).take ((postCells rid a h).length - a.hold)

/-- … and the tail that is held back until the next request arrives on the same connection -/
def serverHeld (rid : Nat) (a : Attempt) : List Cell :=
  match a.head with
  | none => []
  | some h => (postCells rid a h).drop ((postCells rid a h).length - a.hold)

/-! ## state -/

structure Sock where
  inbound : List Cell := []       -- sent by the peer, not yet read from the kernel
  after : After := .silent
  seg : Nat := 0
  held : List Cell := []          -- held back by the peer until the next request arrives
deriving Repr

inductive HttpState | idle | reqStarted | reqSent
deriving Repr, DecidableEq

structure Conn where
  sock : Option Nat := none            -- `None` ⇔ `is_closed`
  http : HttpState := .idle            -- `http.client` `__state`
  pending : Option Nat := none         -- `http.client` `__response`
  proxyConnected : Bool := false       -- `_has_connected_to_proxy`
deriving Repr

structure Resp where
  rid : Nat
  conn : Option Nat := none            -- `HTTPResponse._connection`
  hasPool : Bool := false              -- `HTTPResponse._pool` set
  fp : Option Nat := none              -- socket of the reader; `none` ⇔ `fp` closed
  buf : List Cell := []                -- `BufferedReader`'s private buffer
  length : Option Nat := none          -- `http.client` `length` / `length_remaining`
  isHead : Bool := false
  status : Nat := 0
  delivered : List Cell := []          -- everything handed to the caller as body
  returned : Bool := false             -- handed to the caller by `urlopen`
  chunked : Bool := false              -- `Transfer-Encoding: chunked`
  chunkLeft : Option Nat := none       -- `HTTPResponse.chunk_left` (urllib3's own chunk parser)
  hcLeft : Option Nat := none          -- `http.client` `chunk_left`
  eom : Bool := false                  -- ghost: a chunk parser has read the empty line that ends the message
  eofAt : Option Nat := none           -- ghost: a chunk parser stopped discarding the trailer section at EOF of this socket
deriving Repr

inductive Ev | connect (k : Nat) | send (k : Nat) | recv (k : Nat) | close (k : Nat) | put (c : Option Nat)
deriving Repr, DecidableEq

structure State where
  maxsize : Nat
  block : Bool
  proxy : Bool := false                -- forwarding proxy configured (`conn.proxy` truthy)
  queue : List (Option Nat) := []      -- head = top of the LIFO
  closed : Bool := false               -- `self.pool is None`
  conns : List Conn := []
  socks : List Sock := []
  resps : List Resp := []
  log : List Ev := []
deriving Repr

/-- `HTTPConnectionPool.__init__`: the queue is filled with `maxsize` placeholders -/
def init (maxsize : Nat) (block : Bool) (proxy : Bool := false) : State :=
  { maxsize, block, proxy, queue := List.replicate maxsize none }

def logEv (s : State) (e : Ev) : State := { s with log := s.log ++ [e] }

/-- is somebody still referencing socket `k`? -/
def sockOpen (s : State) (k : Nat) : Bool :=
  s.conns.any (fun c => c.sock == some k) || s.resps.any (fun r => r.fp == some k)

/-- log the real close if the last reference just went away -/
def noteClose (s : State) (k : Nat) : State := if sockOpen s k then s else logEv s (.close k)

def setConn (s : State) (c : Nat) (f : Conn → Conn) : State := { s with conns := s.conns.modify c f }
def setResp (s : State) (r : Nat) (f : Resp → Resp) : State := { s with resps := s.resps.modify r f }
def setSock (s : State) (k : Nat) (f : Sock → Sock) : State := { s with socks := s.socks.modify k f }

/-- close the reader of response `r` (`http.client.HTTPResponse._close_conn` / `.close`) -/
def closeFp (s : State) (r : Nat) : State :=
  match s.resps[r]? with
  | none => s
  | some rs =>
    match rs.fp with
    | none => s
    | some k => noteClose (setResp s r fun x => { x with fp := none, buf := [] }) k

/-- `HTTPConnection.close()`: `http.client`'s close (socket, pending response, state) and the reset
of urllib3's per-connection flags -/
def connClose (s : State) (c : Nat) : State :=
  match s.conns[c]? with
  | none => s
  | some cn =>
    let s1 := setConn s c fun x => { x with sock := none, http := .idle, pending := none, proxyConnected := false }
    let s2 := match cn.sock with
      | some k => noteClose s1 k
      | none => s1
    match cn.pending with
    | some r => closeFp s2 r
    | none => s2

def sockReadable (s : State) (k : Nat) : Bool :=
  match s.socks[k]? with
  | none => true
  | some sk => !sk.inbound.isEmpty || sk.after == .fin

/-- `is_connection_dropped(conn)` = `not conn.is_connected` -/
def isDropped (s : State) (c : Nat) : Bool :=
  match s.conns[c]? with
  | none => true
  | some cn => match cn.sock with
    | none => true
    | some k => sockReadable s k

/-- `queue.Full` for `LifoQueue(maxsize)` (`maxsize = 0` is unbounded) -/
def queueFull (s : State) : Bool := decide (0 < s.maxsize) && decide (s.maxsize ≤ s.queue.length)

/-- `_put_conn(conn)`; `some e` = raised -/
def putConn (s0 : State) (c : Option Nat) : State × Option Exc :=
  let s := logEv s0 (.put c)
  if !s.closed then
    if !queueFull s then ({ s with queue := c :: s.queue }, none)
    else
      let s1 := match c with
        | some i => connClose s i
        | none => s
      if s.block then (s1, some (exc Gen.cU3FullPoolError))
      else (match c with
        | some i => connClose s1 i
        | none => s1, none)
  else (match c with
    | some i => connClose s i
    | none => s, none)

/-- `_new_conn()` of the pool: a fresh, unconnected connection object -/
def newConn (s : State) : State × Nat := ({ s with conns := s.conns ++ [{}] }, s.conns.length)

/-- `_get_conn(timeout=pool_timeout)` (with a finite, non-negative `pool_timeout`).  The statements after
`self.pool.get(…)` (`is_connection_dropped`, `conn.close()`, `self._new_conn()`) stand in a
`try: … except BaseException: self._put_conn(None); raise`; none of them has a failure point in this model, so
the handler does not appear: whenever `getConn` fails, nothing has been taken (`getConn_error_state`) -/
def getConn (s : State) : State × Except Exc Nat :=
  if s.closed then (s, .error (exc Gen.cU3ClosedPoolError)) else
  match s.queue with
  | [] =>
    if s.block then (s, .error (exc Gen.cU3EmptyPoolError))
    else let (s1, c) := newConn s; (s1, .ok c)
  | item :: rest =>
    let s1 := { s with queue := rest }
    match item with
    | none => let (s2, c) := newConn s1; (s2, .ok c)
    | some c => ((if isDropped s1 c then connClose s1 c else s1), .ok c)

/-- `_get_conn(timeout=pool_timeout)` for any `pool_timeout`: after the `if self.pool is None` test,
`self.pool.get(block=self.block, timeout=timeout)` raises `ValueError("'timeout' must be a non-negative number")`
for a negative timeout when (and only when) `block` is true — whether or not the queue is empty; it is neither
`queue.Empty` nor `AttributeError`, so it leaves `_get_conn` as it is, and nothing has been taken from the queue -/
def getConnT (s : State) (badPoolTimeout : Bool) : State × Except Exc Nat :=
  if !s.closed && s.block && badPoolTimeout then (s, .error (exc Gen.cValueError)) else getConn s

/-- `HTTPConnection._new_conn`'s translation of what `create_connection` raised -/
def translateNewConn (c : Cls) : Exc :=
  if isInst c (Gen.newConnHandlers.getD 0 []) then exc Gen.cU3NameResolutionError
  else if isInst c (Gen.newConnHandlers.getD 1 []) then exc Gen.cU3ConnectTimeoutError
  else if isInst c (Gen.newConnHandlers.getD 2 []) then exc Gen.cU3NewConnectionError
  else exc c

/-- `HTTPConnection.connect()` -/
def connect (s : State) (c : Nat) (a : Attempt) : State × Except Exc Nat :=
  let k := s.socks.length
  let s1 := logEv { s with socks := s.socks ++ [{ seg := a.seg }] } (.connect k)
  match a.connect with
  | .nameRes => (s, .error (translateNewConn Gen.cGaierror))             -- no socket is created
  | .refused => (logEv s1 (.close k), .error (translateNewConn Gen.cConnectionRefusedError))
  | .timeout => (logEv s1 (.close k), .error (translateNewConn Gen.cTimeoutError))
  | .interrupt => (s1, .error (translateNewConn Gen.cKeyboardInterrupt)) -- socket left to the GC
  | .ok => (setConn s1 c fun x => { x with sock := some k, proxyConnected := s.proxy }, .ok k)

def sendExc : SendOut → Option Exc
  | .ok => none
  | .epipe => some (exc Gen.cBrokenPipeError)
  | .reset => some { cls := Gen.cConnectionResetError, errno := Gen.errnoECONNRESET }
  | .osError => some { cls := Gen.cOSError, errno := 5 }
  | .interrupt => some (exc Gen.cKeyboardInterrupt)

/-- forget a completed prior response (`if self.__response and self.__response.isclosed()`) -/
def forgetClosedPending (s : State) (c : Nat) : State :=
  match s.conns[c]? with
  | none => s
  | some cn => match cn.pending with
    | none => s
    | some r => match s.resps[r]? with
      | none => s
      | some rs => if rs.fp.isNone then setConn s c fun x => { x with pending := none } else s

/-- `conn.request(...)`: `putrequest` state check, `endheaders`, auto-connect, `sendall`; on a
successful send the server reacts.  Returns the socket the request went out on. -/
def connRequest (s : State) (c : Nat) (rid : Nat) (a : Attempt) : State × Except Exc Nat :=
  let s := forgetClosedPending s c
  match s.conns[c]? with
  | none => (s, .error (exc Gen.cAttributeError))
  | some cn =>
    if cn.http != .idle then (s, .error (exc Gen.cCannotSendRequest)) else
    let s := setConn s c fun x => { x with http := .reqSent }
    let (s, ek) := match cn.sock with
      | some k => (s, Except.ok k)
      | none => connect s c a
    match ek with
    | .error e => (s, .error e)
    | .ok k =>
      match sendExc a.send with
      | some e => (s, .error e)
      | none =>
        let s := logEv s (.send k)
        -- the server reacts: what it held back of the previous reply, then the part of the new reply it sends at once
        (setSock s k fun sk => { sk with inbound := sk.inbound ++ (sk.held ++ serverNow rid a), held := serverHeld rid a,
                                         after := a.after }, .ok k)

/-- `conn.request(...)` with a header value that cannot be encoded (`headers={"X-Bad": "\u0100"}`): `putrequest`
(state check, `__state = _CS_REQ_STARTED`, request line and `Host` / `Accept-Encoding` lines go to the connection's
output buffer `_buffer`), then `putheader` raises `UnicodeEncodeError` (a `ValueError`; the class table has the base
class only) from `value.encode("latin-1")`.  `endheaders()` is never reached: no auto-connect, not a byte is written
to the socket, the server sees nothing.  (The lines collected in `_buffer` stay in the connection object; `urlopen`
throws that object away — `discard`.) -/
def connReject (s : State) (c : Nat) : State × Except Exc Nat :=
  let s := forgetClosedPending s c
  match s.conns[c]? with
  | none => (s, .error (exc Gen.cAttributeError))
  | some cn =>
    if cn.http != .idle then (s, .error (exc Gen.cCannotSendRequest)) else
    (setConn s c fun x => { x with http := .reqSent }, .error (exc Gen.cValueError))

/-- `conn.request(...)` of a request whose header block can (`bad = false`) / cannot be encoded -/
def connRequestH (s : State) (c : Nat) (rid : Nat) (a : Attempt) (bad : Bool) : State × Except Exc Nat :=
  if bad then connReject s c else connRequest s c rid a

/-- the exceptions `_make_request` swallows around `conn.request` -/
def sendSwallowed (e : Exc) : Bool :=
  if isInst e.cls (Gen.makeRequestHandlers.getD 2 []) then true
  else if isInst e.cls (Gen.makeRequestHandlers.getD 3 []) then
    !(e.errno != Gen.errnoEPROTOTYPE && e.errno != Gen.errnoECONNRESET)
  else false

/-! ## the reader (`SocketIO` + `BufferedReader`) -/

inductive RecvOut | got | eof | exc (e : Exc)

def bufSize : Nat := 8192

/-- one `recv` of at most `room` bytes into the private buffer of response `r` -/
def recvInto (s : State) (r k room : Nat) : State × RecvOut :=
  let s := logEv s (.recv k)
  match s.socks[k]? with
  | none => (s, .exc { cls := Gen.cOSError, errno := 9 })
  | some sk =>
    match sk.inbound with
    | [] =>
      match sk.after with
      | .fin => (s, .eof)
      | .silent => (s, .exc (exc Gen.cTimeoutError))
      | .reset => (setSock s k fun x => { x with after := .silent },
                   .exc { cls := Gen.cConnectionResetError, errno := Gen.errnoECONNRESET })
      | .interrupt => (setSock s k fun x => { x with after := .silent }, .exc (exc Gen.cKeyboardInterrupt))
    | _ :: _ =>
      let n := if sk.seg = 0 then room else min sk.seg room
      let s := setSock s k fun x => { x with inbound := x.inbound.drop n }
      (setResp s r fun x => { x with buf := x.buf ++ sk.inbound.take n }, .got)

def garbageHead : Head :=
  { status := 0, close := true, cl := none, location := false, retryAfter := false, garbage := true }

/-- position just after the end of the head in the buffer, and the head; a body byte before the end
of a head is not a status line -/
def findHead : List Cell → Nat → Option (Nat × Head)
  | [], _ => none
  | .hd _ (some h) :: _, i => some (i + 1, h)
  | .hd _ none :: t, i => findHead t (i + 1)
  | .body _ _ :: _, i => some (i + 1, garbageHead)
  | .fr _ _ :: _, i => some (i + 1, garbageHead)

/-- is this byte a `\n`?  (the last byte of a head is one) -/
def isEol : Cell → Bool
  | .hd _ fin => fin.isSome
  | .body _ v => v == 10
  | .fr _ k => k == .lf

/-- position just after the first `\n` -/
def eolIdx : List Cell → Nat → Option Nat
  | [], _ => none
  | c :: t, i => if isEol c then some (i + 1) else eolIdx t (i + 1)

/-- the buffer starts with a byte that is not part of a response head: `readline()` returns that line
(once it is complete) and `_read_status` rejects it -/
def startsGarbage : List Cell → Bool
  | [] => false
  | .hd _ _ :: _ => false
  | _ :: _ => true

/-- what `begin()` finds in the buffer: a complete head, a complete line that is not a status line, or
not enough yet -/
def scanHead (buf : List Cell) : Option (Nat × Head) :=
  if startsGarbage buf then (eolIdx buf 0).map fun n => (n, garbageHead) else findHead buf 0

inductive HeadOut | ok (h : Head) | exc (e : Exc)

/-- `http.client.HTTPResponse.begin()`: `readline`s until the blank line; each `recv` is made only
when the buffer holds no complete head yet -/
def readHead : Nat → State → Nat → Nat → State × HeadOut
  | 0, s, _, _ => (s, .exc (exc Gen.cLineTooLong))
  | fuel + 1, s, r, k =>
    match s.resps[r]? with
    | none => (s, .exc (exc Gen.cAttributeError))
    | some rs =>
      match scanHead rs.buf with
      | some (n, h) =>
        let s := setResp s r fun x => { x with buf := x.buf.drop n }
        if h.garbage then (s, .exc (exc Gen.cBadStatusLine)) else (s, .ok h)
      | none =>
        match recvInto s r k (bufSize - rs.buf.length) with
        | (s, .got) => readHead fuel s r k
        | (s, .eof) => (s, .exc (exc (if rs.buf.isEmpty then Gen.cRemoteDisconnected else Gen.cBadStatusLine)))
        | (s, .exc e) => (s, .exc e)

inductive DataOut | data (d : List Cell) | exc (e : Exc)

/-- `BufferedReader.read(n)`: from the buffer, then refills until `n` bytes or EOF -/
def fpRead : Nat → State → Nat → Nat → Nat → List Cell → State × DataOut
  | 0, s, _, _, _, acc => (s, .data acc)
  | fuel + 1, s, r, k, n, acc =>
    match s.resps[r]? with
    | none => (s, .data acc)
    | some rs =>
      if n ≤ rs.buf.length then
        (setResp s r fun x => { x with buf := x.buf.drop n }, .data (acc ++ rs.buf.take n))
      else
        let s := setResp s r fun x => { x with buf := [] }
        match recvInto s r k bufSize with
        | (s, .got) => fpRead fuel s r k (n - rs.buf.length) (acc ++ rs.buf)
        | (s, .eof) => (s, .data (acc ++ rs.buf))
        | (s, .exc e) => (s, .exc e)

/-- `BufferedReader.read()`: everything until EOF -/
def fpReadAll : Nat → State → Nat → Nat → List Cell → State × DataOut
  | 0, s, _, _, acc => (s, .data acc)
  | fuel + 1, s, r, k, acc =>
    match s.resps[r]? with
    | none => (s, .data acc)
    | some rs =>
      let s := setResp s r fun x => { x with buf := [] }
      match recvInto s r k bufSize with
      | (s, .got) => fpReadAll fuel s r k (acc ++ rs.buf)
      | (s, .eof) => (s, .data (acc ++ rs.buf))
      | (s, .exc e) => (s, .exc e)

def inboundLen (s : State) (k : Nat) : Nat :=
  match s.socks[k]? with
  | none => 0
  | some sk => sk.inbound.length

/-! ### chunked transfer coding: `io.BufferedReader.readline`, `http.client`'s chunk reader -/

/-- `BufferedReader.readline()`: up to and including the first `\n`; at EOF what is there -/
def fpReadline : Nat → State → Nat → Nat → List Cell → State × DataOut
  | 0, s, _, _, _ => (s, .exc (exc Gen.cLineTooLong))
  | fuel + 1, s, r, k, acc =>
    match s.resps[r]? with
    | none => (s, .data acc)
    | some rs =>
      match eolIdx rs.buf 0 with
      | some n => (setResp s r fun x => { x with buf := x.buf.drop n }, .data (acc ++ rs.buf.take n))
      | none =>
        let s := setResp s r fun x => { x with buf := [] }
        match recvInto s r k bufSize with
        | (s, .got) => fpReadline fuel s r k (acc ++ rs.buf)
        | (s, .eof) => (s, .data (acc ++ rs.buf))
        | (s, .exc e) => (s, .exc e)

/-- `int(line.split(b";")[0], 16)` of a chunk-size line (`none`: `ValueError`); a framing line is
atomic, like a head: only the complete line `<digit>\r\n` parses -/
def lineSize : List Cell → Option Nat
  | [.fr _ (.size n), .fr _ .cr, .fr _ .lf] => some n
  | _ => none

/-- `line == b"\r\n"` -/
def isBlankLine : List Cell → Bool
  | [.fr _ .cr, .fr _ .lf] => true
  | _ => false

/-- `http.client.HTTPResponse._safe_read(n)` -/
def safeRead (s : State) (r k n : Nat) : State × DataOut :=
  match fpRead (inboundLen s k + 2) s r k n [] with
  | (s, .exc e) => (s, .exc e)
  | (s, .data d) => if d.length < n then (s, .exc (exc Gen.cHttpIncompleteRead)) else (s, .data d)

def hcLeftOf (s : State) (r : Nat) : Option Nat :=
  match s.resps[r]? with
  | some rs => rs.hcLeft
  | none => none

/-- `_read_and_discard_trailer()`: lines up to the empty line (or EOF) -/
def hcDiscardTrailer : Nat → State → Nat → Nat → State × Option Exc
  | 0, s, _, _ => (s, some (exc Gen.cLineTooLong))
  | fuel + 1, s, r, k =>
    match fpReadline (inboundLen s k + 2) s r k [] with
    | (s, .exc e) => (s, some e)
    | (s, .data line) =>
      if line.isEmpty then (setResp s r fun x => { x with eofAt := some k }, none)
      else if isBlankLine line then (setResp s r fun x => { x with eom := true }, none)
      else hcDiscardTrailer fuel s r k

inductive LeftOut | left (n : Option Nat) | exc (e : Exc)

/-- `if chunk_left is not None: self._safe_read(2)`: the CRLF that ends the previous chunk -/
def hcToss (s : State) (r k : Nat) (cl : Option Nat) : State × Option Exc :=
  match cl with
  | some _ => (match safeRead s r k 2 with
    | (s, .exc e) => (s, some e)
    | (s, .data _) => (s, none))
  | none => (s, none)

/-- `_get_chunk_left()` when the current chunk is used up (`chunk_left` is 0 or `None`): the CRLF of the
previous chunk, `_read_next_chunk_size()`, and after the last chunk `_read_and_discard_trailer()` and
`_close_conn()` -/
def hcNext (s : State) (r k : Nat) (cl : Option Nat) : State × LeftOut :=
  match hcToss s r k cl with
  | (s, some e) => (s, .exc e)
  | (s, none) =>
    match fpReadline (inboundLen s k + 2) s r k [] with
    | (s, .exc e) => (s, .exc e)
    | (s, .data line) =>
      match lineSize line with
      | none => (closeFp s r, .exc (exc Gen.cHttpIncompleteRead))     -- `ValueError`: `_close_conn()`, `IncompleteRead(b'')`
      | some 0 =>
        match hcDiscardTrailer (inboundLen s k + (match s.resps[r]? with | some rs => rs.buf.length | none => 0) + 2) s r k with
        | (s, some e) => (s, .exc e)
        | (s, none) => (closeFp (setResp s r fun x => { x with hcLeft := none }) r, .left none)
      | some (n + 1) => (setResp s r fun x => { x with hcLeft := some (n + 1) }, .left (some (n + 1)))

/-- `_get_chunk_left()`: the bytes left in the current chunk; reads the next chunk-size line (and, after
the last chunk, the trailer section) when the current chunk is used up; `none` = the body is over -/
def hcGetChunkLeft (s : State) (r k : Nat) : State × LeftOut :=
  match hcLeftOf s r with
  | some (n + 1) => (s, .left (some (n + 1)))
  | cl => hcNext s r k cl

/-- `_read_chunked(amt)` -/
def hcReadChunked : Nat → State → Nat → Nat → Option Nat → List Cell → State × DataOut
  | 0, s, _, _, _, _ => (s, .exc (exc Gen.cLineTooLong))
  | fuel + 1, s, r, k, amt, acc =>
    match hcGetChunkLeft s r k with
    | (s, .exc e) => (s, .exc e)
    | (s, .left none) => (s, .data acc)
    | (s, .left (some cl)) =>
      -- `if amt is not None and amt <= chunk_left`
      match (match amt with
        | some n => if n ≤ cl then some n else none
        | none => none) with
      | some n =>
        match safeRead s r k n with
        | (s, .exc e) => (s, .exc e)
        | (s, .data d) => (setResp s r fun x => { x with hcLeft := some (cl - n) }, .data (acc ++ d))
      | none =>
        match safeRead s r k cl with
        | (s, .exc e) => (s, .exc e)
        | (s, .data d) =>
          hcReadChunked fuel (setResp s r fun x => { x with hcLeft := some 0 }) r k (amt.map (· - cl)) (acc ++ d)

/-- `http.client.HTTPResponse.read(amt)` -/
def httpRead (s : State) (r : Nat) (amt : Option Nat) : State × DataOut :=
  match s.resps[r]? with
  | none => (s, .data [])
  | some rs =>
    match rs.fp with
    | none => (s, .data [])
    | some k =>
      if rs.isHead then (closeFp s r, .data []) else
      if rs.chunked then hcReadChunked (inboundLen s k + rs.buf.length + 2) s r k amt [] else
      let fuel := inboundLen s k + 2
      match amt with
      | some n =>
        let n' := match rs.length with
          | some l => if n > l then l else n
          | none => n
        match fpRead fuel s r k n' [] with
        | (s, .exc e) => (s, .exc e)
        | (s, .data d) =>
          if d.isEmpty && n' != 0 then (closeFp s r, .data d)
          else match rs.length with
            | some l =>
              let s := setResp s r fun x => { x with length := some (l - d.length) }
              ((if l - d.length = 0 then closeFp s r else s), .data d)
            | none => (s, .data d)
      | none =>
        match rs.length with
        | none =>
          match fpReadAll fuel s r k [] with
          | (s, .exc e) => (s, .exc e)
          | (s, .data d) => (closeFp s r, .data d)
        | some l =>
          match fpRead fuel s r k l [] with
          | (s, .exc e) => (s, .exc e)
          | (s, .data d) =>
            if d.length < l then (closeFp s r, .exc (exc Gen.cHttpIncompleteRead))
            else (closeFp (setResp s r fun x => { x with length := some 0 }) r, .data d)

/-- `_error_catcher`'s translation -/
def translateRead (e : Exc) : Exc :=
  if isInst e.cls (Gen.errorCatcherHandlers.getD 0 []) then exc Gen.cU3ReadTimeoutError
  else if isInst e.cls (Gen.errorCatcherHandlers.getD 1 []) then exc Gen.cU3SSLError
  else if isInst e.cls (Gen.errorCatcherHandlers.getD 2 []) then exc Gen.cU3ProtocolError
  else if isInst e.cls (Gen.errorCatcherHandlers.getD 3 []) then exc Gen.cU3ProtocolError
  else e

/-- `HTTPResponse.release_conn()` -/
def releaseConn (s : State) (r : Nat) : State × Option Exc :=
  match s.resps[r]? with
  | none => (s, none)
  | some rs =>
    if !rs.hasPool then (s, none) else
    match rs.conn with
    | none => (s, none)
    | some c =>
      match putConn s (some c) with
      | (s, some e) => (s, some e)            -- `_connection` is not cleared when `_put_conn` raises
      | (s, none) => (setResp s r fun x => { x with conn := none }, none)

def respFpClosed (s : State) (r : Nat) : Bool :=
  match s.resps[r]? with
  | none => true
  | some rs => rs.fp.isNone

/-- the `finally` of `_error_catcher` -/
def errorCatcherExit (s : State) (r : Nat) (clean : Bool) : State × Option Exc :=
  let s := if clean then s else
    let s := closeFp s r
    match s.resps[r]? with
    | none => s
    | some rs => match rs.conn with
      | some c => connClose s c
      | none => s
  if respFpClosed s r then releaseConn s r else (s, none)

/-- `HTTPResponse._raw_read(amt)` (under `_error_catcher`) -/
def rawRead (s : State) (r : Nat) (amt : Option Nat) : State × DataOut :=
  let (s, out) := httpRead s r amt
  -- `if amt is not None and amt != 0 and not data: self._fp.close(); … raise IncompleteRead`
  let (s, out) := match out, amt with
    | .data d, some n =>
      if n != 0 && d.isEmpty then
        let s := closeFp s r
        match s.resps[r]? with
        | some rs => match rs.length with
          | some l => if l != 0 then (s, DataOut.exc (exc Gen.cU3IncompleteRead)) else (s, out)
          | none => (s, out)
        | none => (s, out)
      else (s, out)
    | _, _ => (s, out)
  match out with
  | .exc e =>
    match errorCatcherExit s r false with
    | (s, some e') => (s, .exc e')
    | (s, none) => (s, .exc (translateRead e))
  | .data d =>
    match errorCatcherExit s r true with
    | (s, some e') => (s, .exc e')
    | (s, none) =>
      -- `length_remaining -= len(data)` is the same counter here
      (s, .data d)

/-- `HTTPResponse.read(amt)` for a positive `amt`, identity content coding: the
`while len(self._decoded_buffer) < amt and data` loop -/
def readAmt : Nat → State → Nat → Nat → List Cell → State × DataOut
  | 0, s, _, _, acc => (s, .data acc)
  | fuel + 1, s, r, n, acc =>
    match rawRead s r (some n) with
    | (s, .exc e) => (s, .exc e)
    | (s, .data d) =>
      if d.isEmpty || n ≤ (acc ++ d).length then (s, .data (acc ++ d))
      else readAmt fuel s r n (acc ++ d)

def deliver (s : State) (r : Nat) (d : List Cell) : State :=
  setResp s r fun x => { x with delivered := x.delivered ++ d }

/-- `HTTPResponse.read(amt)` as seen by the caller (`amt = none`: everything); what it returns is
recorded in `delivered` -/
def respRead (s : State) (r : Nat) (amt : Option Nat) : State × DataOut :=
  match (match amt with
    | none => rawRead s r none
    | some n => readAmt (n + 1) s r n []) with
  | (s, .data d) => (deliver s r d, .data d)
  | (s, .exc e) => (s, .exc e)

/-- `HTTPResponse.stream(amt)` joined: `while not is_fp_closed(self._fp): read(amt)` -/
def respStream : Nat → State → Nat → Nat → List Cell → State × DataOut
  | 0, s, _, _, acc => (s, .data acc)
  | fuel + 1, s, r, n, acc =>
    if respFpClosed s r then (s, .data acc) else
    match respRead s r (some n) with
    | (s, .exc e) => (s, .exc e)
    | (s, .data d) => respStream fuel s r n (acc ++ d)

/-! ### `HTTPResponse.read_chunked` (urllib3's own chunk parser, used by `stream()`) -/

def chunkLeftOf (s : State) (r : Nat) : Option Nat :=
  match s.resps[r]? with
  | some rs => rs.chunkLeft
  | none => none

/-- `HTTPResponse.close()` -/
def respClose (s : State) (r : Nat) : State :=
  let s := closeFp s r
  match s.resps[r]? with
  | none => s
  | some rs => match rs.conn with
    | some c => connClose s c
    | none => s

/-- `_update_chunk_length()` -/
def updateChunkLength (s : State) (r k : Nat) : State × Option Exc :=
  match chunkLeftOf s r with
  | some _ => (s, none)
  | none =>
    match fpReadline (inboundLen s k + 2) s r k [] with
    | (s, .exc e) => (s, some e)
    | (s, .data line) =>
      match lineSize line with
      | some n => (setResp s r fun x => { x with chunkLeft := some n }, none)
      | none =>
        -- `self.close()`, then `InvalidChunkLength` / `ProtocolError("Response ended prematurely")`
        (respClose s r, some (exc (if line.isEmpty then Gen.cU3ProtocolError else Gen.cU3InvalidChunkLength)))

/-- `_handle_chunk(amt)` for an integer `amt` -/
def handleChunk (s : State) (r k amt : Nat) : State × DataOut :=
  match chunkLeftOf s r with
  | none => (s, .data [])
  | some cl =>
    if amt < cl then
      match safeRead s r k amt with
      | (s, .exc e) => (s, .exc e)
      | (s, .data d) => (setResp s r fun x => { x with chunkLeft := some (cl - amt) }, .data d)
    else
      match safeRead s r k cl with
      | (s, .exc e) => (s, .exc e)
      | (s, .data d) =>
        match safeRead s r k 2 with           -- toss the CRLF at the end of the chunk
        | (s, .exc e) => (s, .exc e)
        | (s, .data _) => (setResp s r fun x => { x with chunkLeft := none }, .data d)

/-- the `while True:` loop of `read_chunked`; every chunk yielded is recorded in `delivered` -/
def chunkLoop : Nat → State → Nat → Nat → Nat → List Cell → State × DataOut
  | 0, s, _, _, _, _ => (s, .exc (exc Gen.cLineTooLong))
  | fuel + 1, s, r, k, amt, acc =>
    match updateChunkLength s r k with
    | (s, some e) => (s, .exc e)
    | (s, none) =>
      if chunkLeftOf s r == some 0 then (s, .data acc) else
      match handleChunk s r k amt with
      | (s, .exc e) => (s, .exc e)
      | (s, .data d) => chunkLoop fuel (deliver s r d) r k amt (acc ++ d)

/-- `while self._fp is not None: line = self._fp.fp.readline(); if not line: break; if line == b"\r\n": break` -/
def skipTrailers : Nat → State → Nat → Nat → State × Option Exc
  | 0, s, _, _ => (s, some (exc Gen.cLineTooLong))
  | fuel + 1, s, r, k =>
    match fpReadline (inboundLen s k + 2) s r k [] with
    | (s, .exc e) => (s, some e)
    | (s, .data line) =>
      if line.isEmpty then (setResp s r fun x => { x with eofAt := some k }, none)
      else if isBlankLine line then (setResp s r fun x => { x with eom := true }, none)
      else skipTrailers fuel s r k

/-- leaving `_error_catcher` -/
def catcherExit (s : State) (r : Nat) (out : DataOut) : State × DataOut :=
  match out with
  | .exc e =>
    match errorCatcherExit s r false with
    | (s, some e') => (s, .exc e')
    | (s, none) => (s, .exc (translateRead e))
  | .data d =>
    match errorCatcherExit s r true with
    | (s, some e') => (s, .exc e')
    | (s, none) => (s, .data d)

/-- the body of `read_chunked(amt)` inside `_error_catcher` -/
def readChunkedBody (s : State) (r amt : Nat) : State × DataOut :=
  match s.resps[r]? with
  | none => (s, .data [])
  | some rs =>
    if rs.isHead then (closeFp s r, .data [])          -- `self._original_response.close(); return`
    else match rs.fp with
      | none => (s, .data [])                          -- `if self._fp.fp is None: return`
      | some k =>
        let fuel := inboundLen s k + rs.buf.length + 2
        match chunkLoop fuel s r k amt [] with
        | (s, .exc e) => (s, .exc e)
        | (s, .data d) =>
          match skipTrailers fuel s r k with
          | (s, some e) => (s, .exc e)
          | (s, none) => (closeFp s r, .data d)        -- `self._original_response.close()`

/-- `b"".join(HTTPResponse.read_chunked(amt))` -/
def readChunked (s : State) (r amt : Nat) : State × DataOut :=
  match readChunkedBody s r amt with
  | (s, out) => catcherExit s r out

/-- `HTTPResponse.drain_conn()`: `read()` with the listed classes swallowed; the drained bytes are
not handed to anybody -/
def drainConn (s : State) (r : Nat) : State × Option Exc :=
  match rawRead s r none with
  | (s, .data _) => (s, none)
  | (s, .exc e) => if isInst e.cls (Gen.drainConnHandlers.getD 0 []) then (s, none) else (s, some e)

/-! ## `_make_request` -/

structure ReqCfg where
  preload : Bool := true
  release : Bool := true            -- `release_conn` after `if release_conn is None: release_conn = preload_content`
  redirect : Bool := true
  methodRetryable : Bool := true    -- `Retry._is_method_retryable(method)`
  isHead : Bool := false
  fileBody : Bool := false          -- `body` is a file-like object (it has `tell` / `seek`)
  bodyPos : Bool := false           -- `body_pos is not None` on entry (passed by the caller, or recorded by the
                                    -- previous invocation of the chain)
  badTimeout : Bool := false        -- the per-request `timeout` is one that `Timeout` rejects (`ValueError`)
  badPoolTimeout : Bool := false    -- `pool_timeout` is negative: `queue.get(block=True, timeout=…)` rejects it
                                    -- (`ValueError`); a `block=False` pool never looks at it
  badHeader : Bool := false         -- a header value that cannot be encoded as latin-1: `putheader` raises
                                    -- `UnicodeEncodeError` (a `ValueError`) between `putrequest` and `endheaders`
deriving Repr

inductive RespOut | resp (r : Nat) | exc (e : Exc)

/-- `_raise_timeout` applied in the `except (BaseSSLError, OSError)` around `getresponse` -/
def translateRecv (e : Exc) : Exc :=
  if isInst e.cls (Gen.makeRequestHandlers.getD 4 []) && isSub e.cls Gen.cTimeoutError
  then exc Gen.cU3ReadTimeoutError else e

/-- `conn.getresponse()`: `http.client`'s state check, `begin()`, ownership of the socket, then the
construction of urllib3's `HTTPResponse` (with the preload read) -/
def getResponse (s : State) (c k rid : Nat) (rc : ReqCfg) : State × RespOut :=
  let s := forgetClosedPending s c
  match s.conns[c]? with
  | none => (s, .exc (exc Gen.cAttributeError))
  | some cn =>
    if cn.http != .reqSent || cn.pending.isSome then (s, .exc (exc Gen.cResponseNotReady)) else
    let r := s.resps.length
    let s := { s with resps := s.resps ++ [{ rid := rid, fp := some k, isHead := rc.isHead }] }
    match readHead (inboundLen s k + 2) s r k with
    | (s, .exc e) =>
      -- `except ConnectionError: self.close(); raise` … `except: response.close(); raise`;
      -- urllib3's `getresponse` puts `_has_connected_to_proxy` back after that `close()`
      -- (`except ConnectionError: self._has_connected_to_proxy = has_connected_to_proxy; raise`)
      let s := if isSub e.cls Gen.cConnectionError then
          setConn (connClose s c) c fun x => { x with proxyConnected := cn.proxyConnected }
        else s
      (closeFp s r, .exc e)
    | (s, .ok h) =>
      let noBody := h.status == 204 || h.status == 304 || (100 ≤ h.status && h.status < 200) || rc.isHead
      -- `if length and not self.chunked`
      let length : Option Nat := if noBody then some 0 else if h.chunked then none else h.cl
      -- `if not self.will_close and not self.chunked and self.length is None: self.will_close = True`
      let willClose := h.close || (length.isNone && !h.chunked)
      let s := setResp s r fun x => { x with length := length, status := h.status, chunked := h.chunked }
      let s := setConn s c fun x => { x with http := .idle }
      let s := if willClose then connClose s c else setConn s c fun x => { x with pending := some r }
      if rc.preload then
        match respRead s r none with
        | (s, .exc e) => (s, .exc e)
        | (s, .data _) => (s, .resp r)
      else (s, .resp r)

/-- the end of `_make_request`: `response._connection = response_conn; response._pool = self`, then
`if response_conn is not None and response.closed: response.release_conn()` — a preloaded body was
read to the end before the response got hold of its connection, so that read could not release it -/
def attachResp (s : State) (c r : Nat) (rc : ReqCfg) : State × RespOut :=
  let s := setResp s r fun x => { x with conn := if rc.release then none else some c, hasPool := true }
  if !rc.release && respFpClosed s r then
    match releaseConn s r with
    | (s, some e) => (s, .exc e)          -- `_put_conn` raised (`FullPoolError`)
    | (s, none) => (s, .resp r)
  else (s, .resp r)

/-- `_make_request(conn, …)` for a plain-HTTP pool (`_validate_conn` is a no-op) -/
def makeRequest (s : State) (c rid : Nat) (a : Attempt) (rc : ReqCfg) : State × RespOut :=
  let (s, ek) := connRequestH s c rid a rc.badHeader
  -- a swallowed send error leaves the socket where it was
  let ek : Except Exc Nat := match ek with
    | .ok k => .ok k
    | .error e =>
      if sendSwallowed e then
        match s.conns[c]? with
        | some cn => match cn.sock with
          | some k => .ok k
          | none => .error (exc Gen.cAttributeError)     -- `self.sock.settimeout` on `None`
        | none => .error (exc Gen.cAttributeError)
      else .error e
  match ek with
  | .error e => (s, .exc e)
  | .ok k =>
    match getResponse s c k rid rc with
    | (s, .exc e) => (s, .exc (translateRecv e))
    | (s, .resp r) =>
      attachResp s c r rc

/-! ## `urlopen` -/

inductive Result
  | resp (r : Nat)
  | raised (e : Exc)
  | scriptExhausted
deriving Repr

/-- `conn and conn.proxy and not conn.has_connected_to_proxy` -/
def unconnectedProxy (s : State) (c : Nat) : Bool :=
  match s.conns[c]? with
  | some cn => s.proxy && !cn.proxyConnected
  | none => false

/-- the translation done in `urlopen`'s big `except` clause -/
def translateUrlopen (unconnected : Bool) (c : Cls) : Exc :=
  let c1 := if isInst c (Gen.urlopenIsinstance.getD 0 []) then Gen.cU3SSLError else c
  if isInst c1 (Gen.urlopenIsinstance.getD 1 []) && unconnected then
    { cls := Gen.cU3ProxyError, orig := c1 }
  else if isInst c1 (Gen.urlopenIsinstance.getD 2 []) then exc Gen.cU3ProtocolError
  else exc c1

/-- what `urlopen`'s `except` clauses do with an exception of class `c` raised between checkout and
the end of `_make_request` -/
inductive Handled
  | propagate            -- `except EmptyPoolError: … raise`, or no clause matches: raised unchanged
  | noCleanup            -- … and for `EmptyPoolError` without touching the pool (`clean_exit = True`)
  | raise (e : Exc)      -- translated, `retries.increment` raised (the error itself or `MaxRetryError`)
  | retry (r : Retry)    -- translated, budget left: `urlopen` recurses
deriving Repr, DecidableEq

def handleError (unconnected : Bool) (retries : Retry) (methodRetryable : Bool) (c : Cls) : Handled :=
  if isInst c (Gen.urlopenHandlers.getD 1 []) then .noCleanup
  else if isInst c (Gen.urlopenHandlers.getD 2 []) then
    match retries.incrementErr methodRetryable (translateUrlopen unconnected c) with
    | .raise e' => .raise e'
    | .ok r => .retry r
  else .propagate

/-- the `finally` clause for `clean_exit = False`.  With a connection (`if conn:`):
`conn.close(); conn = None; release_this_conn = True`, hence `self._put_conn(None)`.  Without one (`else:` —
`_get_conn()` raised, nothing was taken from the pool): `release_this_conn = False`, nothing is put back -/
def discard (s : State) (c : Option Nat) : State × Option Exc :=
  match c with
  | some i => putConn (connClose s i) none
  | none => (s, none)

def isRedirect (s : State) (r : Nat) (h : Bool) : Bool :=
  h && (match s.resps[r]? with
    | some rs => redirectStatuses.contains rs.status
    | none => false)

structure RespMeta where
  location : Bool
  retryAfter : Bool

def markReturned (s : State) (r : Nat) : State := setResp s r fun x => { x with returned := true }

/-- the keyword arguments of the recursive call after `body_pos = set_file_position(body, body_pos)`:
the position of a file-like body has been recorded (`tell()`) -/
def ReqCfg.hop (rc : ReqCfg) : ReqCfg := { rc with bodyPos := rc.bodyPos || rc.fileBody }

/-- … and after a 303: `method = "GET"; body = None; body_pos = None` -/
def ReqCfg.seeOther (rc : ReqCfg) : ReqCfg :=
  { rc with methodRetryable := true, isHead := false, fileBody := false, bodyPos := false }

/-- what `urlopen` raises between its entry and the `try:` (nothing has been taken from the pool yet, and
no `finally` clause runs): `body_pos = set_file_position(body, body_pos)` rewinds a file-like body whose
position is known and raises `UnrewindableBodyError` when the `seek` fails;
`timeout_obj = self._get_timeout(timeout)` raises `ValueError` for a per-request timeout that `Timeout`
rejects (since the repair of finding `put-without-checkout` this statement stands before the `try:`) -/
def preflight (rc : ReqCfg) (a : Attempt) : Option Exc :=
  if rc.bodyPos && a.pre == .unrewindable then some (exc Gen.cU3UnrewindableBodyError)
  else if rc.badTimeout then some (exc Gen.cValueError)
  else none

/-- `retries.sleep_for_retry(response)` (redirect) / `retries.sleep(response)` (status retry) between two
attempts.  Without a `Retry-After` header nothing can happen (`backoff_factor = 0`); with one,
`parse_retry_after` raises `InvalidHeader` for a value that is neither a number nor a date, and `time.sleep`
may be interrupted -/
def waitExc (retryAfter : Bool) : WaitOut → Option Exc
  | .ok => none
  | .invalidHeader => if retryAfter then some (exc Gen.cU3InvalidHeader) else none
  | .interrupt => if retryAfter then some (exc Gen.cKeyboardInterrupt) else none

/-- a whole `urlopen` call; every invocation (the first and each recursive one) consumes one
attempt record -/
def request (s : State) (rid : Nat) (rc : ReqCfg) (retries : Retry) : List Attempt → State × Result
  | [] => (s, .scriptExhausted)
  | a :: rest =>
    -- body_pos = set_file_position(body, body_pos); timeout_obj = self._get_timeout(timeout)
    match preflight rc a with
    | some e => (s, .raised e)
    | none =>
    -- clean_exit = False; release_this_conn = release_conn; conn = None
    -- try: conn = self._get_conn(timeout=pool_timeout)
    match getConnT s rc.badPoolTimeout with
    | (s, .error e) =>
      -- `conn` is still `None` in the `finally` clause: `discard s none` puts nothing back
      match handleError false retries rc.methodRetryable e.cls with
      | .noCleanup => (s, .raised e)    -- EmptyPoolError: clean_exit = True, release_this_conn = False
      | .propagate => match discard s none with
        | (s, some e') => (s, .raised e')
        | (s, none) => (s, .raised e)
      | .raise e' => match discard s none with
        | (s, some e'') => (s, .raised e'')
        | (s, none) => (s, .raised e')
      | .retry retries' => match discard s none with
        | (s, some e'') => (s, .raised e'')
        | (s, none) => request s rid rc.hop retries' rest
    | (s, .ok c) =>
      match makeRequest s c rid a rc with
      | (s, .exc e) =>
        match handleError (unconnectedProxy s c) retries rc.methodRetryable e.cls with
        | .noCleanup => (s, .raised e)
        | .propagate => match discard s (some c) with
          | (s, some e') => (s, .raised e')
          | (s, none) => (s, .raised e)
        | .raise e' => match discard s (some c) with
          | (s, some e'') => (s, .raised e'')
          | (s, none) => (s, .raised e')
        | .retry retries' => match discard s (some c) with
          | (s, some e'') => (s, .raised e'')
          | (s, none) => request s rid rc.hop retries' rest        -- `if not conn: return self.urlopen(…)`
      | (s, .resp r) =>
        -- clean_exit = True; finally: if release_this_conn: self._put_conn(conn)
        match (if rc.release then putConn s (some c) else (s, none)) with
        | (s, some e) => (s, .raised e)
        | (s, none) =>
          let hd : RespMeta := match a.head with
            | some h => { location := h.location, retryAfter := h.retryAfter }
            | none => { location := false, retryAfter := false }
          let status := match s.resps[r]? with
            | some rs => rs.status
            | none => 0
          if rc.redirect && isRedirect s r hd.location then
            let rc' := if status == 303 then rc.seeOther else rc.hop
            match retries.incrementResp with
            | none =>
              if retries.raiseOnRedirect then
                match drainConn s r with
                | (s, some e) => (s, .raised e)
                | (s, none) => (s, .raised (exc Gen.cU3MaxRetryError))
              else (markReturned s r, .resp r)
            | some retries' =>
              -- response.drain_conn(); retries.sleep_for_retry(response); return self.urlopen(…)
              match drainConn s r with
              | (s, some e) => (s, .raised e)
              | (s, none) =>
                match waitExc hd.retryAfter a.wait with
                | some e => (s, .raised e)
                | none => request s rid rc' retries' rest
          else if retries.isRetry rc.methodRetryable status hd.retryAfter then
            match retries.incrementResp with
            | none =>
              match drainConn s r with
              | (s, some e) => (s, .raised e)
              | (s, none) => (s, .raised (exc Gen.cU3MaxRetryError))
            | some retries' =>
              -- response.drain_conn(); retries.sleep(response); return self.urlopen(…)
              match drainConn s r with
              | (s, some e) => (s, .raised e)
              | (s, none) =>
                match waitExc hd.retryAfter a.wait with
                | some e => (s, .raised e)
                | none => request s rid rc.hop retries' rest
          else (markReturned s r, .resp r)

/-! ## what the caller does with a response -/

inductive How
  | readAll                 -- `r.read()`
  | readK (k : Nat)         -- `r.read(k)`
  | readKRelease (k : Nat)  -- `r.read(k); r.release_conn()`
  | release                 -- `r.release_conn()`
  | drain                   -- `r.drain_conn()`
  | close                   -- `r.close()`, `with r: pass`
  | drop                    -- `del r; gc.collect()` (`IOBase.__del__` closes an unclosed response)
  | stream (k : Nat)        -- `b"".join(r.stream(k))`
deriving Repr, DecidableEq

inductive DispOut | unit | data (d : List Cell) | raised (e : Exc) | noSuchResponse
deriving Repr

/-- the response `urlopen` returned for request `rid` is the last one created for it -/
def findResp (s : State) (rid : Nat) : Option Nat :=
  let idx := (List.range s.resps.length).filter fun i =>
    match s.resps[i]? with
    | some rs => rs.rid == rid
    | none => false
  idx.getLast?

def totalInbound (s : State) : Nat := (s.socks.map (·.inbound.length)).sum

def respChunked (s : State) (r : Nat) : Bool :=
  match s.resps[r]? with
  | some rs => rs.chunked
  | none => false

def disposeResp (s : State) (r : Nat) : How → State × DispOut
  | .readAll => match respRead s r none with
    | (s, .data d) => (s, .data d)
    | (s, .exc e) => (s, .raised e)
  | .readK k => match respRead s r (some k) with
    | (s, .data d) => (s, .data d)
    | (s, .exc e) => (s, .raised e)
  | .readKRelease k => match respRead s r (some k) with
    | (s, .exc e) => (s, .raised e)
    | (s, .data d) => match releaseConn s r with
      | (s, some e) => (s, .raised e)
      | (s, none) => (s, .data d)
  | .release => match releaseConn s r with
    | (s, some e) => (s, .raised e)
    | (s, none) => (s, .unit)
  | .drain => match drainConn s r with
    | (s, some e) => (s, .raised e)
    | (s, none) => (s, .unit)
  | .close => (respClose s r, .unit)
  | .drop => ((if respFpClosed s r then s else respClose s r), .unit)
  | .stream k =>
    -- `if self.chunked and self.supports_chunked_reads(): yield from self.read_chunked(amt)`
    match (if respChunked s r then readChunked s r k
      else respStream (totalInbound s + (match s.resps[r]? with | some rs => rs.buf.length | none => 0) + 2) s r k []) with
    | (s, .data d) => (s, .data d)
    | (s, .exc e) => (s, .raised e)

def dispose (s : State) (rid : Nat) (how : How) : State × DispOut :=
  match findResp s rid with
  | none => (s, .noSuchResponse)
  | some r => disposeResp s r how

/-- `HTTPConnectionPool.close()` -/
def closePool (s : State) : State :=
  if s.closed then s else
  let s1 := { s with queue := [], closed := true }
  s.queue.foldl (fun acc item => match item with
    | some c => connClose acc c
    | none => acc) s1

/-! ## operations of a history -/

inductive Op
  | request (rid : Nat) (rc : ReqCfg) (retries : Retry) (script : List Attempt)
  | dispose (rid : Nat) (how : How)
  | closePool
deriving Repr

inductive Out | result (r : Result) | disp (d : DispOut) | unit
deriving Repr

def step (s : State) : Op → State × Out
  | .request rid rc retries script => let (s, r) := request s rid rc retries script; (s, .result r)
  | .dispose rid how => let (s, d) := dispose s rid how; (s, .disp d)
  | .closePool => (closePool s, .unit)

def run (s : State) (ops : List Op) : State := ops.foldl (fun acc op => (step acc op).1) s

end U3.Pool
