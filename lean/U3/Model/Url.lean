import U3.Base.Str
import U3.Gen.Url
/-!
# Model of `urllib3.util.url` (`parse_url`, `Url`, `_encode_invalid_chars`,
# `_remove_path_dot_segments`, `_normalize_host`, `_encode_target`)

Transcribed from `/repo/src/urllib3/util/url.py` (2.3.0).  Python `str` = `List Nat` (code points,
lone surrogates allowed).  Every regex is replaced by a hand matcher with the same language and the
same capture discipline; the argument for each is in the comment above it (DESIGN.md App. D) and it
is validated by the exhaustive short-string correspondence of `harness/props/c14.py`.  The
character sets and `_NORMALIZABLE_SCHEMES` are the *generated* `U3.Gen.*` constants.

All recursion is structural (so closed instances reduce by `decide`).  String constants are numeric
lists on purpose (`"://"` = `[58,47,47]`), again so that the kernel can evaluate the model.

`idna.encode` is a parameter `idna : Str → Option Str` (answer for a non-ASCII label, or failure).
-/
namespace U3.Url
open U3

/-- exception classes that can arise inside `parse_url`'s `try` block (the funnel is explicit) -/
inductive Exc
  | locationParseError
  | attributeError        -- `None.groups()`
  | valueError            -- kept for the `except (ValueError, AttributeError)` clause
  | other                 -- any class the `except` clause does not catch (passes through the funnel)
deriving DecidableEq, Repr

structure Url where
  scheme   : Option Str
  auth     : Option Str
  host     : Option Str
  port     : Option Nat
  path     : Option Str
  query    : Option Str
  fragment : Option Str
deriving DecidableEq, Repr

def Url.empty : Url := ⟨none, none, none, none, none, none, none⟩

/-- membership in one of the generated character sets -/
def mem (cs : List Nat) (c : Nat) : Bool := cs.contains c

/-! ## `_encode_invalid_chars` -/

/-- a string cut into `_PERCENT_RE` matches (leftmost, non-overlapping `%HH`) and single chars -/
inductive Tok
  | chr (c : Nat)
  | esc (a b : Nat)       -- `%ab`, both hex digits
deriving DecidableEq, Repr

/-- do two hex digits follow? -/
def hex2 : Str → Option (Nat × Nat)
  | a :: b :: _ => if isHexC a && isHexC b then some (a, b) else none
  | _ => none

/-- scanner; the first argument is the number of characters still to skip (the two hex digits of
the escape just emitted).  After a `%` that starts no escape the scan resumes at the next char,
exactly like `re`'s leftmost non-overlapping search. -/
def tokAux : Nat → Str → List Tok
  | _, [] => []
  | k + 1, _ :: t => tokAux k t
  | 0, c :: t =>
    if c = 37 then
      match hex2 t with
      | some (a, b) => .esc a b :: tokAux 2 t
      | none => .chr 37 :: tokAux 0 t
    else .chr c :: tokAux 0 t

def tokenize (s : Str) : List Tok := tokAux 0 s

def Tok.text : Tok → Str
  | .chr c => [c]
  | .esc a b => [37, a, b]

def Tok.upper : Tok → Str
  | .chr c => [c]
  | .esc a b => [37, upperC a, upperC b]

def Tok.isEsc : Tok → Bool
  | .esc _ _ => true
  | .chr _ => false

/-- `_PERCENT_RE.subn(lambda m: m.group(0).upper(), component)[0]` -/
def upperEscapes (s : Str) : Str := (tokenize s).flatMap Tok.upper

/-- the second component of `subn`: number of `%HH` matches -/
def countEscapes (s : Str) : Nat := (tokenize s).countP Tok.isEsc

/-- one code point → UTF-8 with `surrogatepass` (surrogates take the ordinary 3-byte form).  Code
points are `< 0x110000` in Python; the `% 8` only keeps every byte `< 256` for numbers that are not
code points at all. -/
def utf8cp (c : Nat) : Bytes :=
  if c < 128 then [c]
  else if c < 2048 then [192 + c / 64, 128 + c % 64]
  else if c < 65536 then [224 + c / 4096, 128 + (c / 64) % 64, 128 + c % 64]
  else [240 + (c / 262144) % 8, 128 + (c / 4096) % 64, 128 + (c / 64) % 64, 128 + c % 64]

def utf8 (s : Str) : Bytes := s.flatMap utf8cp

/-- `b"%" + hex(byte_ord)[2:].encode().zfill(2).upper()` -/
def pctByte (b : Nat) : Str := [37, hexDigitU (b / 16), hexDigitU (b % 16)]

/-- the body of the `for` loop over `uri_bytes` -/
def encByte (allowed : List Nat) (pe : Bool) (b : Nat) : Str :=
  if (pe && b == 37) || (decide (b < 128) && mem allowed b) then [b] else pctByte b

def encodeInvalidChars (allowed : List Nat) (component : Str) : Str :=
  let component' := upperEscapes component
  let percentEncodings := countEscapes component
  let uriBytes := utf8 component'
  let isPercentEncoded := percentEncodings == uriBytes.count 37
  uriBytes.flatMap (encByte allowed isPercentEncoded)

/-! ## `_remove_path_dot_segments` -/

def dot : Str := [46]
def dotdot : Str := [46, 46]

/-- `s.endswith(suf)` -/
def endsWith (s suf : Str) : Bool := isPrefix suf.reverse s.reverse

/-- the `for segment in segments` loop; `output` is kept reversed (a stack) -/
def dotLoop : List Str → List Str → List Str
  | [], out => out
  | seg :: rest, out =>
    if seg = dot then dotLoop rest out
    else if seg ≠ dotdot then dotLoop rest (seg :: out)
    else dotLoop rest out.tail          -- `elif output: output.pop()`

def removeDotSegments (path : Str) : Str :=
  let segments := splitOn1 47 path
  let output := (dotLoop segments []).reverse
  let output :=
    if path.head? = some 47 && (output.isEmpty || output.head? != some []) then [] :: output else output
  let output :=
    if endsWith path [47, 46] || endsWith path [47, 46, 46] then output ++ [[]] else output
  joinWith [47] output

/-! ## The regexes of `parse_url` as hand matchers -/

/-- `[a-zA-Z0-9+-]` (the class of `_SCHEME_RE`, which lacks `.`) -/
def schemeChar1 (c : Nat) : Bool := isAlphaC c || isDigitC c || c == 43 || c == 45
/-- `[a-zA-Z0-9+.-]` (the class of `_URI_RE`) -/
def schemeChar (c : Nat) : Bool := schemeChar1 c || c == 46

/-- `_SCHEME_RE.search(url)`: `^(?:[a-zA-Z][a-zA-Z0-9+-]*:|/)`, anchored (no MULTILINE).  The run
is maximal: a shorter run would have to be followed by `:`, but it is followed by a class char. -/
def schemeRe : Str → Bool
  | [] => false
  | c :: t =>
    if c = 47 then true
    else if isAlphaC c then
      match t.dropWhile schemeChar1 with
      | 58 :: _ => true
      | _ => false
    else false

/-- group 1 of `_URI_RE` and the remainder: the scheme alternative is taken iff the maximal run of
scheme characters is followed by `:` -/
def splitScheme (url : Str) : Option Str × Str :=
  match url with
  | [] => (none, [])
  | c :: t =>
    if isAlphaC c then
      match t.dropWhile schemeChar with
      | 58 :: rest => (some (c :: t.takeWhile schemeChar), rest)
      | _ => (none, url)
    else (none, url)

/-- `[^\\/?#]` -/
def authChar (c : Nat) : Bool := !(c == 92 || c == 47 || c == 63 || c == 35)

/-- group 2: `(?://([^\\/?#]*))?` -/
def splitAuthority (s : Str) : Option Str × Str :=
  match s with
  | 47 :: 47 :: t => (some (t.takeWhile authChar), t.dropWhile authChar)
  | _ => (none, s)

def pathChar (c : Nat) : Bool := !(c == 63 || c == 35)
def queryChar (c : Nat) : Bool := !(c == 35)

/-- groups 3–5: `([^?#]*)(?:\?([^#]*))?(?:#(.*))?$` with DOTALL (greedy always reaches the end) -/
def splitPQF (s : Str) : Str × Option Str × Option Str :=
  let path := s.takeWhile pathChar
  let r := s.dropWhile pathChar
  let (query, r2) :=
    match r with
    | 63 :: t => (some (t.takeWhile queryChar), t.dropWhile queryChar)
    | _ => (none, r)
  let fragment :=
    match r2 with
    | 35 :: t => some t
    | _ => none
  (path, query, fragment)

/-- `s.rpartition(c)` when `c` occurs: (before the last `c`, after it) -/
def rpart (c : Nat) : Str → Option (Str × Str)
  | [] => none
  | x :: t =>
    match rpart c t with
    | some (a, b) => some (x :: a, b)
    | none => if x = c then some ([], t) else none

/-- `auth, _, host_port = s.rpartition("@")`: without `@` the first part is empty -/
def rpartitionAt (s : Str) : Str × Str :=
  match rpart 64 s with
  | some p => p
  | none => ([], s)

/-- `[^\[\]%:/?#]` (a `%` is only admitted as part of `%HH`) -/
def regNameChar (c : Nat) : Bool :=
  !(c == 91 || c == 93 || c == 37 || c == 58 || c == 47 || c == 63 || c == 35)

def regNameTok : Tok → Bool
  | .esc _ _ => true
  | .chr c => regNameChar c

/-- remove one trailing `"\n"` (Python's `$` also matches just before a final newline); still needed
for `_IPV4_RE` and `_TARGET_RE`, which end in `$` — `_HOST_PORT_RE` and `_IPV6_ADDRZ_RE` end in `\Z` -/
def stripNl (s : Str) : Str := if s.getLast? = some 10 then s.dropLast else s

def decNat (ds : Str) : Nat := ds.foldl (fun n d => n * 10 + (d - 48)) 0

/-- `0*?(|0|[1-9][0-9]{0,4})` against the whole of `body` (lazy zeros, alternatives in order) -/
def portCapture (body : Str) : Option Str :=
  let d := body.dropWhile (· == 48)
  if d.isEmpty then (if body.isEmpty then some [] else some [48])
  else if d.all isDigitC && d.length ≤ 5 then some d else none

/-- `(?::0*?(|0|[1-9][0-9]{0,4}))?\Z`: `none` no match; `some none` group absent.  `\Z` is the very
end of the text (no final newline is tolerated) -/
def portPart (r : Str) : Option (Option Str) :=
  match r with
  | [] => some none
  | 58 :: b => (portCapture b).map some
  | _ => none

def isH16 (p : Str) : Bool := 1 ≤ p.length && p.length ≤ 4 && p.all isHexC
def isDec13 (p : Str) : Bool := 1 ≤ p.length && p.length ≤ 3 && p.all isDigitC

/-- `_IPV4_PAT` against the whole string: `(?:[0-9]{1,3}\.){3}[0-9]{1,3}` (no range check) -/
def isIPv4 (p : Str) : Bool :=
  match splitOn1 46 p with
  | [a, b, c, d] => isDec13 a && isDec13 b && isDec13 c && isDec13 d
  | _ => false

/-- first occurrence of `"::"`: (before, after) -/
def findDoubleColon : Str → Option (Str × Str)
  | [] => none
  | [_] => none
  | a :: b :: t =>
    if a = 58 && b = 58 then some ([], t)
    else match findDoubleColon (b :: t) with
      | some (x, y) => some (a :: x, y)
      | none => none

/-- number of 16-bit groups of a `:`-separated list of `h16`, the last of which may be a dotted
quad (two groups) when `v4` is allowed; `none` when malformed.  Empty text = 0 groups. -/
def countGroups (v4 : Bool) (s : Str) : Option Nat :=
  if s.isEmpty then some 0 else
  let ps := splitOn1 58 s
  if ps.all isH16 then some ps.length
  else if v4 && ps.dropLast.all isH16 && (match ps.getLast? with | some l => isIPv4 l | none => false)
  then some (ps.length + 1) else none

/-- `_IPV6_PAT` (the nine RFC 3986 variants) against the whole string: without `::` exactly 8
groups; with `::` (b groups before, a after) `a + b ≤ 7`; a dotted quad only as the last element
after at least … see DESIGN App. D.  Variant 8 (`::h16`) admits no dotted quad, but a dotted quad
already counts two groups, so "a = 1" can never be a quad. -/
def isIPv6 (addr : Str) : Bool :=
  match findDoubleColon addr with
  | none => countGroups true addr == some 8 && !addr.isEmpty
  | some (bef, aft) =>
    match countGroups false bef, countGroups true aft with
    | some b, some a => b + a ≤ 7
    | _, _ => false

def zoneTok : Tok → Bool
  | .esc _ _ => true
  | .chr c => mem Gen.unreservedChars c

/-- `_ZONE_ID_PAT` against the whole string: `(?:%25|%)(?:[unreserved]|%HH)+`; since `2`,`5` are
unreserved the language is `%` followed by one or more tokens -/
def isZone : Str → Bool
  | 37 :: z => !z.isEmpty && (tokenize z).all zoneTok
  | _ => false

/-- the text between `[` and `]`: `_IPV6_PAT (?:_ZONE_ID_PAT)?`; the address alphabet has no `%` -/
def bracketOk (c : Str) : Bool :=
  let addr := c.takeWhile (· != 37)
  let zone := c.dropWhile (· != 37)
  isIPv6 addr && (zone.isEmpty || isZone zone)

/-- alternative 3 of `_HOST_PORT_RE`: `[` … first `]`, then the port part -/
def hostPortBracket : Str → Option (Str × Option Str)
  | 91 :: t =>
    let c := t.takeWhile (· != 93)
    match t.dropWhile (· != 93) with
    | 93 :: rest' =>
      if bracketOk c then (portPart rest').map (fun p => (91 :: c ++ [93], p)) else none
    | _ => none
  | _ => none

/-- `_HOST_PORT_RE.match(s).groups()`; `none` = no match.  Alternative 1 takes the maximal run of
reg-name tokens (a shorter run leaves a reg-name token in front of the port part, which then cannot
match); alternative 2 (IPv4) is subsumed by 1; alternative 3 is `[` … first `]`. -/
def hostPortRe (hp : Str) : Option (Str × Option Str) :=
  let toks := tokenize hp
  let r := (toks.takeWhile regNameTok).flatMap Tok.text
  let rest := (toks.dropWhile regNameTok).flatMap Tok.text
  match portPart rest with
  | some p => some (r, p)
  | none => hostPortBracket hp

/-! ## `_normalize_host` -/

/-- `_IPV6_ADDRZ_RE.match(host)`: `^\[…\]\Z` (the whole text) -/
def ipv6AddrzMatch (host : Str) : Bool :=
  match host with
  | 91 :: t => t.getLast? = some 93 && !(t.dropLast.contains 93) && bracketOk t.dropLast
  | _ => false

/-- `_IPV4_RE.match(host)` (ends in `$`: one final newline is tolerated) -/
def ipv4Match (host : Str) : Bool := isIPv4 (stripNl host)

def pct25 : Str := [37, 50, 53]

/-- `_idna_encode` followed by the ASCII decode of the joined result -/
def idnaEncode (idna : Str → Option Str) (label : Str) : Except Exc Str :=
  if label.all (· < 128) then .ok (lower label)
  else match idna label with
    | some r => .ok r
    | none => .error .locationParseError

def normalizeHost (idna : Str → Option Str) (host : Option Str) (scheme : Option Str) :
    Except Exc (Option Str) :=
  match host with
  | none => .ok none
  | some h =>
    if h.isEmpty then .ok (some h)
    else if Gen.normalizableSchemes.contains scheme then
      if ipv6AddrzMatch h then
        -- `_ZONE_ID_RE.search(host)`: leftmost start is the first `%`, group 1 ends before `]`
        let pre := h.takeWhile (· != 37)
        let r := h.dropWhile (· != 37)
        if r.isEmpty then .ok (some (lower h))
        else
          let zone := r.takeWhile (· != 93)
          let tail := r.dropWhile (· != 93)
          let zoneId := if isPrefix pct25 zone && zone != pct25 then zone.drop 3 else zone.drop 1
          .ok (some (lower pre ++ [37] ++ encodeInvalidChars Gen.unreservedChars zoneId ++ tail))
      else if ipv4Match h then .ok (some h)
      else do
        let labels ← (splitOn1 46 h).mapM (idnaEncode idna)
        .ok (some (joinWith [46] labels))
    else .ok (some h)

/-! ## `Url.__new__`, properties -/

/-- `Url.__new__`: a non-empty relative path gets a leading `/`; the scheme is lower-cased -/
def mkUrl (scheme auth host : Option Str) (port : Option Nat) (path query fragment : Option Str) : Url :=
  let path := match path with
    | some p => if !p.isEmpty && p.head? != some 47 then some (47 :: p) else some p
    | none => none
  ⟨scheme.map lower, auth, host, port, path, query, fragment⟩

def decDigits : Nat → Nat → Str → Str
  | 0, _, acc => acc
  | f + 1, n, acc =>
    let acc' := (48 + n % 10) :: acc
    if n / 10 = 0 then acc' else decDigits f (n / 10) acc'

/-- `str(n)` -/
def natToDec (n : Nat) : Str := decDigits (n + 1) n []

/-- `Url.url` -/
def Url.render (u : Url) : Str :=
  (match u.scheme with | some s => s ++ [58, 47, 47] | none => []) ++
  (match u.auth with | some a => a ++ [64] | none => []) ++
  (match u.host with | some h => h | none => []) ++
  (match u.port with | some p => 58 :: natToDec p | none => []) ++
  (match u.path with | some p => p | none => []) ++
  (match u.query with | some q => 63 :: q | none => []) ++
  (match u.fragment with | some f => 35 :: f | none => [])

/-- `Url.request_uri` -/
def Url.requestUri (u : Url) : Str :=
  (match u.path with | some p => if p.isEmpty then [47] else p | none => [47]) ++
  (match u.query with | some q => 63 :: q | none => [])

/-- `Url.netloc` (`if self.port:` — port 0 is dropped) -/
def Url.netloc (u : Url) : Option Str :=
  match u.host with
  | none => none
  | some h =>
    match u.port with
    | some p => if p ≠ 0 then some (h ++ 58 :: natToDec p) else some h
    | none => some h

/-- `Url.authority` -/
def Url.authority (u : Url) : Option Str :=
  match u.netloc, u.auth with
  | some n, some a => some (a ++ 64 :: n)
  | n, _ => n

/-! ## `parse_url` -/

/-- `normalize_uri = scheme is None or scheme.lower() in _NORMALIZABLE_SCHEMES` -/
def normalizeUriOf (scheme0 : Option Str) : Bool :=
  match scheme0 with
  | none => true
  | some s => Gen.normalizableSchemes.contains (some (lower s))

/-- the `if authority: … else: auth, host, port = None, None, None` block: (auth, host, port) -/
def parseAuthority (normalizeUri : Bool) (authority : Option Str) :
    Except Exc (Option Str × Option Str × Option Str) :=
  match authority with
  | none => .ok (none, none, none)
  | some a =>
    if a.isEmpty then .ok (none, none, none) else
    -- `auth, _, host_port = authority.rpartition("@")`
    let au := (rpartitionAt a).1
    let hp := (rpartitionAt a).2
    match hostPortRe hp with
    | none => .error .attributeError            -- `None.groups()`
    | some (h, p) =>
      -- `auth = auth or None`; `if auth and normalize_uri: auth = _encode_invalid_chars(...)`
      let auth := if au.isEmpty then none
        else some (if normalizeUri then encodeInvalidChars Gen.userinfoChars au else au)
      -- `if port == "": port = None`
      let port := match p with
        | some d => if d.isEmpty then none else some d
        | none => none
      -- `if auth is None and port is None: host = host or None` (an authority made of delimiters
      -- only, `"//:"` / `"//@"`, is reported like the empty authority)
      let host := if auth.isNone && port.isNone && h.isEmpty then none else some h
      .ok (auth, host, port)

/-- `int(port)` and the range check -/
def portToInt (port : Option Str) : Except Exc (Option Nat) :=
  match port with
  | some d => if decNat d ≤ 65535 then .ok (some (decNat d)) else .error .locationParseError
  | none => .ok none

/-- `if normalize_uri and path: path = _encode_invalid_chars(_remove_path_dot_segments(path), _PATH_CHARS)` -/
def normPath (normalizeUri : Bool) (path : Str) : Str :=
  if normalizeUri && !path.isEmpty
  then encodeInvalidChars Gen.pathChars (removeDotSegments path) else path

/-- `if normalize_uri and query: query = _encode_invalid_chars(query, chars)` (also the fragment) -/
def normOpt (normalizeUri : Bool) (allowed : List Nat) (q : Option Str) : Option Str :=
  match q with
  | some q => if normalizeUri && !q.isEmpty then some (encodeInvalidChars allowed q) else some q
  | none => none

/-- the body of the `try:` block: returns scheme, auth, host, port, path, query, fragment -/
def parseCore (idna : Str → Option Str) (url0 : Str) :
    Except Exc (Option Str × Option Str × Option Str × Option Nat × Str × Option Str × Option Str) :=
  -- `if not _SCHEME_RE.search(url): url = "//" + url`
  let url := if schemeRe url0 then url0 else 47 :: 47 :: url0
  -- `_URI_RE.match(url).groups()`
  let sp := splitScheme url
  let sa := splitAuthority sp.2
  let pqf := splitPQF sa.2
  let normalizeUri := normalizeUriOf sp.1
  -- `if scheme: scheme = scheme.lower()` (a matched scheme is never empty)
  let scheme := sp.1.map lower
  parseAuthority normalizeUri sa.1 >>= fun ahp =>
  portToInt ahp.2.2 >>= fun portInt =>
  normalizeHost idna ahp.2.1 scheme >>= fun host =>
  pure (scheme, ahp.1, host, portInt, normPath normalizeUri pqf.1,
    normOpt normalizeUri Gen.queryChars pqf.2.1, normOpt normalizeUri Gen.fragmentChars pqf.2.2)

/-- `except (ValueError, AttributeError) as e: raise LocationParseError(source_url) from e`
(`LocationParseError` is itself a `ValueError`) -/
def funnel {α : Type} : Except Exc α → Except Exc α
  | .ok a => .ok a
  | .error .attributeError => .error .locationParseError
  | .error .valueError => .error .locationParseError
  | .error .locationParseError => .error .locationParseError
  | .error .other => .error .other

def parseUrlWith (idna : Str → Option Str) (url : Str) : Except Exc Url :=
  if url.isEmpty then .ok Url.empty else
  match funnel (parseCore idna url) with
  | .error e => .error e
  | .ok (scheme, auth, host, port, path, query, fragment) =>
    let path := if path.isEmpty then (if query.isSome || fragment.isSome then some [] else none) else some path
    .ok (mkUrl scheme auth host port path query fragment)

/-- `parse_url` for inputs whose host labels are ASCII (every IDNA query fails) -/
def parseUrl (url : Str) : Except Exc Url := parseUrlWith (fun _ => none) url

/-! ## `_encode_target` -/

/-- `_TARGET_RE`: `^(/[^?#]*)(?:\?([^#]*))?(?:#.*)?$` — no DOTALL, so the fragment may contain a
newline only as its very last character -/
def encodeTarget (target : Str) : Except Exc Str :=
  match target with
  | 47 :: _ =>
    let (path, query, fragment) := splitPQF target
    let fragOk := match fragment with
      | some f => !(stripNl f).contains 10
      | none => true
    if fragOk then
      .ok (encodeInvalidChars Gen.pathChars path ++
        (match query with | some q => 63 :: encodeInvalidChars Gen.queryChars q | none => []))
    else .error .locationParseError
  | _ => .error .locationParseError

/-! ## An independent RFC 3986 §3.2 reading of the authority -/

structure RefAuth where
  userinfo : Option Str     -- text before the last `@`
  host     : Str            -- IP-literal up to `]`, else up to the first `:`
  port     : Option Str     -- text after the `:` that follows the host
  wellFormed : Bool         -- `false`: an IP-literal without `]` or with junk after it
deriving DecidableEq, Repr

/-- RFC 3986 §3.1 scheme: `ALPHA *( ALPHA / DIGIT / "+" / "-" / "." ) ":"`; returns the rest -/
def refSchemeRest : Str → Option Str
  | [] => none
  | c :: t =>
    if isAlphaC c then
      match t.dropWhile schemeChar with
      | 58 :: rest => some rest
      | _ => none
    else none

/-- the RFC 3986 scheme of a URI reference, when it has one -/
def refScheme : Str → Option Str
  | [] => none
  | c :: t =>
    if isAlphaC c then
      match t.dropWhile schemeChar with
      | 58 :: _ => some (c :: t.takeWhile schemeChar)
      | _ => none
    else none

/-- `host [ ":" port ]`: (host text, port text, well-formed).  An IP-literal runs to the first `]`
and must be followed by nothing or `:port`; any other host runs to the first `:` -/
def refHostPort (hp : Str) : Str × Option Str × Bool :=
  match hp with
  | 91 :: t' =>
    let c := t'.takeWhile (· != 93)
    match t'.dropWhile (· != 93) with
    | 93 :: rest =>
      match rest with
      | [] => (91 :: c ++ [93], none, true)
      | 58 :: p => (91 :: c ++ [93], some p, true)
      | _ => (91 :: c ++ [93], none, false)
    | _ => (hp, none, false)
  | _ =>
    match hp.dropWhile (· != 58) with
    | 58 :: p => (hp.takeWhile (· != 58), some p, true)
    | _ => (hp.takeWhile (· != 58), none, true)

/-- the reading of an authority text: userinfo is what precedes the last `@` -/
def refAuthOfText (a : Str) : RefAuth :=
  let ui := (rpart 64 a).map (·.1)
  let hp := (rpartitionAt a).2
  ⟨ui, (refHostPort hp).1, (refHostPort hp).2.1, (refHostPort hp).2.2⟩

/-- the authority component of a hier-part / relative-ref that starts with `//`: it ends at the
first `/`, `?`, `#` or backslash -/
def refAuthOfHier : Str → Option RefAuth
  | 47 :: 47 :: t => some (refAuthOfText (t.takeWhile authChar))
  | _ => none

/-- numeric value of the reference port text (`none` for an absent or empty port) -/
def refPortValue : Option Str → Option Nat
  | none => none
  | some p => if p.isEmpty then none else some (decNat p)

/-- normalised reference userinfo: empty = absent; percent-encoded when the URI is normalised -/
def refAuthValue (normalize : Bool) : Option Str → Option Str
  | none => none
  | some ui =>
    if ui.isEmpty then none
    else some (if normalize then encodeInvalidChars Gen.userinfoChars ui else ui)

/-- the reading of a whole URI reference: optional scheme, then `//authority` -/
def refAuthority (s : Str) : Option RefAuth :=
  match refSchemeRest s with
  | some rest => refAuthOfHier rest
  | none => refAuthOfHier s

end U3.Url
