/-!
# Model of `urllib3._collections.RecentlyUsedContainer` and of the `PoolManager` pool cache (C17)

* `U3.Lru.C` / `step`: the container, one transition per public method, transcribed from
  `_collections.py:63-153`.  `items` is the `OrderedDict` (oldest first).  Every transition returns
  the values handed to `dispose_func` *after* the lock was released, in call order.
* `U3.Conc`: a small-step interleaving semantics, generic in the locked body
  (`stepf : S → O → S × R × List Val`): every operation of a thread is
  `acquire ; body+release ; dispose v₁ ; … ; dispose vₙ`, a configuration is thread states + shared
  state + lock owner + dispose log (+ the ghost lock-acquisition history).
* `U3.Mgr`: `PoolManager.connection_from_pool_key` (get-or-create as *one* locked body on the
  re-entrant lock), `clear`, plus a reference-reachability abstraction of pools (cached ∨ referenced
  by a caller / in-flight response) with the `weakref.finalize` callback as the `gc` event.

Import-free (the driver links it).
-/
namespace U3.Lru

abbrev Key := Nat
abbrev Val := Nat
abbrev Items := List (Key × Val)

/-- `OrderedDict.pop(key)`: the value and the remaining items, `none` = `KeyError` -/
def pop : Items → Key → Option (Val × Items)
  | [], _ => none
  | (k', v) :: t, k =>
    if k' = k then some (v, t)
    else match pop t k with
      | some (w, r) => some (w, (k', v) :: r)
      | none => none

structure C where
  cap : Nat            -- `_maxsize`
  items : Items        -- `_container`, oldest first
deriving Repr, DecidableEq

def new (cap : Nat) : C := { cap := cap, items := [] }

inductive Op where
  | get (k : Key)            -- `c[k]`
  | set (k : Key) (v : Val)  -- `c[k] = v`
  | del (k : Key)            -- `del c[k]`
  | clear                    -- `c.clear()`
  | len                      -- `len(c)`
  | keys                     -- `c.keys()`
  | has (k : Key)            -- `k in c`   (Mapping.__contains__: try self[k] except KeyError)
  | mget (k : Key)           -- `c.get(k)` (Mapping.get: try self[k] except KeyError → None)
deriving Repr, DecidableEq

inductive Out where
  | val (v : Val) | keyError | unit | num (n : Nat) | ks (l : List Key) | bool (b : Bool) | none_
deriving Repr, DecidableEq

/-- `__getitem__`: pop and re-insert at the end; shared by `get`, `has`, `mget` -/
def touch (c : C) (k : Key) : Option (Val × C) :=
  match pop c.items k with
  | some (v, rest) => some (v, { c with items := rest ++ [(k, v)] })
  | none => none

/-- one public method call: (new state, result, values passed to `dispose_func` after the lock was
released, in call order) -/
def step (c : C) : Op → C × Out × List Val
  | .get k => match touch c k with
    | some (v, c') => (c', .val v, [])
    | none => (c, .keyError, [])
  | .has k => match touch c k with
    | some (_, c') => (c', .bool true, [])
    | none => (c, .bool false, [])
  | .mget k => match touch c k with
    | some (v, c') => (c', .val v, [])
    | none => (c, .none_, [])
  | .set k v => match pop c.items k with
    | some (old, rest) =>                       -- try: evicted_item = key, pop(key); container[key] = value
      ({ c with items := rest ++ [(k, v)] }, .unit, [old])
    | none =>                                   -- except KeyError: insert first, then evict
      let items := c.items ++ [(k, v)]
      if items.length > c.cap then
        match items with
        | [] => ({ c with items := [] }, .keyError, [])      -- popitem() on an empty dict (never: `set_popitem_total`)
        | (_, ev) :: rest => ({ c with items := rest }, .unit, [ev])
      else ({ c with items := items }, .unit, [])
  | .del k => match pop c.items k with
    | some (v, rest) => ({ c with items := rest }, .unit, [v])
    | none => (c, .keyError, [])
  | .clear => ({ c with items := [] }, .unit, c.items.map (·.2))
  | .len => (c, .num c.items.length, [])
  | .keys => (c, .ks (c.items.map (·.1)), [])

structure Run where
  c : C
  outs : List Out
  disposed : List Val
deriving Repr, DecidableEq

/-- sequential execution of an op list -/
def run (c : C) : List Op → Run
  | [] => { c := c, outs := [], disposed := [] }
  | op :: ops =>
    let r := step c op
    let t := run r.1 ops
    { c := t.c, outs := r.2.1 :: t.outs, disposed := r.2.2 ++ t.disposed }

/-- values ever inserted by an op list -/
def inserted : List Op → List Val
  | [] => []
  | .set _ v :: ops => v :: inserted ops
  | _ :: ops => inserted ops

/-! ### the timestamp specification of "least recently used" (independent of the list order) -/

/-- the key an operation *touches* (a hit of `get`/`in`/`.get()` and every `set` refresh recency) -/
def touches : Op → Option Key
  | .get k | .has k | .mget k | .set k _ => some k
  | _ => none

structure Stamps where
  clock : Nat
  last : Key → Nat       -- time of the last touch of a key

def Stamps.init : Stamps := { clock := 0, last := fun _ => 0 }

def stampStep (s : Stamps) (op : Op) : Stamps :=
  { clock := s.clock + 1,
    last := match touches op with
      | some k => fun k' => if k' = k then s.clock else s.last k'
      | none => s.last }

def stamps (s : Stamps) (ops : List Op) : Stamps := ops.foldl stampStep s

end U3.Lru

/-! ## Interleaving semantics -/
namespace U3.Conc
open U3.Lru (Val)

inductive Phase where
  | idle      -- not holding the lock
  | locked    -- lock acquired, body of the head operation not yet executed
deriving Repr, DecidableEq

structure Thread (O R : Type) where
  todo : List O            -- remaining program
  phase : Phase
  pend : List Val          -- values still to be passed to dispose_func by the current operation
  results : List R         -- results of the completed bodies, in program order

structure Cfg (S O R : Type) where
  st : S
  threads : List (Thread O R)
  owner : Option Nat                 -- thread holding the lock
  log : List (Nat × Val)             -- dispose calls (thread, value), in global order
  hist : List (Nat × O)              -- ghost: bodies in lock-acquisition order

def Thread.init {O R : Type} (prog : List O) : Thread O R :=
  { todo := prog, phase := .idle, pend := [], results := [] }

def Cfg.init {S O R : Type} (s : S) (progs : List (List O)) : Cfg S O R :=
  { st := s, threads := progs.map Thread.init, owner := none, log := [], hist := [] }

/-- what thread `i` would do if scheduled now -/
inductive Action where
  | dispose | body | acquire | blocked | finished | noThread
deriving Repr, DecidableEq

def action {S O R : Type} (cfg : Cfg S O R) (i : Nat) : Action :=
  match cfg.threads[i]? with
  | none => .noThread
  | some t =>
    match t.pend with
    | _ :: _ => .dispose
    | [] =>
      match t.phase with
      | .locked => .body
      | .idle =>
        match t.todo with
        | [] => .finished
        | _ :: _ => if cfg.owner.isNone then .acquire else .blocked

/-- one scheduling step of thread `i` (a disabled / unknown thread stutters) -/
def tstep {S O R : Type} (stepf : S → O → S × R × List Val) (cfg : Cfg S O R) (i : Nat) : Cfg S O R :=
  match cfg.threads[i]? with
  | none => cfg
  | some t =>
    match t.pend with
    | v :: rest =>                                   -- dispose_func(v), outside the lock
      { cfg with threads := cfg.threads.set i { t with pend := rest }, log := cfg.log ++ [(i, v)] }
    | [] =>
      match t.phase with
      | .locked =>                                   -- body, then release
        match t.todo with
        | [] => { cfg with threads := cfg.threads.set i { t with phase := .idle }, owner := none }
        | op :: rest =>
          let r := stepf cfg.st op
          { cfg with st := r.1,
                     threads := cfg.threads.set i
                       { todo := rest, phase := .idle, pend := r.2.2, results := t.results ++ [r.2.1] },
                     owner := none,
                     hist := cfg.hist ++ [(i, op)] }
      | .idle =>
        match t.todo with
        | [] => cfg                                  -- finished
        | _ :: _ =>
          if cfg.owner.isNone then                   -- `with self.lock:` — acquire
            { cfg with threads := cfg.threads.set i { t with phase := .locked }, owner := some i }
          else cfg                                   -- blocked on the lock

def exec {S O R : Type} (stepf : S → O → S × R × List Val) (cfg : Cfg S O R) (σ : List Nat) : Cfg S O R :=
  σ.foldl (tstep stepf) cfg

/-- every thread ran to completion -/
def Cfg.done {S O R : Type} (cfg : Cfg S O R) : Bool :=
  cfg.threads.all fun t => t.todo.isEmpty && t.pend.isEmpty && t.phase == .idle

/-- the sequential execution the concurrent one is compared with: bodies in lock order, per-thread
result lists, dispose values in body order -/
structure Seq (S R : Type) where
  st : S
  results : List (List R)
  disposed : List Val

def seqStep {S O R : Type} (stepf : S → O → S × R × List Val) (q : Seq S R) (e : Nat × O) : Seq S R :=
  let r := stepf q.st e.2
  { st := r.1,
    results := q.results.set e.1 ((q.results[e.1]?).getD [] ++ [r.2.1]),
    disposed := q.disposed ++ r.2.2 }

def Seq.init {S R : Type} (s : S) (n : Nat) : Seq S R := { st := s, results := List.replicate n [], disposed := [] }

def seqRun {S O R : Type} (stepf : S → O → S × R × List Val) (s : S) (n : Nat) (h : List (Nat × O)) : Seq S R :=
  h.foldl (seqStep stepf) (Seq.init s n)

/-- the history generated by choosing threads in the order `τ` (a thread with nothing left is skipped) -/
def histOf {O : Type} : List (List O) → List Nat → List (Nat × O)
  | _, [] => []
  | progs, i :: τ =>
    match progs[i]? with
    | some (op :: rest) => (i, op) :: histOf (progs.set i rest) τ
    | _ => histOf progs τ

/-- what remains of the programs after `τ` -/
def restOf {O : Type} : List (List O) → List Nat → List (List O)
  | progs, [] => progs
  | progs, i :: τ =>
    match progs[i]? with
    | some (_ :: rest) => restOf (progs.set i rest) τ
    | _ => restOf progs τ

/-- all lists of length `n` over `0 … k-1` -/
def allOrders (k : Nat) : Nat → List (List Nat)
  | 0 => [[]]
  | n + 1 => (allOrders k n).flatMap fun τ => (List.range k).map fun i => i :: τ

/-- all complete lock orders of the programs -/
def lockOrders {O : Type} (progs : List (List O)) : List (List Nat) :=
  (allOrders progs.length (progs.map List.length).sum).filter fun τ => (restOf progs τ).all List.isEmpty

end U3.Conc

/-! ## The PoolManager pool cache -/
namespace U3.Mgr
open U3.Lru

abbrev PoolId := Nat

structure M where
  cache : C                 -- `self.pools` (pool key ↦ pool id); created WITHOUT a dispose_func
  next : PoolId             -- ids of pools are allocated in creation order
  refs : List PoolId        -- pools referenced from outside the cache (callers, in-flight responses)
  dropped : List PoolId     -- pools that left the cache (evicted / cleared)
  closed : List PoolId      -- pools whose finalizer ran (all pooled sockets closed)
deriving Repr, DecidableEq

def M.new (cap : Nat) : M := { cache := Lru.new cap, next := 0, refs := [], dropped := [], closed := [] }

inductive MOp where
  | goc (k : Key)           -- `connection_from_pool_key(k)`; the caller keeps the returned pool
  | clear                   -- `PoolManager.clear()`
  | release (p : PoolId)    -- the caller / the response drops its reference to pool `p`
  | gc                      -- reference counting / `gc.collect()`: finalizers of unreachable pools run
  | len
deriving Repr, DecidableEq

inductive MOut where
  | pool (p : PoolId) (fresh : Bool) | unit | num (n : Nat) | closedNow (l : List PoolId) | error
deriving Repr, DecidableEq

def cached (m : M) : List PoolId := m.cache.items.map (·.2)

/-- `connection_from_pool_key` — `with self.pools.lock:` pool = self.pools.get(key); if pool: return
pool; pool = self._new_pool(...); self.pools[key] = pool -/
def stepM (m : M) : MOp → M × MOut × List Val
  | .goc k =>
    match Lru.step m.cache (.mget k) with
    | (c', .val p, _) => ({ m with cache := c', refs := p :: m.refs }, .pool p false, [])
    | (c', _, _) =>
      let p := m.next
      let r := Lru.step c' (.set k p)
      ({ m with cache := r.1, next := p + 1, refs := p :: m.refs, dropped := m.dropped ++ r.2.2 },
       (match r.2.1 with | .unit => .pool p true | _ => .error), [])
  | .clear =>
    let r := Lru.step m.cache .clear
    ({ m with cache := r.1, dropped := m.dropped ++ r.2.2 }, .unit, [])
  | .release p => ({ m with refs := m.refs.erase p }, .unit, [])
  | .gc =>
    let dead := m.dropped.filter fun p => !m.refs.contains p && !m.closed.contains p
    ({ m with closed := m.closed ++ dead }, .closedNow dead, [])
  | .len => (m, .num m.cache.items.length, [])

def runM (m : M) : List MOp → M
  | [] => m
  | op :: ops => runM (stepM m op).1 ops

/-- `k` is in the cache after every one of the operations -/
def StaysCached (k : Key) : M → List MOp → Prop
  | _, [] => True
  | m, op :: ops => (pop (stepM m op).1.cache.items k).isSome ∧ StaysCached k (stepM m op).1 ops

end U3.Mgr
