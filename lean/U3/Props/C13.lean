import U3.Lemmas.Resp
import U3.Lemmas.RespIO
import U3.Lemmas.RespWitness
/-!
# C13 — a cut-off or corrupt response is never presented as complete

Proved for all inputs / segmentations: a `_safe_read` past the end of the received bytes raises
(the core of every truncation case); `read()` / preload on a body shorter than its Content-Length
raises `ProtocolError` and closes the connection; a chunk-size line that `int(x, 16)` rejects (or
EOF where a line should start) raises `ProtocolError` and closes; decoder errors become
`DecodeError`; an unfinished zstd frame fails `flush`; `_error_catcher` closes and releases the
connection on every unclean exit.

The `read1()` defect (a short Content-Length body ended silently) is repaired in the code:
`C13_eof_before_length_raises` is the general statement, `C13_read1_none_raises` the former negation
witness turned positive.  `C13_truncated_raises` at full strength ("for every call sequence") is
still **false** of the code as it is for truncated zstd streams; the `…_silent` theorems are
kernel-evaluated counter-examples (read(n) on a truncated zstd stream; MultiDecoder.flush).

  -- full statement (refuted by C13_zstd_incomplete_read_n_silent):
  -- theorem C13_truncated_raises (ht : ¬ lenientComplete w) : ∀ calls, endSignalled (runCalls d w calls) → False
-/
namespace U3.Props
open U3 U3.Resp U3.Resp.Witness

/-- reading `amt` bytes that the framing promises but the peer never sent raises IncompleteRead,
for every segmentation (this is `_safe_read`, used for Content-Length bodies, chunk data and the
CRLF after a chunk by both `http.client` and `read_chunked`) -/
theorem C13_truncated_raises_safe_read (h : H) (f : Fp) (amt : Nat) (hf : h.fp = some f)
    (hlen : f.content.length < amt) : (hSafeRead h amt).1 = .error .incompleteRead := by
  obtain ⟨f', he, _⟩ := hSafeRead_short h f amt hf hlen
  rw [he]

/-- `read()` (and therefore preload / `.data`) on a body shorter than its Content-Length raises
ProtocolError, closes the http.client response and the connection, and releases it -/
theorem C13_truncated_raises_content_length {δ : Type} (D : Dec δ) (cfg : Cfg δ) (r : R H δ)
    (f : Fp) (l : Nat) (dco : Option Bool) (cache : Bool)
    (hf : r.fp.fp = some f) (hcl : r.fp.closed = false) (hh : r.fp.head = false)
    (hc : r.fp.chunked = false) (hl : r.fp.length = some l) (hlen : f.content.length < l)
    (hb : r.buf = []) (hconn : r.conn = true) :
    let res := read hSrc D cfg r none dco cache
    res.1 = .error .protocolError ∧ res.2.connClosed = true ∧ res.2.released = true ∧
    res.2.fp.isclosed = true := by
  have h1 := hRead_length_short r.fp f l hf hh hc hl hlen
  have hb0 : bqLen r.buf = 0 := by rw [hb]; rfl
  generalize hres : hRead r.fp none = res0 at h1
  obtain ⟨e, h'⟩ := res0
  simp only at h1
  obtain ⟨rfl, h2⟩ := h1
  intro res
  have : res = read hSrc D cfg r none dco cache := rfl
  rw [this]
  unfold U3.Resp.read
  cases hd : r.decoder <;>
    simp [initDec, hd, rawRead, hSrc, hcl, hres, errorCatcher, mapExc, releaseConn, H.close, H.isclosed, hconn]

/-- preload is `read(decode_content=…)` in the constructor: same theorem -/
theorem C13_preload_raises {δ : Type} (D : Dec δ) (cfg : Cfg δ) (r : R H δ) (f : Fp) (l : Nat) (dc : Bool)
    (hf : r.fp.fp = some f) (hcl : r.fp.closed = false) (hh : r.fp.head = false)
    (hc : r.fp.chunked = false) (hl : r.fp.length = some l) (hlen : f.content.length < l)
    (hb : r.buf = []) (hconn : r.conn = true) :
    (read hSrc D cfg r none (some dc)).1 = .error .protocolError :=
  (C13_truncated_raises_content_length D cfg r f l (some dc) false hf hcl hh hc hl hlen hb hconn).1

example : (respOf wireShortCL 0 (some (lit "5")) false (some 5)).fp.length = some 5 ∧
    (respOf wireShortCL 0 (some (lit "5")) false (some 5)).fp.fp.map (·.content) = some (lit "ab") := by
  decide +kernel

/-- `_update_chunk_length`: a size line that `int(line, 16)` rejects raises (InvalidChunkLength →)
ProtocolError, and EOF where a size line should start raises ProtocolError("Response ended
prematurely"); in both cases the response and the connection are closed first -/
theorem C13_bad_chunk_raises {δ : Type} (r : R H δ) (f : Fp) (hf : r.fp.fp = some f)
    (hl : r.chunkLeft = none) (hbad : parseSize (cutExt (lineOf f.content)) = .valueError) (hconn : r.conn = true) :
    let res := updateChunkLength hSrc r
    (∃ e, res.1 = .error e ∧ mapExc e = .protocolError) ∧ res.2.connClosed = true ∧
    res.2.fp.isclosed = true := by
  have h1 := hFpReadline_eq r.fp f hf
  simp only [updateChunkLength, hl, hSrc, h1, hbad, closeResp]
  by_cases hne : (cutExt (lineOf f.content)).isEmpty
  · simp [hne, mapExc, H.isclosed, H.close, hconn]
  · simp [hne, mapExc, H.isclosed, H.close, hconn]

example : parseSize (cutExt (lineOf (lit "zz\r\nabc"))) = .valueError ∧
    parseSize (cutExt (lineOf [])) = .valueError := by decide

/-- a decoder error inside `_decode` is raised as DecodeError -/
theorem C13_undecodable_raises {σ δ : Type} (D : Dec δ) (r : R σ δ) (d d' : δ) (data : Bytes) (fl : Bool)
    (hd : r.decoder = some d) (he : D.decompress d data = (.error .decodeError, d')) :
    (decode D r data true fl).1 = .error .decodeError := by
  simp [decode, hd, he, excOfDecompress]

/-- zstd: flushing a decoder whose current frame is unfinished is a DecodeError -/
theorem C13_zstd_incomplete_flush_raises {ρ : Type} (O : RawObj ρ) (z : ZObj ρ) (h : O.eof z.st = false) :
    (zsFlush O z).1 = .error .decodeError := by
  simp [zsFlush, h]

/-- `_error_catcher`: every unclean exit closes the original response and the connection, and the
connection is given back to the pool (closed, to be re-opened on a fresh socket) -/
theorem C13_error_closes_connection {δ α : Type} (r : R H δ) (e : RawExc) (hconn : r.conn = true) :
    let res := errorCatcher (α := α) hSrc r (.error e)
    res.1 = .error (mapExc e) ∧ res.2.connClosed = true ∧ res.2.released = true ∧
    res.2.conn = false ∧ res.2.fp.isclosed = true ∧ res.2.fp.closed = true := by
  simp [errorCatcher, releaseConn, hSrc, H.close, H.isclosed, hconn]

/-- **the repaired `read1()` defect, in general**: whenever `_raw_read` — through `read(n)`,
`read1(n)` or `read1()` (no amount) — sees the end of the stream (`http.client` returns b"") while
`length_remaining` says that body bytes are still owed, it raises (IncompleteRead →) ProtocolError,
closes the response and the connection and hands the connection back closed.  (`read()` without
amount is `C13_truncated_raises_content_length`: `http.client` raises there itself.)
Before the repair the `read1()` case returned b"" — a normal end. -/
theorem C13_eof_before_length_raises {δ : Type} (cfg : Cfg δ) (r : R H δ) (amt : Option Nat) (rd1 : Bool) (h' : H)
    (hcl : r.fp.closed = false)
    (hread : (if rd1 then hRead1 r.fp amt else hRead r.fp amt) = (.ok [], h'))
    (hamt : amt ≠ some 0) (hapi : rd1 = true ∨ amt ≠ none)
    (henf : cfg.enforce = true) (hlr : r.lengthRemaining ≠ none ∧ r.lengthRemaining ≠ some 0)
    (hconn : r.conn = true) :
    let res := rawRead hSrc cfg r amt rd1
    res.1 = .error .protocolError ∧ res.2.connClosed = true ∧ res.2.released = true ∧
    res.2.conn = false ∧ res.2.fp.isclosed = true := by
  intro res
  have hres : res = rawRead hSrc cfg r amt rd1 := rfl
  rw [hres]
  unfold rawRead
  have hread' : (if hSrc.closed r.fp = true then ((Except.ok [] : Except HErr Bytes), r.fp)
      else if rd1 = true then hSrc.read1 r.fp amt else hSrc.read r.fp amt) = (.ok [], h') := by
    simp only [hSrc, hcl, Bool.false_eq_true, if_false]; exact hread
  simp only [hread']
  by_cases ha : amt = none
  · -- `read1()` without an amount: the repaired branch
    have hr1 : rd1 = true := by
      rcases hapi with h | h
      · exact h
      · exact absurd ha h
    subst ha hr1
    simp [errorCatcher, mapExc, releaseConn, hSrc, H.close, H.isclosed, henf, hlr.1, hlr.2, hconn]
  · have hc : amt ≠ none ∧ amt ≠ some 0 ∧ ([] : Bytes).isEmpty = true := ⟨ha, hamt, rfl⟩
    simp [hc, errorCatcher, mapExc, releaseConn, hSrc, H.close, H.isclosed, henf, hlr.1, hlr.2, hconn]

/-- the hypotheses of `C13_eof_before_length_raises` are met by the concrete short body of the
former negation witness: after "ab" has been read, `http.client.read1()` returns b"" with
`length_remaining = 3` -/
example :
    let r0 := respOf wireShortCL 0 (some (lit "5")) false (some 5)
    let s1 := read1 hSrc cdDec cfgNone r0 none (some false)
    s1.2.fp.closed = false ∧ (hRead1 s1.2.fp none).1.toOption = some [] ∧ s1.2.lengthRemaining = some 3 ∧
    s1.2.conn = true := by
  decide +kernel

/-! ### the repaired defect on the concrete input that used to be its negation witness -/

/-- `Content-Length: 5`, only "ab" arrives: `read1()` returns "ab", the next `read1()` raises
ProtocolError (IncompleteRead), closes the connection and hands it back closed — exactly as
`read()` does on the same response (before the repair the second `read1()` returned b"" and released
the still-open connection: findings `silent-end:read1():cl-short`,
`conn-released-open-after-silent-read1()`) -/
theorem C13_read1_none_raises :
    let r0 := respOf wireShortCL 0 (some (lit "5")) false (some 5)
    let s1 := read1 hSrc cdDec cfgNone r0 none (some false)
    let s2 := read1 hSrc cdDec cfgNone s1.2 none (some false)
    out s1 = some (lit "ab") ∧ err s2 = some .protocolError ∧ s2.2.lengthRemaining = some 3 ∧
    s2.2.released = true ∧ s2.2.connClosed = true ∧ s2.2.fp.isclosed = true ∧
    err (read hSrc cdDec cfgNone r0 none (some false)) = some .protocolError := by
  decide +kernel

/-! ### negation witnesses (known findings that are not repaired) -/

/-- close-delimited zstd frame of "hello" cut two bytes short: `read(64)` returns "hel", then b"";
`read()` raises DecodeError ("Zstandard data is incomplete") -/
theorem C13_zstd_incomplete_read_n_silent :
    let r0 := respOf wireZstdCut 0 none true none
    let s1 := read hSrc cdDec cfgZstd r0 (some 64) (some true)
    let s2 := read hSrc cdDec cfgZstd s1.2 (some 64) (some true)
    out s1 = some (lit "hel") ∧ out s2 = some [] ∧
    err (read hSrc cdDec cfgZstd r0 none (some true)) = some .decodeError := by
  decide +kernel

/-- `Content-Encoding: deflate, zstd` with the zstd layer cut short: even `read()` ends normally,
because `MultiDecoder.flush` only flushes the first-listed decoder -/
theorem C13_multidecoder_inner_zstd_silent :
    let r0 := respOf wireStackCut 0 none true none
    out (read hSrc cdDec cfgStack r0 none (some true)) = some (lit "h") := by
  decide +kernel

end U3.Props
