import U3.Lemmas.Resp
import U3.Lemmas.RespIO
import U3.Lemmas.RespWitness
import U3.Lemmas.RespDrain
import U3.Lemmas.RespDrainWitness
import U3.Lemmas.RespBroken
/-!
# C13 — a cut-off or corrupt response is never presented as complete

Proved for all inputs / segmentations: a `_safe_read` past the end of the received bytes raises
(the core of every truncation case); `read()` / preload on a body shorter than its Content-Length
raises `ProtocolError` and closes the connection; a chunk-size line that `int(x, 16)` rejects (or
EOF where a line should start) raises `ProtocolError` and closes; decoder errors become
`DecodeError`; an unfinished zstd frame fails `flush`; `_error_catcher` closes and releases the
connection on every unclean exit.

Round 2: `read()` on every *broken chunked* body (`Broken`: the lenient reference reader finds the
framing incomplete or a size line unparseable) raises ProtocolError through `http.client`'s chunk
reader; `drain_conn()` on a short Content-Length body or a broken chunked body leaves the connection
closed (never released open), on a complete body it leaves it released and unclosed; in general the
connection survives `drain_conn()` only if `http.client` read the body to its end without an exception.

The `read1()` defect (a short Content-Length body ended silently) is repaired in the code:
`C13_eof_before_length_raises` is the general statement, `C13_read1_none_raises` the former negation
witness turned positive.

**`C13_truncated_raises`** ("for every call sequence", DESIGN Appendix E) is proved in full for the
framing level — a body short of its Content-Length, a chunked body the lenient reference reader finds
incomplete or unparseable —, for any decoder: no call of the read family ever signals an end of body;
`C13_truncated_generators_raise` is the same for `stream` / `read_chunked` / iteration.  Extended to
"the compressed stream is incomplete (zstd) / a later gzip member is corrupt" the statement is
still **false** of the code as it is; the `…_silent` theorems are
kernel-evaluated counter-examples (read(n) on a truncated zstd stream; MultiDecoder.flush; a corrupt
gzip member after the first, swallowed as "trailing garbage").

  -- full statement incl. the decode level (refuted by C13_zstd_incomplete_read_n_silent):
  -- theorem C13_truncated_raises' (ht : ¬ lenientComplete w ∨ zstdIncomplete w) : ∀ calls, endSignalled (runCalls d w calls) → False
-/
namespace U3.Props
open U3 U3.Resp U3.Resp.Witness

/-- reading `amt` bytes that the framing promises but the peer never sent raises IncompleteRead,
for every segmentation (this is `_safe_read`, used for Content-Length bodies, chunk data and the
CRLF after a chunk by both `http.client` and `read_chunked`) -/
theorem C13_truncated_raises_safe_read (h : H) (f : Fp) (amt : Nat) (hf : h.fp = some f)
    (hlen : f.content.length < amt) : (hSafeRead h amt).1 = .error .incompleteRead := by
  obtain ⟨f', he, _⟩ := hSafeRead_short h f amt hf hlen
  rw [he]

/-- `read()` (and therefore preload / `.data`) on a body shorter than its Content-Length raises
ProtocolError, closes the http.client response and the connection, and releases it -/
theorem C13_truncated_raises_content_length {δ : Type} (D : Dec δ) (cfg : Cfg δ) (r : R H δ)
    (f : Fp) (l : Nat) (dco : Option Bool) (cache : Bool)
    (hf : r.fp.fp = some f) (hcl : r.fp.closed = false) (hh : r.fp.head = false)
    (hc : r.fp.chunked = false) (hl : r.fp.length = some l) (hlen : f.content.length < l)
    (hb : r.buf = []) (hconn : r.conn = true) :
    let res := read hSrc D cfg r none dco cache
    res.1 = .error .protocolError ∧ res.2.connClosed = true ∧ res.2.released = true ∧
    res.2.fp.isclosed = true := by
  have h1 := hRead_length_short r.fp f l hf hh hc hl hlen
  have hb0 : bqLen r.buf = 0 := by rw [hb]; rfl
  generalize hres : hRead r.fp none = res0 at h1
  obtain ⟨e, h'⟩ := res0
  simp only at h1
  obtain ⟨rfl, h2⟩ := h1
  intro res
  have : res = read hSrc D cfg r none dco cache := rfl
  rw [this]
  unfold U3.Resp.read
  cases hd : r.decoder <;>
    simp [initDec, hd, rawRead, hSrc, hcl, hres, errorCatcher, mapExc, releaseConn, H.close, H.isclosed, hconn]

/-- preload is `read(decode_content=…)` in the constructor: same theorem -/
theorem C13_preload_raises {δ : Type} (D : Dec δ) (cfg : Cfg δ) (r : R H δ) (f : Fp) (l : Nat) (dc : Bool)
    (hf : r.fp.fp = some f) (hcl : r.fp.closed = false) (hh : r.fp.head = false)
    (hc : r.fp.chunked = false) (hl : r.fp.length = some l) (hlen : f.content.length < l)
    (hb : r.buf = []) (hconn : r.conn = true) :
    (read hSrc D cfg r none (some dc)).1 = .error .protocolError :=
  (C13_truncated_raises_content_length D cfg r f l (some dc) false hf hcl hh hc hl hlen hb hconn).1

example : (respOf wireShortCL 0 (some (lit "5")) false (some 5)).fp.length = some 5 ∧
    (respOf wireShortCL 0 (some (lit "5")) false (some 5)).fp.fp.map (·.content) = some (lit "ab") := by
  decide +kernel

/-- `_update_chunk_length`: a size line that `int(line, 16)` rejects raises (InvalidChunkLength →)
ProtocolError, and EOF where a size line should start raises ProtocolError("Response ended
prematurely"); in both cases the response and the connection are closed first -/
theorem C13_bad_chunk_raises {δ : Type} (r : R H δ) (f : Fp) (hf : r.fp.fp = some f)
    (hl : r.chunkLeft = none) (hbad : parseSize (cutExt (lineOf f.content)) = .valueError) (hconn : r.conn = true) :
    let res := updateChunkLength hSrc r
    (∃ e, res.1 = .error e ∧ mapExc e = .protocolError) ∧ res.2.connClosed = true ∧
    res.2.fp.isclosed = true := by
  have h1 := hFpReadline_eq r.fp f hf
  simp only [updateChunkLength, hl, hSrc, h1, hbad, closeResp]
  by_cases hne : (cutExt (lineOf f.content)).isEmpty
  · simp [hne, mapExc, H.isclosed, H.close, hconn]
  · simp [hne, mapExc, H.isclosed, H.close, hconn]

example : parseSize (cutExt (lineOf (lit "zz\r\nabc"))) = .valueError ∧
    parseSize (cutExt (lineOf [])) = .valueError := by decide

/-- a decoder error inside `_decode` is raised as DecodeError -/
theorem C13_undecodable_raises {σ δ : Type} (D : Dec δ) (r : R σ δ) (d d' : δ) (data : Bytes) (fl : Bool)
    (hd : r.decoder = some d) (he : D.decompress d data = (.error .decodeError, d')) :
    (decode D r data true fl).1 = .error .decodeError := by
  simp [decode, hd, he, excOfDecompress]

/-- zstd: flushing a decoder whose current frame is unfinished is a DecodeError -/
theorem C13_zstd_incomplete_flush_raises {ρ : Type} (O : RawObj ρ) (z : ZObj ρ) (h : O.eof z.st = false) :
    (zsFlush O z).1 = .error .decodeError := by
  simp [zsFlush, h]

/-- `_error_catcher`: every unclean exit closes the original response and the connection, and the
connection is given back to the pool (closed, to be re-opened on a fresh socket) -/
theorem C13_error_closes_connection {δ α : Type} (r : R H δ) (e : RawExc) (hconn : r.conn = true) :
    let res := errorCatcher (α := α) hSrc r (.error e)
    res.1 = .error (mapExc e) ∧ res.2.connClosed = true ∧ res.2.released = true ∧
    res.2.conn = false ∧ res.2.fp.isclosed = true ∧ res.2.fp.closed = true := by
  simp [errorCatcher, releaseConn, hSrc, H.close, H.isclosed, hconn]

/-- **the repaired `read1()` defect, in general**: whenever `_raw_read` — through `read(n)`,
`read1(n)` or `read1()` (no amount) — sees the end of the stream (`http.client` returns b"") while
`length_remaining` says that body bytes are still owed, it raises (IncompleteRead →) ProtocolError,
closes the response and the connection and hands the connection back closed.  (`read()` without
amount is `C13_truncated_raises_content_length`: `http.client` raises there itself.)
Before the repair the `read1()` case returned b"" — a normal end. -/
theorem C13_eof_before_length_raises {δ : Type} (cfg : Cfg δ) (r : R H δ) (amt : Option Nat) (rd1 : Bool) (h' : H)
    (hcl : r.fp.closed = false)
    (hread : (if rd1 then hRead1 r.fp amt else hRead r.fp amt) = (.ok [], h'))
    (hamt : amt ≠ some 0) (hapi : rd1 = true ∨ amt ≠ none)
    (henf : cfg.enforce = true) (hlr : r.lengthRemaining ≠ none ∧ r.lengthRemaining ≠ some 0)
    (hconn : r.conn = true) :
    let res := rawRead hSrc cfg r amt rd1
    res.1 = .error .protocolError ∧ res.2.connClosed = true ∧ res.2.released = true ∧
    res.2.conn = false ∧ res.2.fp.isclosed = true := by
  intro res
  have hres : res = rawRead hSrc cfg r amt rd1 := rfl
  rw [hres]
  unfold rawRead
  have hread' : (if hSrc.closed r.fp = true then ((Except.ok [] : Except HErr Bytes), r.fp)
      else if rd1 = true then hSrc.read1 r.fp amt else hSrc.read r.fp amt) = (.ok [], h') := by
    simp only [hSrc, hcl, Bool.false_eq_true, if_false]; exact hread
  simp only [hread']
  by_cases ha : amt = none
  · -- `read1()` without an amount: the repaired branch
    have hr1 : rd1 = true := by
      rcases hapi with h | h
      · exact h
      · exact absurd ha h
    subst ha hr1
    simp [errorCatcher, mapExc, releaseConn, hSrc, H.close, H.isclosed, henf, hlr.1, hlr.2, hconn]
  · have hc : amt ≠ none ∧ amt ≠ some 0 ∧ ([] : Bytes).isEmpty = true := ⟨ha, hamt, rfl⟩
    simp [hc, errorCatcher, mapExc, releaseConn, hSrc, H.close, H.isclosed, henf, hlr.1, hlr.2, hconn]

/-- the hypotheses of `C13_eof_before_length_raises` are met by the concrete short body of the
former negation witness: after "ab" has been read, `http.client.read1()` returns b"" with
`length_remaining = 3` -/
example :
    let r0 := respOf wireShortCL 0 (some (lit "5")) false (some 5)
    let s1 := read1 hSrc cdDec cfgNone r0 none (some false)
    s1.2.fp.closed = false ∧ (hRead1 s1.2.fp none).1.toOption = some [] ∧ s1.2.lengthRemaining = some 3 ∧
    s1.2.conn = true := by
  decide +kernel

/-! ### the repaired defect on the concrete input that used to be its negation witness -/

/-- `Content-Length: 5`, only "ab" arrives: `read1()` returns "ab", the next `read1()` raises
ProtocolError (IncompleteRead), closes the connection and hands it back closed — exactly as
`read()` does on the same response (before the repair the second `read1()` returned b"" and released
the still-open connection: findings `silent-end:read1():cl-short`,
`conn-released-open-after-silent-read1()`) -/
theorem C13_read1_none_raises :
    let r0 := respOf wireShortCL 0 (some (lit "5")) false (some 5)
    let s1 := read1 hSrc cdDec cfgNone r0 none (some false)
    let s2 := read1 hSrc cdDec cfgNone s1.2 none (some false)
    out s1 = some (lit "ab") ∧ err s2 = some .protocolError ∧ s2.2.lengthRemaining = some 3 ∧
    s2.2.released = true ∧ s2.2.connClosed = true ∧ s2.2.fp.isclosed = true ∧
    err (read hSrc cdDec cfgNone r0 none (some false)) = some .protocolError := by
  decide +kernel

/-! ### chunked bodies through `http.client`'s chunk reader, and `drain_conn()`

`Broken cl c` (Lemmas/RespDrain) is the lenient reference reader's verdict "framing incomplete or
chunk-size line unparseable" on the bytes `c` that arrived before the peer's FIN, from the position
`cl` of `http.client`'s chunk bookkeeping — the Lean counterpart of `lenient_chunked` in
harness/props/c13.py returning `incomplete` / `unparseable`. -/

/-- **`read()` on a broken chunked body** — cut inside a chunk, before the CRLF after a chunk, before
the terminating zero-size chunk, or with a size line `int(x, 16)` rejects, after any number of whole
chunks, for every segmentation and from every position: `http.client`'s `_read_chunked` raises
`IncompleteRead`, `_error_catcher` turns it into ProtocolError, the response and the connection are
closed and the connection is handed back closed.  (Closes the gap "chunked through
`http.client._read_chunked`" of the first round; urllib3's own parser: `C13_bad_chunk_raises`.) -/
theorem C13_truncated_raises_chunked {δ : Type} (D : Dec δ) (cfg : Cfg δ) (r : R H δ) (f : Fp)
    (dco : Option Bool) (cache : Bool)
    (hf : r.fp.fp = some f) (hcl : r.fp.closed = false) (hh : r.fp.head = false) (hc : r.fp.chunked = true)
    (hb : Broken r.fp.chunkLeft f.content) (hconn : r.conn = true) :
    let res := read hSrc D cfg r none dco cache
    res.1 = .error .protocolError ∧ res.2.connClosed = true ∧ res.2.released = true ∧
    res.2.conn = false ∧ res.2.fp.isclosed = true := by
  obtain ⟨g1, _⟩ := initDec_other cfg r
  obtain ⟨h', e⟩ := hRead_broken_none r.fp f hf hh hc hb
  obtain ⟨r1, hr⟩ := rawRead_h_error cfg (initDec cfg r) .incompleteRead h' (by rw [g1]; exact hcl)
    (by rw [g1]; exact e)
  obtain ⟨_, c1, c2, c3, c4⟩ := drainConn_raw_error hSrc D cfg hSrc_close_isclosed r _ r1 hr hconn
  intro res
  have : res = (.error .protocolError, r1) := read_none_error hSrc D cfg r dco cache _ r1 hr
  rw [this]
  exact ⟨rfl, c1, c2, c3, c4⟩

/-- non-vacuity: a chunk of 5 with 2 bytes before EOF; a whole chunk then EOF instead of the next
size line; a whole chunk then an unparseable size line -/
example : Broken none (lit "5\r\nab") := .line _ 4 (by decide) (.short 4 _ (by decide))
example : Broken none (lit "2\r\nab\r\n") :=
  .line _ 1 (by decide) (.data 1 _ (by decide) (.sep _ (by decide) (.badline _ (by decide))))
example : Broken none (lit "2\r\nab\r\nzz\r\ncd\r\n0\r\n\r\n") :=
  .line _ 1 (by decide) (.data 1 _ (by decide) (.sep _ (by decide) (.badline _ (by decide))))
example : Broken (some 3) (lit "ab") := .short 2 _ (by decide)
example : Broken (some 0) (lit "\r") := .nosep _ (by decide)

/-- … and the response `begin()` makes of such a wire meets the other hypotheses -/
example :
    let h := (respChunked wireChunkedCut 3).fp
    h.head = false ∧ h.chunked = true ∧ h.closed = false ∧ h.chunkLeft = none ∧
    h.fp.map (·.content) = some (lit "5\r\nab") ∧ (respChunked wireChunkedCut 3).conn = true := by
  decide +kernel

/-- **`drain_conn()` on a body shorter than its Content-Length** (the hypotheses of
`C13_truncated_raises_content_length`): it returns normally — the ProtocolError is swallowed —,
and the response and the connection are closed; the connection goes back to the pool closed, never
open -/
theorem C13_drain_closes_content_length {δ : Type} (D : Dec δ) (cfg : Cfg δ) (r : R H δ) (f : Fp) (l : Nat)
    (hf : r.fp.fp = some f) (hcl : r.fp.closed = false) (hh : r.fp.head = false)
    (hc : r.fp.chunked = false) (hl : r.fp.length = some l) (hlen : f.content.length < l)
    (hconn : r.conn = true) :
    let res := drainConn hSrc D cfg r
    res.1 = .ok () ∧ res.2.connClosed = true ∧ res.2.released = true ∧ res.2.conn = false ∧
    res.2.fp.isclosed = true := by
  obtain ⟨g1, _⟩ := initDec_other cfg r
  have h1 := hRead_length_short r.fp f l hf hh hc hl hlen
  have e : hRead r.fp none = (.error .incompleteRead, (hRead r.fp none).2) := Prod.ext h1.1 rfl
  obtain ⟨r1, hr⟩ := rawRead_h_error cfg (initDec cfg r) .incompleteRead _ (by rw [g1]; exact hcl)
    (by rw [g1]; exact e)
  obtain ⟨c0, c1, c2, c3, c4⟩ := drainConn_raw_error hSrc D cfg hSrc_close_isclosed r _ r1 hr hconn
  intro res
  have : res = (.ok (), r1) := c0
  rw [this]
  exact ⟨rfl, c1, c2, c3, c4⟩

/-- **`drain_conn()` on a broken chunked body** (the hypotheses of `C13_truncated_raises_chunked`):
returns normally, response and connection closed, the connection handed back closed -/
theorem C13_drain_closes_chunked {δ : Type} (D : Dec δ) (cfg : Cfg δ) (r : R H δ) (f : Fp)
    (hf : r.fp.fp = some f) (hcl : r.fp.closed = false) (hh : r.fp.head = false) (hc : r.fp.chunked = true)
    (hb : Broken r.fp.chunkLeft f.content) (hconn : r.conn = true) :
    let res := drainConn hSrc D cfg r
    res.1 = .ok () ∧ res.2.connClosed = true ∧ res.2.released = true ∧ res.2.conn = false ∧
    res.2.fp.isclosed = true := by
  obtain ⟨g1, _⟩ := initDec_other cfg r
  obtain ⟨h', e⟩ := hRead_broken_none r.fp f hf hh hc hb
  obtain ⟨r1, hr⟩ := rawRead_h_error cfg (initDec cfg r) .incompleteRead h' (by rw [g1]; exact hcl)
    (by rw [g1]; exact e)
  obtain ⟨c0, c1, c2, c3, c4⟩ := drainConn_raw_error hSrc D cfg hSrc_close_isclosed r _ r1 hr hconn
  intro res
  have : res = (.ok (), r1) := c0
  rw [this]
  exact ⟨rfl, c1, c2, c3, c4⟩

/-- the model computes it on the two damaged chunked wires (segmentation 3) -/
example :
    let s1 := drainConn hSrc cdDec cfgChunkedNone (respChunked wireChunkedCut 3)
    let s2 := drainConn hSrc cdDec cfgChunkedNone (respChunked wireChunkedBadLine 3)
    err s1 = none ∧ s1.2.connClosed = true ∧ s1.2.released = true ∧
    err s2 = none ∧ s2.2.connClosed = true ∧ s2.2.released = true ∧
    err (read hSrc cdDec cfgChunkedNone (respChunked wireChunkedBadLine 3) none (some true)) = some .protocolError := by
  decide +kernel

/-- **after `drain_conn()` the connection is open only if `http.client` read the body to its end**:
for EVERY response state that still holds its connection — any framing, any damage, any position, any
decoder — either `drain_conn()` leaves the connection closed, or the underlying file had been closed
before, or `http.client`'s `read()` of the whole remaining body returned without an exception
(which it does not on a short Content-Length body or a broken chunked body: the two theorems
above).  No exception inside `_raw_read` can leave a still-open connection behind — the seeded defect
that drained `_fp` directly and released by hand breaks exactly this. -/
theorem C13_drain_closed_unless_read_to_end {δ : Type} (D : Dec δ) (cfg : Cfg δ) (r : R H δ)
    (hconn : r.conn = true) :
    (drainConn hSrc D cfg r).2.connClosed = true ∨ r.fp.closed = true ∨
    ∃ d, (hRead r.fp none).1 = .ok d := by
  obtain ⟨g1, _⟩ := initDec_other cfg r
  cases hcl : r.fp.closed with
  | true => exact Or.inr (Or.inl rfl)
  | false =>
    generalize hres : hRead r.fp none = res
    obtain ⟨x, h'⟩ := res
    cases x with
    | ok d => exact Or.inr (Or.inr ⟨d, rfl⟩)
    | error e =>
      left
      obtain ⟨r1, hr⟩ := rawRead_h_error cfg (initDec cfg r) e h' (by rw [g1]; exact hcl) (by rw [g1]; exact hres)
      obtain ⟨c0, c1, _⟩ := drainConn_raw_error hSrc D cfg hSrc_close_isclosed r _ r1 hr hconn
      rw [c0]
      exact c1

example : (respChunked wireChunkedCut 3).conn = true := rfl

/-- **`drain_conn()` on a complete body** — intact Content-Length / close-delimited framing (`HI`) or
intact chunked framing (`CI`), any decoder obeying the streaming law, decoding on, from any point of
the body (also after partial reads): it returns, the response file is closed, the connection has
been *released* and the response has **not** closed it: it is reusable (for a close-delimited body
`http.client` has closed the socket itself, `will_close`) -/
theorem C13_drain_complete_released {δ : Type} (D : Dec δ) (cfg : Cfg δ) {G : δ → Bytes → Bytes → Prop}
    (hD : StreamLaw D G) (hdef : cfg.decodeDefault = true) (r : R H δ) (rest : Bytes)
    (hinv : Inv cfg hRem HI G r rest ∨ Inv cfg cRem CI G r rest)
    (hconn : r.conn = true) (hnc : r.connClosed = false) :
    ∃ r', drainConn hSrc D cfg r = (.ok (), r') ∧ r'.released = true ∧ r'.conn = false ∧
      r'.connClosed = false ∧ r'.fp.isclosed = true := by
  rcases hinv with hinv | hinv
  · obtain ⟨r', h1, _, _, h4, h5, h6⟩ := drainConn_complete hSrc D cfg (hSrc_rawReadAllSpec cfg) hD
      (hSrc_closesAll cfg) hdef r rest hinv
    exact ⟨r', h1, (h6 hconn).1, (h6 hconn).2, by rw [h5]; exact hnc, h4⟩
  · obtain ⟨r', h1, _, _, h4, h5, h6⟩ := drainConn_complete hSrc D cfg (hSrc_rawReadAllSpec_chunked cfg) hD
      (hSrc_closesAll_chunked cfg) hdef r rest hinv
    exact ⟨r', h1, (h6 hconn).1, (h6 hconn).2, by rw [h5]; exact hnc, h4⟩

example : StreamLaw cdDec CDGall := cdDec_streamLaw
example : Inv cfgGzipHello hRem HI CDGall respGzipHello (lit "hello") := inv_gzipHello
example : Inv cfgGzipChunked cRem CI CDGall respChunkedGzipHello (lit "hello") := inv_chunkedGzipHello
example : respGzipHello.conn = true ∧ respGzipHello.connClosed = false ∧ cfgGzipHello.decodeDefault = true :=
  ⟨rfl, rfl, rfl⟩

/-- … and with `decode_content=False` as the response default (nothing decoded so far) -/
theorem C13_drain_complete_released_raw {δ : Type} (D : Dec δ) (cfg : Cfg δ)
    (hdef : cfg.decodeDefault = false) (r : R H δ) (raw : Bytes)
    (hinv : RawInv hRem HI r raw ∨ RawInv cRem CI r raw)
    (hconn : r.conn = true) (hnc : r.connClosed = false) :
    ∃ r', drainConn hSrc D cfg r = (.ok (), r') ∧ r'.released = true ∧ r'.conn = false ∧
      r'.connClosed = false ∧ r'.fp.isclosed = true := by
  rcases hinv with hinv | hinv
  · obtain ⟨r', h1, _, h4, h5, h6⟩ := drainConn_complete_raw hSrc D cfg (hSrc_rawReadAllSpec cfg)
      (hSrc_closesAll cfg) hdef r raw hinv
    exact ⟨r', h1, (h6 hconn).1, (h6 hconn).2, by rw [h5]; exact hnc, h4⟩
  · obtain ⟨r', h1, _, h4, h5, h6⟩ := drainConn_complete_raw hSrc D cfg (hSrc_rawReadAllSpec_chunked cfg)
      (hSrc_closesAll_chunked cfg) hdef r raw hinv
    exact ⟨r', h1, (h6 hconn).1, (h6 hconn).2, by rw [h5]; exact hnc, h4⟩

example : RawInv hRem HI respGzipHello gzipHello := rawInv_gzipHello

/-- the model computes both outcomes on the gzip response "hello" after a partial `read(2)`:
complete body → released, not closed; `Content-Length: 5` with only "ab" → closed -/
example :
    let s1 := read hSrc cdDec cfgGzipHello respGzipHello (some 2) (some true)
    let s2 := drainConn hSrc cdDec cfgGzipHello s1.2
    let s3 := read hSrc cdDec cfgGzipHello s2.2 (some 5) (some true)
    let t := drainConn hSrc cdDec cfgNone (respOf wireShortCL 0 (some (lit "5")) false (some 5))
    out s1 = some (lit "he") ∧ err s2 = none ∧ s2.2.released = true ∧ s2.2.connClosed = false ∧
    out s3 = some [] ∧ err t = none ∧ t.2.released = true ∧ t.2.connClosed = true := by
  decide +kernel

/-! ### the headline: no read pattern ends normally on a cut-off body

`LShort h lr` — a non-chunked body that ends before its Content-Length (`l` bytes owed, fewer there
before the FIN, `length_remaining = l`); `CBroken h lr` — a chunked body the lenient reference reader
finds incomplete or unparseable (`Broken`), from any position.  `EndSignal c out` — the call `c`
returning `out` tells the caller that the body is over: `read()` returning at all, `read(n)` /
`read1(n)` / `read1()` (`n ≠ 0`) returning b"". -/

/-- **`C13_truncated_raises`** (DESIGN Appendix E, proved in full for the framing level): for EVERY
sequence of `read()`, `read(0)`, `read(n)` (= `readinto(n)`), `read1()`, `read1(n)` calls on a response
whose body is short of its Content-Length or whose chunked framing is incomplete / has an unparseable
size line — every cut position, every segmentation, ANY content decoder, decoding on or off —:
either a call raises — never the model's `fuel` outcome (the loops terminate), and if it is
ProtocolError (`_raw_read`'s `IncompleteRead` / `InvalidChunkLength`; anything else comes from the
decoder) **the connection has been closed and handed back closed** —, or the sequence runs through and
**no call has signalled an end of body** — every `read(n)` / `read1(n)` returned a non-empty piece —,
the body is still broken, the connection still held, and the next `read()` raises ProtocolError and
closes it.  `enforce_content_length` is on (the default). -/
theorem C13_truncated_raises {δ : Type} (D : Dec δ) (cfg : Cfg δ) (henf : cfg.enforce = true)
    (dco : Option Bool) (r : R H δ)
    (hbroken : LShort r.fp r.lengthRemaining ∨ CBroken r.fp r.lengthRemaining)
    (hfuel : r.fp.avail < cfg.fuel) (hconn : r.conn = true) (calls : List RCall) :
    (∃ e r', callSeq hSrc D cfg dco calls r = (.error e, r') ∧ e ≠ .fuel ∧
      (e = .protocolError → r'.connClosed = true ∧ r'.released = true ∧ r'.conn = false)) ∨
    (∃ outs r', callSeq hSrc D cfg dco calls r = (.ok outs, r') ∧ outs.length = calls.length ∧
      (∀ i (hi : i < calls.length) (ho : i < outs.length), ¬ EndSignal calls[i] outs[i]) ∧
      (LShort r'.fp r'.lengthRemaining ∨ CBroken r'.fp r'.lengthRemaining) ∧ r'.conn = true ∧
      ∃ r'', read hSrc D cfg r' none dco = (.error .protocolError, r'') ∧
        r''.connClosed = true ∧ r''.released = true ∧ r''.conn = false) := by
  rcases hbroken with hb | hb
  · have hB := hSrc_rawBroken_short (δ := δ) cfg henf
    rcases callSeq_broken hSrc D cfg hB dco calls r hb hfuel hconn with
      ⟨e, r', e1, e2⟩ | ⟨outs, r', e1, e2, e3, e4, _, e6⟩
    · left; exact ⟨e, r', e1, e2⟩
    · right
      obtain ⟨r'', f1, f2⟩ := read_none_broken hSrc D cfg hB dco false r' e4
      exact ⟨outs, r', e1, e2, e3, Or.inl e4, e6, r'', f1, f2 e6⟩
  · have hB := hSrc_rawBroken_chunked (δ := δ) cfg
    rcases callSeq_broken hSrc D cfg hB dco calls r hb hfuel hconn with
      ⟨e, r', e1, e2⟩ | ⟨outs, r', e1, e2, e3, e4, _, e6⟩
    · left; exact ⟨e, r', e1, e2⟩
    · right
      obtain ⟨r'', f1, f2⟩ := read_none_broken hSrc D cfg hB dco false r' e4
      exact ⟨outs, r', e1, e2, e3, Or.inr e4, e6, r'', f1, f2 e6⟩

/-- non-vacuity: `Content-Length: 5` with "ab"; a chunk of 5 cut after 2 bytes (segmentation 3) -/
example : LShort (respOf wireShortCL 0 (some (lit "5")) false (some 5)).fp
    (respOf wireShortCL 0 (some (lit "5")) false (some 5)).lengthRemaining := lShort_shortCL
example : CBroken (respChunked wireChunkedCut 3).fp (respChunked wireChunkedCut 3).lengthRemaining :=
  cBroken_chunkedCut
example : cfgNone.enforce = true ∧ (respOf wireShortCL 0 (some (lit "5")) false (some 5)).fp.avail < cfgNone.fuel ∧
    (respOf wireShortCL 0 (some (lit "5")) false (some 5)).conn = true := by
  decide +kernel

/-- … and what the model computes on them: `read(1)`, `read1()` return pieces, then `read(7)` raises -/
example :
    let x := callSeq hSrc cdDec cfgNone (some true) [.read (some 1), .read1 none, .read (some 7)]
      (respOf wireShortCL 0 (some (lit "5")) false (some 5))
    let y := callSeq hSrc cdDec cfgChunkedNone (some true) [.read (some 1), .read1 (some 9), .read1 none]
      (respChunked wireChunkedCut 3)
    err x = some .protocolError ∧ x.2.connClosed = true ∧
    err y = some .protocolError ∧ y.2.connClosed = true := by
  decide +kernel

/-- **the generators on a cut-off body end in an exception, never in StopIteration**:
(a) non-chunked body short of its Content-Length: `stream(amt)` (`amt ≠ 0`) and iteration (loops of
`read(amt)`);  (b) broken chunked body, urllib3's own chunk parser: `read_chunked(amt)`, `stream(amt)`
and iteration — `_update_chunk_length` / `_handle_chunk` run into the unparseable line or the EOF —
and, the whole chunk loop running inside `_error_catcher`, the connection the response held is
closed and handed back closed whatever the exception.
Any decoder, decoding on or off, any amount, any segmentation.  (The outcome may be the model's
`fuel` only where an arbitrary decoder inflates without bound; it is an error outcome too.) -/
theorem C13_truncated_generators_raise {δ : Type} (D : Dec δ) (cfg : Cfg δ) (r : R H δ) :
    (cfg.enforce = true → cfg.chunked = false → LShort r.fp r.lengthRemaining → r.fp.avail < cfg.fuel →
      r.conn = true → ∀ amt dco, amt ≠ some 0 →
        (∃ e, (stream hSrc D cfg r amt dco).1.2 = some e) ∧ (∃ e, (iter hSrc D cfg r).1.2 = some e)) ∧
    (cfg.chunked = true → cfg.head = false →
      ∀ f, r.fp.fp = some f → BrokenU r.chunkLeft f.content →
      ∀ amt, (∀ dc, (∃ e, (readChunked hSrc D cfg r amt dc).1.2 = some e) ∧
          (r.conn = true → (readChunked hSrc D cfg r amt dc).2.connClosed = true ∧
            (readChunked hSrc D cfg r amt dc).2.released = true ∧ (readChunked hSrc D cfg r amt dc).2.conn = false)) ∧
        (∀ dco, (∃ e, (stream hSrc D cfg r amt dco).1.2 = some e) ∧
          (r.conn = true → (stream hSrc D cfg r amt dco).2.connClosed = true ∧
            (stream hSrc D cfg r amt dco).2.released = true ∧ (stream hSrc D cfg r amt dco).2.conn = false)) ∧
        (∃ e, (iter hSrc D cfg r).1.2 = some e)) := by
  refine ⟨fun henf hnc hb hf hconn amt dco hamt => ?_, fun hch hhd f hf hb amt => ?_⟩
  · exact stream_broken hSrc D cfg (hSrc_rawBroken_short cfg henf) hnc amt hamt dco r hb hf hconn
  · obtain ⟨h1, h2⟩ := readChunked_broken cfg D hch hhd amt r f hf hb
    exact ⟨h1, h2, iter_broken_chunked cfg D hch hhd r f hf hb⟩

example : BrokenU (respChunked wireChunkedCut 3).chunkLeft (lit "5\r\nab") :=
  .line _ 4 (by decide) (.short 4 _ (by decide))

example :
    (stream hSrc cdDec cfgNone (respOf wireShortCL 0 (some (lit "5")) false (some 5)) (some 1) (some true)).1 =
      ([lit "a", lit "b"], some .protocolError) ∧
    (readChunked hSrc cdDec cfgChunkedNone (respChunked wireChunkedCut 3) (some 1) true).1 =
      ([lit "a", lit "b"], some .protocolError) ∧
    (iter hSrc cdDec cfgChunkedNone (respChunked wireChunkedBadLine 3)).1.2 = some .protocolError := by
  decide +kernel

/-! ### negation witnesses (known findings that are not repaired) -/

/-- close-delimited zstd frame of "hello" cut two bytes short: `read(64)` returns "hel", then b"";
`read()` raises DecodeError ("Zstandard data is incomplete") -/
theorem C13_zstd_incomplete_read_n_silent :
    let r0 := respOf wireZstdCut 0 none true none
    let s1 := read hSrc cdDec cfgZstd r0 (some 64) (some true)
    let s2 := read hSrc cdDec cfgZstd s1.2 (some 64) (some true)
    out s1 = some (lit "hel") ∧ out s2 = some [] ∧
    err (read hSrc cdDec cfgZstd r0 none (some true)) = some .decodeError := by
  decide +kernel

/-- `Content-Encoding: deflate, zstd` with the zstd layer cut short: even `read()` ends normally,
because `MultiDecoder.flush` only flushes the first-listed decoder -/
theorem C13_multidecoder_inner_zstd_silent :
    let r0 := respOf wireStackCut 0 none true none
    out (read hSrc cdDec cfgStack r0 none (some true)) = some (lit "h") := by
  decide +kernel

/-- after a truncated zstd body has been consumed by `read(64)` calls that ended silently, a final
`read()` ends silently too (finding `silent-end:zstd-incomplete:read()-after-drained`) -/
theorem C13_zstd_incomplete_read_all_after_drained_silent :
    let r0 := respOf wireZstdCut 0 none true none
    let s1 := read hSrc cdDec cfgZstd r0 (some 64) (some true)
    let s2 := read hSrc cdDec cfgZstd s1.2 (some 64) (some true)
    let s3 := read hSrc cdDec cfgZstd s2.2 none (some true)
    out s2 = some [] ∧ out s3 = some [] := by
  decide +kernel

/-- **a corrupt gzip member after the first is swallowed** (finding
`silent-end:gzip-later-member-corrupt`): two members "hello" + "hello", one CRC-32 byte of the second
flipped, framing intact.  zlib reports "incorrect data check" on the second member; `GzipDecoder`
(state OTHER_MEMBERS) swallows the error as "trailing garbage", so no API raises — and the bytes
delivered depend on the read pattern: `read()` returns "hello" (the output of the failing
`decompress()` call is lost with the exception), `stream(3)` / `read(3)` loops return "hellohello"
(the data bytes had been handed out before the checksum arrived), both end normally, and
`drain_conn()` / `read()` release the connection unclosed. -/
theorem C13_gzip_later_member_corrupt_silent :
    let r0 := respOf wireGzipLaterCorrupt 3 (some (lit "56")) false (some 56)
    let a := read hSrc cdDec cfgGzipHello r0 none (some true)
    let b := stream hSrc cdDec cfgGzipHello r0 (some 3) (some true)
    out a = some (lit "hello") ∧ out (read hSrc cdDec cfgGzipHello a.2 none (some true)) = some [] ∧
    b.1.2 = none ∧ b.1.1.flatten = lit "hellohello" ∧
    a.2.released = true ∧ a.2.connClosed = false := by
  decide +kernel

end U3.Props
