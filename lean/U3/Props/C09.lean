import U3.Lemmas.Proxy
/-!
# C09 — proxied traffic follows the documented routing and never leaks outside it

All statements are about `U3.Proxy` (`lean/U3/Model/Proxy.lean`), for **every** configuration
`cfg`, **every** environment script (what each socket's CONNECT is answered with, whether the
proxy's / the origin's certificate verifies) and **every** history `reqs` (any length, any mix of
destinations, retries, server-side closes).  `trace cfg script reqs` is everything the proxy and
the origins saw, in order; a hypothesis `trace … = pre ++ e :: post` picks an arbitrary event `e`
together with the events `pre` that happened before it.
-/
namespace U3.Props
open U3 U3.Proxy

/-- The routing decision (`connection_requires_http_tunnel`), all inputs: no tunnel iff there is
no proxy, or the destination is plain HTTP, or forwarding was opted into on an HTTPS proxy. -/
theorem C09_https_tunnels_unless_opted (p : Option Scheme) (fwd : Bool) (d : Option Scheme) :
    requiresTunnel p fwd d = false ↔ (p = none ∨ d = some .http ∨ (p = some .https ∧ fwd = true)) := by
  cases p with
  | none => simp [requiresTunnel]
  | some ps => cases ps <;> cases fwd <;> cases d with
    | none => simp [requiresTunnel]
    | some ds => cases ds <;> simp [requiresTunnel]

/-- Never outside the route: every TCP connection of every history goes to the proxy. -/
theorem C09_only_the_proxy_is_contacted (cfg : Cfg) (script : List Script) (reqs : List Req)
    (pre post : List Event) (sid : Nat) (h : Str) (p : Nat)
    (ht : trace cfg script reqs = pre ++ .tcp sid h p :: post) :
    h = cfg.proxyHost ∧ p = cfg.proxyPort := by
  obtain ⟨r, _, hr⟩ := (trace_spec cfg script reqs).2 _ _ _ ht
  exact hr

/-- Every request on the wire belongs to a request `r` of the history and is inside a tunnel
exactly when the routing table says so for `r`'s scheme (so an HTTPS destination is only ever
addressed inside a tunnel unless forwarding was opted into); inside a tunnel the target is the
origin-form (`r.path`), towards the proxy it is the absolute-form (`r.absUrl`). -/
theorem C09_request_forms (cfg : Cfg) (script : List Script) (reqs : List Req)
    (pre post : List Event) (sid : Nat) (tun : Bool) (m tgt : Str) (hs : Dict)
    (ht : trace cfg script reqs = pre ++ .request sid tun m tgt hs :: post) :
    ∃ r ∈ reqs, tun = requiresTunnel (some cfg.proxyScheme) cfg.fwd (some r.scheme) ∧
      m = methodStr r.method ∧
      (tun = true → r.scheme = .https ∧ tgt = r.path) ∧
      (tun = false → tgt = r.absUrl ∧ tgt = schemeStr r.scheme ++ lit "://" ++ r.netloc ++ r.path) := by
  obtain ⟨r, hr, _, _, _, hm, htun, h1, h2⟩ := (trace_spec cfg script reqs).2 _ _ _ ht
  refine ⟨r, hr, by rw [mgr_tunnel]; exact htun, hm, ?_, fun h => ⟨h2 h, h2 h⟩⟩
  intro h
  refine ⟨?_, (h1 h).1⟩
  have := (regime cfg r).1 (htun ▸ h)
  exact this.2.2.1

/-- Every CONNECT names exactly the host:port of a URL of the history that has to be tunnelled
(lower-cased host as written in the URL, i.e. with the brackets of an IPv6 literal; the explicit
port or 443), and carries the CONNECT headers built from the proxy headers. -/
theorem C09_connect_target_exact (cfg : Cfg) (script : List Script) (reqs : List Req)
    (pre post : List Event) (sid : Nat) (tgt : Str) (hs : Dict)
    (ht : trace cfg script reqs = pre ++ .connect sid tgt hs :: post) :
    ∃ r ∈ reqs, r.scheme = .https ∧ requiresTunnel (some cfg.proxyScheme) cfg.fwd (some r.scheme) = true ∧
      tgt = lower r.host ++ [58] ++ decStr (r.port.getD 443) ∧
      hs = connectHeaders cfg (lower r.host) (r.port.getD 443) := by
  obtain ⟨r, hr, htq, h1, h2, _⟩ := (trace_spec cfg script reqs).2 _ _ _ ht
  have hs' := ((regime cfg r).1 htq).2.2.1
  refine ⟨r, hr, hs', by rw [mgr_tunnel]; exact htq, ?_, ?_⟩
  · simpa [hostPort, Req.nhost, Req.effPort, hs', defaultPort] using h1
  · simpa [Req.nhost, Req.effPort, hs', defaultPort] using h2

/-- IPv6 literals stay bracketed in the CONNECT target. -/
theorem C09_connect_target_ipv6_bracketed (a : Str) (p : Nat) :
    lower ([91] ++ a ++ [93]) ++ [58] ++ decStr p = [91] ++ lower a ++ [93, 58] ++ decStr p := by
  simp [lower, lowerC]

/-- A request inside a tunnel travels on a socket whose CONNECT — earlier in the trace, on that
very socket — named exactly the request's own host:port. -/
theorem C09_tunnel_carries_own_destination (cfg : Cfg) (script : List Script) (reqs : List Req)
    (pre post : List Event) (sid : Nat) (m tgt : Str) (hs : Dict)
    (ht : trace cfg script reqs = pre ++ .request sid true m tgt hs :: post) :
    ∃ r ∈ reqs, tgt = r.path ∧ m = methodStr r.method ∧
      ∃ chs, Event.connect sid (hostPort r.nhost r.effPort) chs ∈ pre := by
  obtain ⟨r, hr, _, _, _, hm, _, h1, _⟩ := (trace_spec cfg script reqs).2 _ _ _ ht
  exact ⟨r, hr, (h1 rfl).1, hm, (h1 rfl).2.1⟩

/-- TLS inside a tunnel is set up under the destination's name (brackets of an IP literal and a
trailing dot removed), after the CONNECT for that destination on the same socket was answered 200;
and a request is only sent inside the tunnel after that handshake verified (`originCertOk`). -/
theorem C09_inner_tls_name (cfg : Cfg) (script : List Script) (reqs : List Req) (pre post : List Event) :
    (∀ sid sni i, trace cfg script reqs = pre ++ .tlsOrigin sid sni i :: post →
      ∃ r ∈ reqs, r.scheme = .https ∧ sni = sniOf (lower r.host) ∧ i = (cfg.proxyScheme == .https) ∧
        (scriptAt script sid).status = .ok ∧
        ∃ chs, Event.connect sid (hostPort r.nhost r.effPort) chs ∈ pre) ∧
    (∀ sid m tgt hs, trace cfg script reqs = pre ++ .request sid true m tgt hs :: post →
      ∃ r ∈ reqs, tgt = r.path ∧
        Event.tlsOrigin sid (sniOf (lower r.host)) (cfg.proxyScheme == .https) ∈ pre ∧
        (scriptAt script sid).originCertOk = true) := by
  constructor
  · intro sid sni i ht
    obtain ⟨r, hr, htq, h1, h2, h3, h4⟩ := (trace_spec cfg script reqs).2 _ _ _ ht
    exact ⟨r, hr, ((regime cfg r).1 htq).2.2.1, h1, h2, h3, h4⟩
  · intro sid m tgt hs ht
    obtain ⟨r, hr, _, _, _, _, _, h1, _⟩ := (trace_spec cfg script reqs).2 _ _ _ ht
    obtain ⟨a, _, c, _, e, _⟩ := h1 rfl
    exact ⟨r, hr, a, c, e⟩

/-- Proxy headers are confined to messages addressed to the proxy: every header of a request
inside a tunnel is either generated by `HTTPConnection.request` itself (`Host`, `Accept-Encoding`,
`Content-Length`, `User-Agent`) or was asked for by the caller of that very request. -/
theorem C09_proxy_headers_confined (cfg : Cfg) (script : List Script) (reqs : List Req)
    (pre post : List Event) (sid : Nat) (m tgt : Str) (hs : Dict)
    (ht : trace cfg script reqs = pre ++ .request sid true m tgt hs :: post) :
    ∃ r ∈ reqs, ∀ h ∈ hs, h.1 ∈ autoNames ∨ h ∈ userHeaders cfg r := by
  obtain ⟨r, hr, _, _, _, _, _, h1, _⟩ := (trace_spec cfg script reqs).2 _ _ _ ht
  exact ⟨r, hr, (h1 rfl).2.2.2.2.2⟩

/-- … hence, when no caller passes a proxy header of its own and no proxy header is named like an
automatic header, no proxy header (e.g. `Proxy-Authorization`) ever shows up inside a tunnel. -/
theorem C09_proxy_headers_never_in_tunnel (cfg : Cfg) (script : List Script) (reqs : List Req)
    (hdisj : ∀ h ∈ cfg.proxyHeaders, h.1 ∉ autoNames ∧ ∀ r ∈ reqs, h ∉ userHeaders cfg r)
    (pre post : List Event) (sid : Nat) (m tgt : Str) (hs : Dict)
    (ht : trace cfg script reqs = pre ++ .request sid true m tgt hs :: post) :
    ∀ h ∈ hs, h ∉ cfg.proxyHeaders := by
  obtain ⟨r, hr, hall⟩ := C09_proxy_headers_confined cfg script reqs pre post sid m tgt hs ht
  intro h hh hp
  rcases hall h hh with h1 | h1
  · exact (hdisj h hp).1 h1
  · exact (hdisj h hp).2 r hr h1

/-- No request is ever carried by a socket on which the proxy failed its own verification, whose
CONNECT was not answered 200, or (inside the tunnel) whose origin failed verification. -/
theorem C09_refused_no_request (cfg : Cfg) (script : List Script) (reqs : List Req)
    (pre post : List Event) (sid : Nat) (tun : Bool) (m tgt : Str) (hs : Dict)
    (ht : trace cfg script reqs = pre ++ .request sid tun m tgt hs :: post) :
    (cfg.proxyScheme = .https → (scriptAt script sid).proxyCertOk = true) ∧
    (tun = true → (scriptAt script sid).status = .ok ∧ (scriptAt script sid).originCertOk = true) := by
  obtain ⟨r, hr, _, _, hc, _, _, h1, _⟩ := (trace_spec cfg script reqs).2 _ _ _ ht
  exact ⟨hc, fun h => ⟨(h1 h).2.2.2.1, (h1 h).2.2.2.2.1⟩⟩

/-- After any history, for any next request `r`: if the socket opened last for it was refused —
the proxy failed verification (`ProxyError(SSLError)`) or answered the CONNECT with a well-formed
non-200 status (`ProxyError(OSError)`) — then no request at all was sent while serving `r` and
the outcome is that `ProxyError`, raised directly or as the reason of `MaxRetryError`. -/
theorem C09_refused_raises_proxy_error (cfg : Cfg) (script : List Script) (reqs : List Req) (r : Req) (sid : Nat)
    (hlast : lastTcp (managerRequest cfg script (finalState cfg script St.init reqs) r).1 = some sid)
    (href : (cfg.proxyScheme = .https ∧ (scriptAt script sid).proxyCertOk = false) ∨
            (requiresTunnel (some cfg.proxyScheme) cfg.fwd (some r.scheme) = true ∧
              ∃ c, (scriptAt script sid).status = .refused c)) :
    (∀ x ∈ (managerRequest cfg script (finalState cfg script St.init reqs) r).1, isRequest x = false) ∧
    ((managerRequest cfg script (finalState cfg script St.init reqs) r).2.1 ∈
      [Outcome.raised .proxySSL, .raised .proxyOS, .maxRetry .proxySSL, .maxRetry .proxyOS]) := by
  obtain ⟨_, _, hout⟩ := managerRequest_spec (trace_spec cfg script reqs).1 r
  have hne : ∃ e, openErr cfg r (scriptAt script sid) = some e ∧ (e = .proxySSL ∨ e = .proxyOS) := by
    rcases href with ⟨h1, h2⟩ | ⟨h1, c, h2⟩
    · exact ⟨.proxySSL, by simp [openErr, h1, h2], Or.inl rfl⟩
    · rw [mgr_tunnel] at h1
      by_cases hp : cfg.proxyScheme = .https ∧ (scriptAt script sid).proxyCertOk = false
      · exact ⟨.proxySSL, by simp [openErr, hp], Or.inl rfl⟩
      · exact ⟨.proxyOS, by simp [openErr, hp, h1, h2], Or.inr rfl⟩
  obtain ⟨e, he, hcls⟩ := hne
  rcases hout with ⟨_, _, hl⟩ | ⟨e', sid', ho, hnr, hl, hoe⟩
  · rw [hl sid hlast] at he; cases he
  · rw [hlast] at hl
    injection hl with hl
    subst hl
    rw [he] at hoe
    injection hoe with hoe
    subst hoe
    refine ⟨hnr, ?_⟩
    rcases ho with ho | ho <;> rcases hcls with hc | hc <;> simp [ho, hc]

/-- After any history, for any next request: an error outcome means that no request was sent, and
the error is exactly what the environment did to the socket opened last (proxy verification
failure → `ProxyError(SSLError)`, CONNECT refused → `ProxyError(OSError)`, unparsable CONNECT reply
→ `ProtocolError`, origin verification failure → `SSLError`); a response means a request was sent. -/
theorem C09_outcome_explained (cfg : Cfg) (script : List Script) (reqs : List Req) (r : Req) :
    OutOK cfg script r (managerRequest cfg script (finalState cfg script St.init reqs) r).1
      (managerRequest cfg script (finalState cfg script St.init reqs) r).2.1 :=
  (managerRequest_spec (trace_spec cfg script reqs).1 r).2.2

/-- A pooled connection that was closed is never used again: the socket that carries a request has
not been closed by the server before, was opened to the proxy earlier in the trace, and — for a
request inside a tunnel — got its own CONNECT (so after a tunnel was closed, the next request is
preceded by a new TCP connection and a new CONNECT). -/
theorem C09_retunnel_after_close (cfg : Cfg) (script : List Script) (reqs : List Req)
    (pre post : List Event) (sid : Nat) (tun : Bool) (m tgt : Str) (hs : Dict)
    (ht : trace cfg script reqs = pre ++ .request sid tun m tgt hs :: post) :
    Event.serverClose sid ∉ pre ∧ Event.tcp sid cfg.proxyHost cfg.proxyPort ∈ pre ∧
    (tun = true → ∃ r ∈ reqs, ∃ chs, Event.connect sid (hostPort r.nhost r.effPort) chs ∈ pre) := by
  obtain ⟨r, hr, h1, h2, _, _, _, h3, _⟩ := (trace_spec cfg script reqs).2 _ _ _ ht
  exact ⟨h1, h2, fun h => ⟨r, hr, (h3 h).2.1⟩⟩

/-! ## non-vacuity: concrete histories in which the hypotheses above are met -/

/-- HTTPS proxy, `Proxy-Authorization`, no forwarding -/
private def cfgT : Cfg :=
  ⟨.https, lit "px", 3128, false, [(lit "Proxy-Authorization", lit "Basic abc")], [], lit "ua"⟩
/-- two requests to `https://[::1]:8443/x`, the server closes the tunnel after the first -/
private def rT (close : Bool) : Req :=
  ⟨.get, .https, lit "[::1]", some 8443, lit "/x", some [(lit "X-App", lit "1")], none, none, close⟩
private def reqsT : List Req := [rT true, rT false]
/-- the same proxy with forwarding opted into -/
private def cfgF : Cfg := { cfgT with fwd := true }

private def isTunnelReq : Event → Bool
  | .request _ true _ _ _ => true
  | _ => false
private def isFwdReq : Event → Bool
  | .request _ false _ _ _ => true
  | _ => false
private def isConnect : Event → Bool
  | .connect .. => true
  | _ => false
private def isTlsOrigin : Event → Bool
  | .tlsOrigin .. => true
  | _ => false

/-- the trace of the tunnelled history contains requests inside a tunnel, CONNECTs, inner TLS
handshakes (hypotheses of `C09_request_forms`, `C09_connect_target_exact`, `C09_inner_tls_name`,
`C09_proxy_headers_confined`, `C09_refused_no_request`, `C09_retunnel_after_close`, …) -/
example : ∃ pre e post, trace cfgT [] reqsT = pre ++ e :: post ∧ isTunnelReq e = true :=
  exists_split_of_any _ _ (by decide)
example : ∃ pre e post, trace cfgT [] reqsT = pre ++ e :: post ∧ isConnect e = true :=
  exists_split_of_any _ _ (by decide)
example : ∃ pre e post, trace cfgT [] reqsT = pre ++ e :: post ∧ isTlsOrigin e = true :=
  exists_split_of_any _ _ (by decide)
/-- … and with forwarding opted in, requests in absolute-form to the proxy -/
example : ∃ pre e post, trace cfgF [] reqsT = pre ++ e :: post ∧ isFwdReq e = true :=
  exists_split_of_any _ _ (by decide)
/-- the second request of the tunnelled history really is on a new socket with its own CONNECT
(`[::1]:8443`, brackets kept), after the server closed the first one -/
example : (trace cfgT [] reqsT).map (fun e => match e with
      | .tcp s _ _ => (0, s) | .tlsProxy s _ => (1, s) | .connect s _ _ => (2, s) | .tlsOrigin s _ _ => (3, s)
      | .request s _ _ _ _ => (4, s) | .serverClose s => (5, s))
    = [(0, 0), (1, 0), (2, 0), (3, 0), (4, 0), (5, 0), (0, 1), (1, 1), (2, 1), (3, 1), (4, 1)] := by decide
example : Event.connect 1 (lit "[::1]:8443")
    [(lit "Proxy-Authorization", lit "Basic abc"), (lit "Host", lit "[::1]:8443")] ∈ trace cfgT [] reqsT := by decide
/-- the disjointness hypothesis of `C09_proxy_headers_never_in_tunnel` holds for this history -/
example : ∀ h ∈ cfgT.proxyHeaders, h.1 ∉ autoNames ∧ ∀ r ∈ reqsT, h ∉ userHeaders cfgT r := by decide
/-- `C09_refused_raises_proxy_error`: CONNECT answered 407 on the re-tunnel of the second request -/
example : lastTcp (managerRequest cfgT [Script.good, ⟨true, .refused 407, true⟩]
      (finalState cfgT [Script.good, ⟨true, .refused 407, true⟩] St.init [rT true]) (rT false)).1 = some 1 ∧
    (requiresTunnel (some cfgT.proxyScheme) cfgT.fwd (some (rT false).scheme) = true ∧
      ∃ c, (scriptAt [Script.good, ⟨true, .refused 407, true⟩] 1).status = .refused c) :=
  ⟨by decide, by decide, 407, by decide⟩
example : (managerRequest cfgT [Script.good, ⟨true, .refused 407, true⟩]
      (finalState cfgT [Script.good, ⟨true, .refused 407, true⟩] St.init [rT true]) (rT false)).2.1
    = .raised .proxyOS := by decide
/-- retries: refused twice, budget 1 → `MaxRetryError(reason=ProxyError)` -/
example : (managerRequest cfgT [⟨true, .refused 403, true⟩, ⟨false, .ok, true⟩] St.init
      { rT false with retries := some 1 }).2.1 = .maxRetry .proxySSL := by decide +kernel
/-- the reading recorded in notes/C09.md: an unparsable CONNECT reply is a `ProtocolError`, and no
request is sent -/
example : (managerRequest cfgT [⟨true, .garbage, true⟩] St.init (rT false)).2.1 = .raised .protocol ∧
    (managerRequest cfgT [⟨true, .garbage, true⟩] St.init (rT false)).1.all (fun e => !isRequest e) = true := by
  decide

end U3.Props
