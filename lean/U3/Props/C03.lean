import U3.Model.Pool
import U3.Lemmas.Pool
import U3.Lemmas.PoolProv
import U3.Lemmas.PoolLink
/-! # C03 — a response only ever contains bytes sent in reply to its own request

All theorems are about `U3.Pool.step` / `U3.Pool.run` (the definitions the driver `u3-pool` runs), for
every history `ops : List Op` (requests with arbitrary server scripts, caller behaviours, pool
closes), every pool size and blocking mode.  The invariant behind them is `U3.Pool.Prov`
(`lean/U3/Lemmas/PoolProv.lean`).
-/
namespace U3.Props
open U3 U3.Pool

/-- the server's reaction to request `rid` carries that request's tag on every head byte, payload byte
and framing byte of the chunked coding, and `stray` on everything unsolicited (by construction of
`serverCells`); what it sends at once and what it holds back until the next request arrives are,
together, exactly that reaction — the held-back tail keeps the tag of the *old* request -/
theorem C03_server_tags (rid : Nat) (a : Attempt) :
    (∀ c ∈ serverCells rid a, cellTag c = .req rid ∨ cellTag c = .stray) ∧
    serverNow rid a ++ serverHeld rid a = serverCells rid a :=
  ⟨serverCells_tags rid a, serverNow_held rid a⟩

/-- **Unconditional form.**  After any history, from any initial pool, whatever the caller did with
earlier responses (read, partial read, early release, drain, close, drop, stream), whatever the
server scripts were (any framing, chunked or not, any chunk sizes and trailer sections, any tail of
a reply held back and delivered late, when the next request arrives on that connection): everything
a response has delivered is a prefix of what the server sent in reaction to one attempt of *that
response's own request* — for a chunked reply a prefix of its de-chunked payload, otherwise a prefix
of the bytes that follow the head — never a byte of another request's reply, never a byte the server
held back for an earlier request, and never more than the length `http.client` derived from that
reply's head. -/
theorem C03_prefix_of_own_sent (ops : List Op) (n : Nat) (block proxy : Bool) :
    ∀ r ∈ (run (init n block proxy) ops).resps,
      r.delivered = [] ∨
      ∃ a h, Scripted ops r.rid a ∧ a.head = some h ∧ r.delivered <+: deliverable r.rid a h ∧
        ∀ l, lenBound h r.isHead = some l → r.delivered.length ≤ l := by
  intro r hr
  obtain ⟨i, hi⟩ := List.getElem?_of_mem hr
  rcases (run_prov ops n block proxy).resp i r hi with ⟨_, h, _⟩ | ⟨a, h, fr⟩
  · exact Or.inl h
  · exact Or.inr ⟨a, h, fr.att, fr.head, fr.dpre, fr.dlen⟩

/-- **The property as stated** (`DESIGN.md` App. E): if the server scripts call `stray` only bytes
that lie beyond the declared end of a reply (`WellFramed`: no stray bytes, or a chunked reply — the
chunked coding delimits itself —, or a 1xx/204/304 reply, or `Content-Length ≤` the body sent; for a
read-until-close reply "stray" bytes *are* body), then for every history — chunked framing, trailer
sections and tails of replies that the server holds back and delivers late included — every byte
delivered for a response carries the tag of that response's own request, and the delivered bytes are
a prefix of the body (the de-chunked payload) the server sent for one attempt of that request.
No hypothesis on the caller: the known finding (`known_findings/C03.json`) does not produce foreign
bytes in the model (late arrival of the rest of an abandoned body is kernel timing, DESIGN **P**); it
violates the *second* clause of the property, see `C03_released_unread_witness`. -/
theorem C03_prefix_of_own_reply (ops : List Op) (n : Nat) (block proxy : Bool)
    (hfr : ∀ rid a, Scripted ops rid a → WellFramed a) :
    ∀ r ∈ (run (init n block proxy) ops).resps,
      ownBytes r = true ∧
      (r.delivered = [] ∨ ∃ a, Scripted ops r.rid a ∧ r.delivered <+: a.body.map (Cell.body (.req r.rid))) := by
  intro r hr
  rcases C03_prefix_of_own_sent ops n block proxy r hr with h | ⟨a, h, hs, hh, hp, hl⟩
  · exact ⟨by simp [ownBytes, h], Or.inl h⟩
  · have := prefix_body_of_framed (hfr _ _ hs) hh hp hl
    exact ⟨ownBytes_of_prefix this, Or.inr ⟨a, hs, this⟩⟩

/-- a `Content-Length: 2` reply followed by 3 stray bytes / a 204 followed by a stray byte -/
def strayAfterBody : Attempt :=
  { head := some { status := 200, close := false, cl := some 2, location := false, retryAfter := false },
    body := [1, 2], stray := [7, 7, 7] }
def strayAfter204 : Attempt :=
  { head := some { status := 204, close := false, cl := none, location := false, retryAfter := false }, stray := [9] }

/-- a chunked reply (chunks of 2 and 1 bytes, two trailer fields) followed by 2 stray bytes, the last 9
bytes of all that held back by the server until the next request arrives -/
def chunkedHeld : Attempt :=
  { head := some { status := 200, close := false, cl := none, location := false, retryAfter := false, chunked := true },
    body := [1, 2, 3], sizes := [2, 1], trailers := [3, 4], stray := [7, 7], hold := 9 }

/-- non-vacuity: a history with stray bytes after a `Content-Length` reply, after a 204 and after a
chunked reply whose tail is held back satisfies the framing hypothesis -/
example : ∀ rid a, Scripted [.request 0 {} (.count 2) [strayAfterBody], .dispose 0 .readAll,
    .request 1 {} .off [strayAfter204], .request 2 {} .off [chunkedHeld]] rid a → WellFramed a := by
  intro rid a ⟨rc, rt, script, hm, ha⟩
  simp at hm
  rcases hm with ⟨_, _, _, rfl⟩ | ⟨_, _, _, rfl⟩ | ⟨_, _, _, rfl⟩
  · simp at ha; subst ha
    exact Or.inr ⟨_, rfl, Or.inr (Or.inr ⟨2, rfl, by simp [strayAfterBody]⟩)⟩
  · simp at ha; subst ha
    exact Or.inr ⟨_, rfl, Or.inr (Or.inl (Or.inl rfl))⟩
  · simp at ha; subst ha
    exact Or.inr ⟨_, rfl, Or.inl rfl⟩

/-- stray bytes after a body-less reply (HEAD, 1xx, 204, 304) never reach the response they follow:
in every reachable state such a response has delivered nothing (and by `C03_prefix_of_own_sent` no
*other* response can deliver them either: a response only delivers bytes of its own request's
reply).  No hypothesis on the history; the reply is one that is not chunked, or a reply to `HEAD`
(`http.client` looks at `Transfer-Encoding: chunked` before it looks at the status: a chunked 204 is
read as a chunked body — bytes of that very reply, see `C03_prefix_of_own_sent`). -/
theorem C03_bodyless_stray_discarded (ops : List Op) (n : Nat) (block proxy : Bool) :
    ∀ r ∈ (run (init n block proxy) ops).resps, noBody r.status r.isHead = true →
      (r.chunked = false ∨ r.isHead = true) → r.delivered = [] := by
  intro r hr hnb hc
  obtain ⟨i, hi⟩ := List.getElem?_of_mem hr
  rcases (run_prov ops n block proxy).resp i r hi with ⟨_, h, _⟩ | ⟨a, h, fr⟩
  · exact h
  · have hb : lenBound h r.isHead = some 0 := by
      have hch : (h.chunked && !r.isHead) = false := by
        rcases hc with hc | hc
        · rw [← fr.ch, hc]; rfl
        · rw [hc]; simp
      simp [lenBound, hch, initLength, ← fr.st, hnb]
    have := fr.dlen 0 hb
    exact List.eq_nil_of_length_eq_zero (by omega)

/-- non-vacuity: a 204 followed by a stray byte, read to the end — a body-less reply that is not chunked -/
example :
    let s := run (init 1 false) [.request 0 { preload := false, release := false } .off [strayAfter204], .dispose 0 .readAll]
    (s.resps.map fun r => (noBody r.status r.isHead, r.chunked, r.delivered)) = [(true, false, [])] := by
  decide

/-- … and under the framing hypothesis no stray byte is ever delivered to anybody -/
theorem C03_stray_never_delivered (ops : List Op) (n : Nat) (block proxy : Bool)
    (hfr : ∀ rid a, Scripted ops rid a → WellFramed a) :
    ∀ r ∈ (run (init n block proxy) ops).resps, ∀ c ∈ r.delivered, cellTag c ≠ .stray := by
  intro r hr c hc
  have := (C03_prefix_of_own_reply ops n block proxy hfr r hr).1
  unfold ownBytes at this
  rw [List.all_eq_true] at this
  have := this c hc
  intro h; rw [h] at this; simp at this

/-- **Checkout probe** (`_get_conn` + `is_connection_dropped`): if the connection on top of the queue
has unread bytes or EOF pending on its socket `k`, checkout returns that connection *closed*, and
whatever request is then made on it goes out on a socket that did not exist at checkout — the dirty
socket is never used again. -/
theorem C03_dirty_never_yields {s : State} {c k : Nat} {cn : Conn} {rest : List (Option Nat)}
    (hopen : s.closed = false) (hq : s.queue = some c :: rest) (hc : s.conns[c]? = some cn) (hk : cn.sock = some k)
    (hdirty : sockReadable s k = true) :
    (getConn s).2 = .ok c ∧
    (∀ cn', (getConn s).1.conns[c]? = some cn' → cn'.sock = none) ∧
    ∀ rid a s2 k', connRequest (getConn s).1 c rid a = (s2, .ok k') → s.socks.length ≤ k' := by
  have hdrop : isDropped { s with queue := rest } c = true := by
    show isDropped { s with queue := rest } c = true
    unfold isDropped
    have : ({ s with queue := rest } : State).conns[c]? = some cn := hc
    simp only [this, hk]
    exact hdirty
  have hg : getConn s = (connClose { s with queue := rest } c, .ok c) := by
    unfold getConn
    rw [if_neg (by simp [hopen])]
    simp only [hq]
    rw [if_pos hdrop]
  rw [hg]
  refine ⟨rfl, fun cn' h => connClose_sock_none _ _ _ h, ?_⟩
  intro rid a s2 k' hcr
  -- the connection is closed: `conn.request` has to connect
  dsimp only at hcr
  generalize hs1 : connClose { s with queue := rest } c = s1 at hcr
  have hsock1 : s1.socks = s.socks := by rw [← hs1, connClose_socks]
  have hnone : ∀ cn', s1.conns[c]? = some cn' → cn'.sock = none := by
    intro cn' h; rw [← hs1] at h; exact connClose_sock_none _ _ _ h
  unfold connRequest at hcr
  obtain ⟨fr, fs, fo, fc, fn⟩ := forget_fields s1 c
  generalize forgetClosedPending s1 c = sF at hcr fr fs fo fc fn
  dsimp only at hcr
  split at hcr
  · cases hcr
  · rename_i cnF hcnF
    have hsF : cnF.sock = none := by
      cases h1 : s1.conns[c]? with
      | none => rw [fn h1] at hcnF; cases hcnF
      | some cn1 =>
        obtain ⟨cn'', g1, g2, _⟩ := fc cn1 h1
        rw [g1] at hcnF; cases hcnF
        rw [g2]; exact hnone cn1 h1
    split at hcr
    · cases hcr
    · simp only [hsF] at hcr
      unfold connect at hcr
      cases hcon : a.connect <;> simp only [hcon] at hcr
      · -- connected: the socket is `socks.length`
        cases hse : sendExc a.send <;> simp only [hse] at hcr
        · cases hcr
          show s.socks.length ≤ (setConn sF c _).socks.length
          simp [setConn, fs, hsock1]
        · cases hcr
      all_goals (cases hcr)

/-- non-vacuity: a keep-alive reply followed by stray bytes, released after the declared body was
read — the idle connection on top of the queue has unread bytes pending -/
example :
    let s := run (init 1 false) [.request 0 { preload := false, release := false } .off
        [{ head := some { status := 200, close := false, cl := some 2, location := false, retryAfter := false },
           body := [1, 2], stray := [7, 7], seg := 3 }], .dispose 0 .readAll]
    s.closed = false ∧ s.queue = [some 0] ∧ (s.conns[0]?.map (·.sock)) = some (some 0) ∧ sockReadable s 0 = true := by
  decide

/-- the model reproduces the known finding (`known_findings/C03.json`, signature
`dirty-connection-yielded-response:released-before-body-read`): `urlopen(preload_content=False,
release_conn=True)` answered with `Content-Length: 9` and 3 body bytes, `response.close()`, next
request.  The connection went back to the pool while its response was unread; `close()` then only
closed the reader; the second request is written to and answered on the *same* socket 0 (one
`connect`, two `send`s), although 6 declared bytes of reply 0 are still outstanding
(`length = some 9` on the closed response) — the second clause of the property ("a connection whose
previous exchange did not end cleanly never yields a response") is false on this tree.  The bytes
delivered for request 1 are its own (`C03_prefix_of_own_reply` holds): the late arrival of the rest
of reply 0 is kernel timing, outside the model. -/
theorem C03_released_unread_witness :
    let a0 : Attempt := { head := some { status := 200, close := false, cl := some 9, location := false, retryAfter := false },
                          headLen := 37, body := [1, 2, 3] }
    let a1 : Attempt := { head := some { status := 200, close := false, cl := some 5, location := false, retryAfter := false },
                          headLen := 37, body := [11, 12, 13, 14, 15] }
    let early : ReqCfg := { preload := false, release := true }
    let s := run (init 1 false) [.request 0 early .off [a0], .dispose 0 .close]
    let s' := (step s (.request 1 early .off [a1])).1
    -- response 0 is closed with 9 declared bytes outstanding, its connection idles in the pool, connected
    (s.resps.map fun r => (r.fp, r.length)) = [(none, some 9)] ∧ s.queue = [some 0] ∧
    (s.conns.map (·.sock)) = [some 0] ∧
    -- the next request is answered on the same socket: no second `connect`
    (match (step s (.request 1 early .off [a1])).2 with | .result (.resp r) => r == 1 | _ => false) = true ∧
    s'.log = [.connect 0, .send 0, .recv 0, .put (some 0), .send 0, .recv 0, .put (some 0)] ∧
    (s'.resps.map (·.fp)) = [none, some 0] := by
  decide

/-! ### the second clause: "a connection whose previous exchange did not end cleanly never yields a
response" — false on this tree in general (`C03_released_unread_witness`), true for every history
that does not release a connection while its response is unread -/

/-- **Partial** (full statement: the same without `hne`; it is false, see
`C03_released_unread_witness`).  In every state reachable by a history without early release
(`NoEarlyOp`: no `release_conn=True` together with `preload_content=False`, no `release_conn()` /
`read(k)+release_conn()` by the caller — everything else is allowed: partial reads, `close()`,
dropping responses, draining, streaming, closing the pool, any server script): for every *connected*
connection `c` whose last response (`http.client`'s `__response`) is `r`,
* if `r` is closed then its exchange is over (`Done`: read to its declared end, `length_remaining = 0`;
  for a chunked reply: a chunk parser has read the empty line that ends the trailer section, or has
  hit EOF while discarding it — see `C03_chunked_incomplete_never_reusable_partial`), and
* if `r` is still open then it reads from `c`'s socket and holds `c` (`_connection = c`), so every way
  of abandoning `r` — `close()`, a failed read, garbage collection — closes `c`.
Hence no connection with an unfinished exchange is ever idle in the pool. -/
theorem C03_unclean_never_yields_partial (ops : List Op) (n : Nat) (block proxy : Bool)
    (hne : ∀ op ∈ ops, NoEarlyOp op) :
    ∀ (c : Nat) (cn : Conn) (k r : Nat) (rs : Resp), (run (init n block proxy) ops).conns[c]? = some cn → cn.sock = some k →
      cn.pending = some r → (run (init n block proxy) ops).resps[r]? = some rs →
      (rs.fp = none → Done rs) ∧ (rs.fp ≠ none → rs.fp = some k ∧ rs.conn = some c) := by
  intro c cn k r rs h1 h2 h3 h4
  obtain ⟨_, q2, q3⟩ := (run_link ops n block proxy hne).pend c cn k r rs h1 h2 h3 h4
  have q3' := q3 (by intro e; cases e)
  simp only [reduceCtorEq, if_false] at q3'
  refine ⟨q3'.1, fun hn => ⟨?_, q3'.2 hn⟩⟩
  cases hfp : rs.fp with
  | none => exact absurd hfp hn
  | some k' => rw [q2 k' (Or.inl hfp)]


/-- **A chunked exchange whose trailer section was not completely received never leaves a reusable
connection** (partial: the same hypothesis as `C03_unclean_never_yields_partial`, the full statement is
false for the same reason, `C03_released_unread_witness`).  In every state reachable by a history
without early release, with arbitrary server scripts (chunk sizes, trailer sections, tails of replies
held back and delivered late): if a *connected* connection (socket `k`) has a closed chunked response
(not a reply to `HEAD`) as its last response `r`, then
* one of the two chunk parsers — urllib3's `read_chunked` or `http.client`'s `_read_chunked` — has read
  the empty line that ends the message (`eom`), or
* the peer's FIN is pending on socket `k` (`sockReadable`): the parser stopped discarding the trailer
  section because it hit EOF, the FIN has been pending ever since, and the checkout probe
  (`C03_dirty_never_yields`) will discard the connection instead of reusing it.
A parser that stops earlier — after the last-chunk line, after the first trailer line (the seeded
defect `seeded/C03-m4`) — would leave a connected, not readable connection with `eom = false` behind. -/
theorem C03_chunked_incomplete_never_reusable_partial (ops : List Op) (n : Nat) (block proxy : Bool)
    (hne : ∀ op ∈ ops, NoEarlyOp op) :
    ∀ (c : Nat) (cn : Conn) (k r : Nat) (rs : Resp), (run (init n block proxy) ops).conns[c]? = some cn → cn.sock = some k →
      cn.pending = some r → (run (init n block proxy) ops).resps[r]? = some rs →
      rs.chunked = true → rs.isHead = false → rs.fp = none →
      rs.eom = true ∨ sockReadable (run (init n block proxy) ops) k = true := by
  intro c cn k r rs h1 h2 h3 h4 hch hnh hfp
  obtain ⟨_, q2, q3⟩ := (run_link ops n block proxy hne).pend c cn k r rs h1 h2 h3 h4
  have q3' := q3 (by intro e; cases e)
  simp only [reduceCtorEq, if_false] at q3'
  have hd := q3'.1 hfp
  rw [done_chunked hch hnh] at hd
  rcases hd with hd | hd
  · exact Or.inl hd
  · right
    cases he : rs.eofAt with
    | none => rw [he] at hd; cases hd
    | some k' =>
      have hk' : k' = k := q2 k' (Or.inr he)
      subst hk'
      obtain ⟨_, hf⟩ := (run_prov ops n block proxy).eofB r rs k' h4 he
      rcases hf with ⟨sk, g1, g2⟩ | hf
      · unfold sockReadable; rw [g1]; simp [g2]
      · exact absurd h2 (hf c cn h1)

/-- non-vacuity: streaming a chunked reply with two trailer fields to its end leaves the connection
connected, idle in the pool, with a closed chunked `__response` — and `eom` set -/
example :
    let hc : Head := { status := 200, close := false, cl := none, location := false, retryAfter := false, chunked := true }
    let a0 : Attempt := { head := some hc, headLen := 3, body := [1, 2, 3], sizes := [2, 1], trailers := [2, 2] }
    let s := run (init 1 false) [.request 0 { preload := false, release := false } .off [a0], .dispose 0 (.stream 7)]
    s.queue = [some 0] ∧ (s.conns.map fun x => (x.sock, x.pending)) = [(some 0, some 0)] ∧
    (s.resps.map fun x => (x.fp, x.chunked, x.isHead, x.eom, x.delivered.length)) = [(none, true, false, true, 3)] := by
  decide

/-- when a trailer loop ends without having seen the empty line, it ended at EOF, and the peer's FIN is
pending on the socket at that moment: the connection is "readable", which is what the checkout probe
(`C03_dirty_never_yields`) looks at.  (Both loops: urllib3's and `http.client`'s.) -/
theorem C03_trailer_eof_pending (r k fuel : Nat) (s s' : State) (hex : ∃ rs : Resp, s.resps[r]? = some rs)
    (hne : ∀ rs' : Resp, s'.resps[r]? = some rs' → rs'.eom = false) :
    (skipTrailers fuel s r k = (s', none) → sockReadable s' k = true) ∧
    (hcDiscardTrailer fuel s r k = (s', none) → sockReadable s' k = true) :=
  ⟨fun h => skipTrailers_eof r k fuel s s' h hex hne, fun h => hcDiscardTrailer_eof r k fuel s s' h hex hne⟩

/-- non-vacuity: a chunked reply whose server closes the connection in the middle of the trailer
section — `stream()` ends cleanly at EOF (`eof`), the connection goes back to the pool connected, and the
socket is readable (FIN pending) -/
example :
    let hc : Head := { status := 200, close := false, cl := none, location := false, retryAfter := false, chunked := true }
    let a0 : Attempt := { head := some hc, headLen := 3, body := [1, 2, 3], sizes := [3], trailers := [2, 2], hold := 6, after := .fin }
    let s := run (init 1 false) [.request 0 { preload := false, release := false } .off [a0], .dispose 0 (.stream 7)]
    s.queue = [some 0] ∧ (s.conns.map fun x => x.sock) = [some 0] ∧
    (s.resps.map fun x => (x.fp, x.eom, x.eofAt)) = [(none, false, some 0)] ∧ sockReadable s 0 = true := by
  decide

/-- the scenario of the seeded defect `seeded/C03-m4` on the model of the unmodified code: request 0 is
answered with a chunked body and two trailer fields; the server sends the last-chunk line and the
first trailer field at once and holds back the rest of the trailer section (6 bytes) until the next
request arrives.  `b"".join(r.stream(7))` reads the three payload bytes, then waits for the rest of the
trailer section: `ReadTimeoutError`, the connection is closed (`close 0`) before it goes back to the
pool, and request 1 is made on a fresh socket (`connect 1`) — the 6 held-back bytes are never
delivered to anybody (they are still held for the dead socket 0). -/
theorem C03_held_trailer_closes_connection :
    let hc : Head := { status := 200, close := false, cl := none, location := false, retryAfter := false, chunked := true }
    let a0 : Attempt := { head := some hc, headLen := 3, body := [1, 2, 3], sizes := [3], trailers := [2, 2], hold := 6 }
    let h1 : Head := { status := 200, close := false, cl := some 2, location := false, retryAfter := false }
    let a1 : Attempt := { head := some h1, headLen := 3, body := [8, 9] }
    let cfg : ReqCfg := { preload := false, release := false }
    let s := run (init 1 false) [.request 0 cfg .off [a0]]
    let st := step s (.dispose 0 (.stream 7))
    let s' := (step st.1 (.request 1 cfg .off [a1])).1
    -- the rest of the trailer section is held back
    (s.socks.map fun x => (x.inbound.length, x.held.length)) = [(0, 6)] ∧
    -- streaming fails, the connection is closed, response 0 never saw the end of the message
    (match st.2 with | .disp (.raised e) => e.cls == Gen.cU3ReadTimeoutError | _ => false) = true ∧
    (st.1.conns.map (·.sock)) = [none] ∧ (st.1.resps.map fun x => (x.fp, x.eom, x.eofAt)) = [(none, false, none)] ∧
    -- the next request goes out on a new socket
    s'.log = [.connect 0, .send 0, .recv 0, .recv 0, .close 0, .put (some 0), .connect 1, .send 1, .recv 1] ∧
    (s'.socks.map fun x => x.held.length) = [6, 0] := by
  decide

/-- … and therefore `getresponse()` yields a response on a connection only if that connection's
previous response (if `http.client` still remembers one) had been read to its end: an unread or
half-read previous response makes `getresponse()` raise `ResponseNotReady` instead. -/
theorem C03_yield_only_after_complete_partial (ops : List Op) (n : Nat) (block proxy : Bool)
    (hne : ∀ op ∈ ops, NoEarlyOp op) {c k k' rid r' : Nat} {rc : ReqCfg} {cn : Conn} {s' : State}
    (hc : (run (init n block proxy) ops).conns[c]? = some cn) (hk : cn.sock = some k')
    (hy : getResponse (run (init n block proxy) ops) c k rid rc = (s', .resp r')) :
    ∀ (r0 : Nat) (rs0 : Resp), cn.pending = some r0 → (run (init n block proxy) ops).resps[r0]? = some rs0 →
      rs0.fp = none ∧ Done rs0 := by
  intro r0 rs0 hp hr0
  have hcl : rs0.fp = none := by
    cases hfp : rs0.fp with
    | none => rfl
    | some k0 =>
      exfalso
      have hst : Settled (run (init n block proxy) ops) c := by
        intro cn1 r1 rs1 g1 g2 g3
        rw [hc] at g1; cases g1
        rw [hp] at g2; cases g2
        rw [hr0] at g3; cases g3
        simp [hfp]
      rw [getResponse_notReady hst hc (by simp [hp])] at hy
      cases hy
  exact ⟨hcl, (C03_unclean_never_yields_partial ops n block proxy hne c cn k' r0 rs0 hc hk hp hr0).1 hcl⟩

/-- non-vacuity: a history with a streamed response that is read partially and then closed, a
preloaded request and a drained one satisfies the hypothesis … -/
example : ∀ op ∈ [Op.request 0 { preload := false, release := false } (.count 2) [strayAfterBody], .dispose 0 (.readK 1),
    .dispose 0 .close, .request 1 {} .off [strayAfter204], .request 2 { preload := false, release := false } .off [strayAfterBody],
    .dispose 2 .drain, .closePool], NoEarlyOp op := by
  intro op hm
  simp only [List.mem_cons, List.mem_nil_iff, or_false] at hm
  rcases hm with rfl | rfl | rfl | rfl | rfl | rfl | rfl <;> simp [NoEarlyOp, NoEarlyCfg, NoEarlyHow]

/-- … and the history of the finding is exactly one that does not -/
example : ¬ NoEarlyOp (.request 0 { preload := false, release := true } .off []) := by
  simp [NoEarlyOp, NoEarlyCfg]

/-! ### requests rejected on the client side after the checkout (`ReqCfg.badHeader`)

`conn.request()` with a header value that `putheader` cannot encode raises between `putrequest()` and
`endheaders()`.  The headline theorems above quantify over every `ReqCfg`, so they cover histories that contain such
requests; the statements below say what the rejected request itself does. -/

/-- **Nothing of a rejected request is sent.**  `conn.request()` of a request whose header block cannot be encoded
(`connRequestH … true`): no socket is created or written to, nothing is logged (no `connect`, no `send`), no response
object comes into being, and the outcome is an exception that `_make_request` does not swallow — in every state. -/
theorem C03_rejected_request_sends_nothing (s : State) (c rid : Nat) (a : Attempt) :
    (connRequestH s c rid a true).1.socks = s.socks ∧ (connRequestH s c rid a true).1.log = s.log ∧
    (connRequestH s c rid a true).1.resps = s.resps ∧
    ∃ e, (connRequestH s c rid a true).2 = .error e ∧ sendSwallowed e = false := by
  have hf : (forgetClosedPending s c).socks = s.socks ∧ (forgetClosedPending s c).log = s.log ∧
      (forgetClosedPending s c).resps = s.resps := by
    unfold forgetClosedPending
    repeat' split
    all_goals exact ⟨rfl, rfl, rfl⟩
  obtain ⟨f1, f2, f3⟩ := hf
  show (connReject s c).1.socks = s.socks ∧ (connReject s c).1.log = s.log ∧ (connReject s c).1.resps = s.resps ∧
    ∃ e, (connReject s c).2 = .error e ∧ sendSwallowed e = false
  unfold connReject
  generalize forgetClosedPending s c = t at f1 f2 f3
  dsimp only
  split
  · exact ⟨f1, f2, f3, _, rfl, by decide⟩
  · split
    · exact ⟨f1, f2, f3, _, rfl, by decide⟩
    · exact ⟨f1, f2, f3, _, rfl, by decide⟩

example : (connRequestH (getConn (init 1 true)).1 0 7 {} true).2 = .error (exc Gen.cValueError) := rfl

/-- **A rejected request never yields a response** — from any state, for any server script, retry budget and pool
configuration (a retry of `CannotSendRequest` on a busy connection object meets the same header again): the caller
gets an exception, so no byte of anybody's reply is delivered for it. -/
theorem C03_rejected_request_yields_no_response (s : State) (rid : Nat) (rc : ReqCfg) (retries : Retry)
    (script : List Attempt) (hb : rc.badHeader = true) (r : Nat) :
    (request s rid rc retries script).2 ≠ .resp r :=
  request_rejected rid script s rc retries hb r

example : ({ badHeader := true } : ReqCfg).badHeader = true ∧
    (match (step (init 1 true) (.request 0 { badHeader := true } (.count 2) [{}, {}])).2 with
      | .result (.raised e) => e.cls == Gen.cValueError
      | _ => false) = true := by decide

/-- **… and the connection object it had checked out is thrown away.**  With a valid `timeout`, a successful checkout
of an idle connection object `c`: whatever the retry budget and the rest of the script, `urlopen` runs `discard`
(`conn.close()`, `_put_conn(None)`) on the state in which nothing was sent, and raises `putheader`'s `ValueError`
(or `FullPoolError` if `_put_conn` does).  The connection object — whose output buffer holds the request line of the
rejected request — never returns to the queue, so nothing of the rejected request can precede a later one. -/
theorem C03_rejected_request_discards_connection (s s1 : State) (rid c : Nat) (rc : ReqCfg) (retries : Retry)
    (a : Attempt) (rest : List Attempt) (cn : Conn) (hb : rc.badHeader = true) (hp : preflight rc a = none)
    (hg : getConnT s rc.badPoolTimeout = (s1, .ok c))
    (hc : (forgetClosedPending s1 c).conns[c]? = some cn) (hi : cn.http = .idle) :
    request s rid rc retries (a :: rest) =
      match discard (connReject s1 c).1 (some c) with
      | (s2, some e') => (s2, .raised e')
      | (s2, none) => (s2, .raised (exc Gen.cValueError)) := by
  have hm := makeRequest_rejected_eq s1 c rid a rc hb _ (connReject_idle s1 c cn hc hi) (by decide)
  unfold request
  rw [hp]
  dsimp only
  rw [hg]
  dsimp only
  rw [hm]
  dsimp only
  rw [show (exc Gen.cValueError).cls = Gen.cValueError from rfl, handleError_valueError]
  rfl

example : let s := run (init 1 true) [.request 0 {} .off [{ head := some { status := 200, close := false, cl := some 0, location := false, retryAfter := false } }]]
    let x := step { s with log := [] } (.request 1 { badHeader := true } (.count 2) [{}, {}])
    s.queue = [some 0] ∧ x.1.queue = [none] ∧ x.1.log = [.close 0, .put none] := by decide

end U3.Props
