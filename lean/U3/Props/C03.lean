import U3.Model.Pool
import U3.Lemmas.Pool
import U3.Lemmas.PoolProv
import U3.Lemmas.PoolLink
/-! # C03 — a response only ever contains bytes sent in reply to its own request

All theorems are about `U3.Pool.step` / `U3.Pool.run` (the definitions the driver `u3-pool` runs), for
every history `ops : List Op` (requests with arbitrary server scripts, caller behaviours, pool
closes), every pool size and blocking mode.  The invariant behind them is `U3.Pool.Prov`
(`lean/U3/Lemmas/PoolProv.lean`).
-/
namespace U3.Props
open U3 U3.Pool

/-- the server's reaction to request `rid` carries that request's tag on every head and body byte,
and `stray` on everything unsolicited (by construction of `serverCells`) -/
theorem C03_server_tags (rid : Nat) (a : Attempt) :
    ∀ c ∈ serverCells rid a, cellTag c = .req rid ∨ cellTag c = .stray := by
  intro c hc
  unfold serverCells at hc
  split at hc
  · simp at hc
  · simp only [List.mem_append, List.mem_replicate, List.mem_singleton, List.mem_map] at hc
    rcases hc with ((⟨_, rfl⟩ | rfl) | ⟨v, _, rfl⟩) | ⟨v, _, rfl⟩ <;> simp [cellTag]

/-- **Unconditional form.**  After any history, from any initial pool, whatever the caller did with
earlier responses (read, partial read, early release, drain, close, drop, stream) and whatever the
server scripts were: everything a response has delivered is a prefix of what the server sent, after
the head, in reaction to one attempt of *that response's own request* — never a byte of another
request's reply — and never more than the length `http.client` derived from that reply's head. -/
theorem C03_prefix_of_own_sent (ops : List Op) (n : Nat) (block proxy : Bool) :
    ∀ r ∈ (run (init n block proxy) ops).resps,
      r.delivered = [] ∨
      ∃ a h, Scripted ops r.rid a ∧ a.head = some h ∧ r.delivered <+: bodyCells r.rid a ∧
        ∀ l, initLength h r.isHead = some l → r.delivered.length ≤ l := by
  intro r hr
  obtain ⟨i, hi⟩ := List.getElem?_of_mem hr
  rcases (run_prov ops n block proxy).resp i r hi with ⟨_, h, _⟩ | ⟨a, h, fr⟩
  · exact Or.inl h
  · exact Or.inr ⟨a, h, fr.att, fr.head, fr.dpre, fr.dlen⟩

/-- **The property as stated** (`DESIGN.md` App. E): if the server scripts call `stray` only bytes
that lie beyond the declared end of a reply (`WellFramed`: no stray bytes, or a 1xx/204/304 reply, or
`Content-Length ≤` the body sent — for a read-until-close reply "stray" bytes *are* body), then for
every history every byte delivered for a response carries the tag of that response's own request,
and the delivered bytes are a prefix of the body the server sent for one attempt of that request.
No hypothesis on the caller: the known finding (`known_findings/C03.json`) does not produce foreign
bytes in the model (late arrival of the rest of an abandoned body is kernel timing, DESIGN **P**); it
violates the *second* clause of the property, see `C03_released_unread_witness`. -/
theorem C03_prefix_of_own_reply (ops : List Op) (n : Nat) (block proxy : Bool)
    (hfr : ∀ rid a, Scripted ops rid a → WellFramed a) :
    ∀ r ∈ (run (init n block proxy) ops).resps,
      ownBytes r = true ∧
      (r.delivered = [] ∨ ∃ a, Scripted ops r.rid a ∧ r.delivered <+: a.body.map (Cell.body (.req r.rid))) := by
  intro r hr
  rcases C03_prefix_of_own_sent ops n block proxy r hr with h | ⟨a, h, hs, hh, hp, hl⟩
  · exact ⟨by simp [ownBytes, h], Or.inl h⟩
  · have := prefix_body_of_framed (hfr _ _ hs) hh hp hl
    exact ⟨ownBytes_of_prefix this, Or.inr ⟨a, hs, this⟩⟩

/-- a `Content-Length: 2` reply followed by 3 stray bytes / a 204 followed by a stray byte -/
def strayAfterBody : Attempt :=
  { head := some { status := 200, close := false, cl := some 2, location := false, retryAfter := false },
    body := [1, 2], stray := [7, 7, 7] }
def strayAfter204 : Attempt :=
  { head := some { status := 204, close := false, cl := none, location := false, retryAfter := false }, stray := [9] }

/-- non-vacuity: a history with stray bytes after a `Content-Length` reply and after a 204 satisfies
the framing hypothesis -/
example : ∀ rid a, Scripted [.request 0 {} (.count 2) [strayAfterBody], .dispose 0 .readAll,
    .request 1 {} .off [strayAfter204]] rid a → WellFramed a := by
  intro rid a ⟨rc, rt, script, hm, ha⟩
  simp at hm
  rcases hm with ⟨_, _, _, rfl⟩ | ⟨_, _, _, rfl⟩
  · simp at ha; subst ha
    exact Or.inr ⟨_, rfl, Or.inr ⟨2, rfl, by simp [strayAfterBody]⟩⟩
  · simp at ha; subst ha
    exact Or.inr ⟨_, rfl, Or.inl (Or.inl rfl)⟩

/-- stray bytes after a body-less reply (HEAD, 1xx, 204, 304) never reach the response they follow:
in every reachable state such a response has delivered nothing (and by `C03_prefix_of_own_sent` no
*other* response can deliver them either: a response only delivers bytes of its own request's
reply).  Unconditional. -/
theorem C03_bodyless_stray_discarded (ops : List Op) (n : Nat) (block proxy : Bool) :
    ∀ r ∈ (run (init n block proxy) ops).resps, noBody r.status r.isHead = true → r.delivered = [] := by
  intro r hr hnb
  obtain ⟨i, hi⟩ := List.getElem?_of_mem hr
  rcases (run_prov ops n block proxy).resp i r hi with ⟨_, h, _⟩ | ⟨a, h, fr⟩
  · exact h
  · have := fr.dlen 0 (by simp [initLength, ← fr.st, hnb])
    exact List.eq_nil_of_length_eq_zero (by omega)

/-- … and under the framing hypothesis no stray byte is ever delivered to anybody -/
theorem C03_stray_never_delivered (ops : List Op) (n : Nat) (block proxy : Bool)
    (hfr : ∀ rid a, Scripted ops rid a → WellFramed a) :
    ∀ r ∈ (run (init n block proxy) ops).resps, ∀ c ∈ r.delivered, cellTag c ≠ .stray := by
  intro r hr c hc
  have := (C03_prefix_of_own_reply ops n block proxy hfr r hr).1
  unfold ownBytes at this
  rw [List.all_eq_true] at this
  have := this c hc
  intro h; rw [h] at this; simp at this

/-- **Checkout probe** (`_get_conn` + `is_connection_dropped`): if the connection on top of the queue
has unread bytes or EOF pending on its socket `k`, checkout returns that connection *closed*, and
whatever request is then made on it goes out on a socket that did not exist at checkout — the dirty
socket is never used again. -/
theorem C03_dirty_never_yields {s : State} {c k : Nat} {cn : Conn} {rest : List (Option Nat)}
    (hopen : s.closed = false) (hq : s.queue = some c :: rest) (hc : s.conns[c]? = some cn) (hk : cn.sock = some k)
    (hdirty : sockReadable s k = true) :
    (getConn s).2 = .ok c ∧
    (∀ cn', (getConn s).1.conns[c]? = some cn' → cn'.sock = none) ∧
    ∀ rid a s2 k', connRequest (getConn s).1 c rid a = (s2, .ok k') → s.socks.length ≤ k' := by
  have hdrop : isDropped { s with queue := rest } c = true := by
    show isDropped { s with queue := rest } c = true
    unfold isDropped
    have : ({ s with queue := rest } : State).conns[c]? = some cn := hc
    simp only [this, hk]
    exact hdirty
  have hg : getConn s = (connClose { s with queue := rest } c, .ok c) := by
    unfold getConn
    rw [if_neg (by simp [hopen])]
    simp only [hq]
    rw [if_pos hdrop]
  rw [hg]
  refine ⟨rfl, fun cn' h => connClose_sock_none _ _ _ h, ?_⟩
  intro rid a s2 k' hcr
  -- the connection is closed: `conn.request` has to connect
  dsimp only at hcr
  generalize hs1 : connClose { s with queue := rest } c = s1 at hcr
  have hsock1 : s1.socks = s.socks := by rw [← hs1, connClose_socks]
  have hnone : ∀ cn', s1.conns[c]? = some cn' → cn'.sock = none := by
    intro cn' h; rw [← hs1] at h; exact connClose_sock_none _ _ _ h
  unfold connRequest at hcr
  obtain ⟨fr, fs, fo, fc, fn⟩ := forget_fields s1 c
  generalize forgetClosedPending s1 c = sF at hcr fr fs fo fc fn
  dsimp only at hcr
  split at hcr
  · cases hcr
  · rename_i cnF hcnF
    have hsF : cnF.sock = none := by
      cases h1 : s1.conns[c]? with
      | none => rw [fn h1] at hcnF; cases hcnF
      | some cn1 =>
        obtain ⟨cn'', g1, g2, _⟩ := fc cn1 h1
        rw [g1] at hcnF; cases hcnF
        rw [g2]; exact hnone cn1 h1
    split at hcr
    · cases hcr
    · simp only [hsF] at hcr
      unfold connect at hcr
      cases hcon : a.connect <;> simp only [hcon] at hcr
      · -- connected: the socket is `socks.length`
        cases hse : sendExc a.send <;> simp only [hse] at hcr
        · cases hcr
          show s.socks.length ≤ (setConn sF c _).socks.length
          simp [setConn, fs, hsock1]
        · cases hcr
      all_goals (cases hcr)

/-- non-vacuity: a keep-alive reply followed by stray bytes, released after the declared body was
read — the idle connection on top of the queue has unread bytes pending -/
example :
    let s := run (init 1 false) [.request 0 { preload := false, release := false } .off
        [{ head := some { status := 200, close := false, cl := some 2, location := false, retryAfter := false },
           body := [1, 2], stray := [7, 7], seg := 3 }], .dispose 0 .readAll]
    s.closed = false ∧ s.queue = [some 0] ∧ (s.conns[0]?.map (·.sock)) = some (some 0) ∧ sockReadable s 0 = true := by
  decide

/-- the model reproduces the known finding (`known_findings/C03.json`, signature
`dirty-connection-yielded-response:released-before-body-read`): `urlopen(preload_content=False,
release_conn=True)` answered with `Content-Length: 9` and 3 body bytes, `response.close()`, next
request.  The connection went back to the pool while its response was unread; `close()` then only
closed the reader; the second request is written to and answered on the *same* socket 0 (one
`connect`, two `send`s), although 6 declared bytes of reply 0 are still outstanding
(`length = some 9` on the closed response) — the second clause of the property ("a connection whose
previous exchange did not end cleanly never yields a response") is false on this tree.  The bytes
delivered for request 1 are its own (`C03_prefix_of_own_reply` holds): the late arrival of the rest
of reply 0 is kernel timing, outside the model. -/
theorem C03_released_unread_witness :
    let a0 : Attempt := { head := some { status := 200, close := false, cl := some 9, location := false, retryAfter := false },
                          headLen := 37, body := [1, 2, 3] }
    let a1 : Attempt := { head := some { status := 200, close := false, cl := some 5, location := false, retryAfter := false },
                          headLen := 37, body := [11, 12, 13, 14, 15] }
    let early : ReqCfg := { preload := false, release := true }
    let s := run (init 1 false) [.request 0 early .off [a0], .dispose 0 .close]
    let s' := (step s (.request 1 early .off [a1])).1
    -- response 0 is closed with 9 declared bytes outstanding, its connection idles in the pool, connected
    (s.resps.map fun r => (r.fp, r.length)) = [(none, some 9)] ∧ s.queue = [some 0] ∧
    (s.conns.map (·.sock)) = [some 0] ∧
    -- the next request is answered on the same socket: no second `connect`
    (match (step s (.request 1 early .off [a1])).2 with | .result (.resp r) => r == 1 | _ => false) = true ∧
    s'.log = [.connect 0, .send 0, .recv 0, .put (some 0), .send 0, .recv 0, .put (some 0)] ∧
    (s'.resps.map (·.fp)) = [none, some 0] := by
  decide

/-! ### the second clause: "a connection whose previous exchange did not end cleanly never yields a
response" — false on this tree in general (`C03_released_unread_witness`), true for every history
that does not release a connection while its response is unread -/

/-- **Partial** (full statement: the same without `hne`; it is false, see
`C03_released_unread_witness`).  In every state reachable by a history without early release
(`NoEarlyOp`: no `release_conn=True` together with `preload_content=False`, no `release_conn()` /
`read(k)+release_conn()` by the caller — everything else is allowed: partial reads, `close()`,
dropping responses, draining, streaming, closing the pool, any server script): for every *connected*
connection `c` whose last response (`http.client`'s `__response`) is `r`,
* if `r` is closed then it was read to its declared end (`length_remaining = 0`), and
* if `r` is still open then it reads from `c`'s socket and holds `c` (`_connection = c`), so every way
  of abandoning `r` — `close()`, a failed read, garbage collection — closes `c`.
Hence no connection with an unfinished exchange is ever idle in the pool. -/
theorem C03_unclean_never_yields_partial (ops : List Op) (n : Nat) (block proxy : Bool)
    (hne : ∀ op ∈ ops, NoEarlyOp op) :
    ∀ (c : Nat) (cn : Conn) (k r : Nat) (rs : Resp), (run (init n block proxy) ops).conns[c]? = some cn → cn.sock = some k →
      cn.pending = some r → (run (init n block proxy) ops).resps[r]? = some rs →
      (rs.fp = none → rs.length = some 0) ∧ (rs.fp ≠ none → rs.fp = some k ∧ rs.conn = some c) := by
  intro c cn k r rs h1 h2 h3 h4
  obtain ⟨_, q2, q3⟩ := (run_link ops n block proxy hne).pend c cn k r rs h1 h2 h3 h4
  have q3' := q3 (by intro e; cases e)
  simp only [reduceCtorEq, if_false] at q3'
  refine ⟨q3'.1, fun hn => ⟨?_, q3'.2 hn⟩⟩
  cases hfp : rs.fp with
  | none => exact absurd hfp hn
  | some k' => rw [q2 k' hfp]

/-- … and therefore `getresponse()` yields a response on a connection only if that connection's
previous response (if `http.client` still remembers one) had been read to its end: an unread or
half-read previous response makes `getresponse()` raise `ResponseNotReady` instead. -/
theorem C03_yield_only_after_complete_partial (ops : List Op) (n : Nat) (block proxy : Bool)
    (hne : ∀ op ∈ ops, NoEarlyOp op) {c k k' rid r' : Nat} {rc : ReqCfg} {cn : Conn} {s' : State}
    (hc : (run (init n block proxy) ops).conns[c]? = some cn) (hk : cn.sock = some k')
    (hy : getResponse (run (init n block proxy) ops) c k rid rc = (s', .resp r')) :
    ∀ (r0 : Nat) (rs0 : Resp), cn.pending = some r0 → (run (init n block proxy) ops).resps[r0]? = some rs0 →
      rs0.fp = none ∧ rs0.length = some 0 := by
  intro r0 rs0 hp hr0
  have hcl : rs0.fp = none := by
    cases hfp : rs0.fp with
    | none => rfl
    | some k0 =>
      exfalso
      have hst : Settled (run (init n block proxy) ops) c := by
        intro cn1 r1 rs1 g1 g2 g3
        rw [hc] at g1; cases g1
        rw [hp] at g2; cases g2
        rw [hr0] at g3; cases g3
        simp [hfp]
      rw [getResponse_notReady hst hc (by simp [hp])] at hy
      cases hy
  exact ⟨hcl, (C03_unclean_never_yields_partial ops n block proxy hne c cn k' r0 rs0 hc hk hp hr0).1 hcl⟩

/-- non-vacuity: a history with a streamed response that is read partially and then closed, a
preloaded request and a drained one satisfies the hypothesis … -/
example : ∀ op ∈ [Op.request 0 { preload := false, release := false } (.count 2) [strayAfterBody], .dispose 0 (.readK 1),
    .dispose 0 .close, .request 1 {} .off [strayAfter204], .request 2 { preload := false, release := false } .off [strayAfterBody],
    .dispose 2 .drain, .closePool], NoEarlyOp op := by
  intro op hm
  simp only [List.mem_cons, List.mem_nil_iff, or_false] at hm
  rcases hm with rfl | rfl | rfl | rfl | rfl | rfl | rfl <;> simp [NoEarlyOp, NoEarlyCfg, NoEarlyHow]

/-- … and the history of the finding is exactly one that does not -/
example : ¬ NoEarlyOp (.request 0 { preload := false, release := true } .off []) := by
  simp [NoEarlyOp, NoEarlyCfg]

end U3.Props
