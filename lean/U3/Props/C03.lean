import U3.Model.Pool
import U3.Lemmas.Pool
/-! # C03 — a response only ever contains bytes sent in reply to its own request -/
namespace U3.Props
open U3 U3.Pool

/-- the tag of a delivered byte -/
def cellTag : Cell → Tag
  | .hd t _ => t
  | .body t _ => t

/-- every byte delivered for response `r` was sent by the server in reaction to `r`'s own request -/
def ownBytes (r : Resp) : Bool := r.delivered.all fun c => cellTag c == .req r.rid

/-- the server's reaction to request `rid` carries that request's tag on every head and body byte,
and `stray` on everything unsolicited (by construction of `serverCells`) -/
theorem C03_server_tags (rid : Nat) (a : Attempt) :
    ∀ c ∈ serverCells rid a, cellTag c = .req rid ∨ cellTag c = .stray := by
  intro c hc
  unfold serverCells at hc
  split at hc
  · simp at hc
  · simp only [List.mem_append, List.mem_replicate, List.mem_singleton, List.mem_map] at hc
    rcases hc with ((⟨_, rfl⟩ | rfl) | ⟨v, _, rfl⟩) | ⟨v, _, rfl⟩ <;> simp [cellTag]

end U3.Props
