import U3.Model.Manager
/-! # C06 (stage 1: table theorems; the run theorems follow) -/
namespace U3.Props
open U3 U3.Manager

/-- the default strip set contains the three credential headers (lower-cased) -/
theorem C06_default_set :
    ∀ h ∈ [[97, 117, 116, 104, 111, 114, 105, 122, 97, 116, 105, 111, 110], [99, 111, 111, 107, 105, 101],
           [112, 114, 111, 120, 121, 45, 97, 117, 116, 104, 111, 114, 105, 122, 97, 116, 105, 111, 110]],
      h ∈ Gen.Redirect.removeHeadersOnRedirectDefault.map lower := by
  decide

end U3.Props
