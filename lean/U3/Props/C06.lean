import U3.Lemmas.ManagerHdrs
/-!
# C06 — credentials are never forwarded to a different origin on redirect

Model: `U3.Manager` (shared with C05).  The theorems hold for every world `W` (arbitrary servers /
redirect graphs, arbitrary `parse_url` / `urljoin` oracles), every amount of fuel and every request;
they go by induction over the model's redirect loop (`U3.Lemmas.Manager`, `…ManagerHdrs`,
`…ManagerOrigin`).  Header carriers are plain dicts (any keys, case-duplicates included) or
`HTTPHeaderDict`s satisfying their representation invariant (`CarriersWF`; C16 proves every operation
preserves it).
-/
namespace U3.Props
open U3 U3.Headers U3.Retry U3.Manager

/-- the default strip set contains the three credential headers (lower-cased) -/
theorem C06_default_set :
    ∀ h ∈ [[97, 117, 116, 104, 111, 114, 105, 122, 97, 116, 105, 111, 110], [99, 111, 111, 107, 105, 101],
           [112, 114, 111, 120, 121, 45, 97, 117, 116, 104, 111, 114, 105, 122, 97, 116, 105, 111, 110]],
      h ∈ Gen.Redirect.removeHeadersOnRedirectDefault.map lower := by
  decide

/-- the default ports `is_same_host` fills in are the ones of `http` and `https` -/
theorem C06_default_ports : portOf sHttp = some 80 ∧ portOf sHttps = some 443 := by decide

/-! ### small concrete worlds for the examples and witnesses -/

/-- `parse_url` of `scheme://host[:port]path` -/
def absUrl (scheme host : Str) (port : Option Nat) (netloc path : Str) : PUrl :=
  ⟨some scheme, some host, port, path, scheme ++ lit "://" ++ netloc ++ path, some netloc,
    scheme ++ lit "://" ++ netloc ++ path⟩
/-- `parse_url` of a path-only string -/
def pathUrl (path : Str) : PUrl := ⟨none, none, none, path, path, none, path⟩
/-- `parse_url` of `//host/path` -/
def relUrl (host path : Str) : PUrl := ⟨none, some host, none, path, lit "//" ++ host ++ path, some host, path⟩

def tableWorld (rules : List (Origin × Str × Reply)) (parses : List (Str × PUrl))
    (joins : List (Str × Str × Str)) : World where
  serve := fun o _ t => match rules.find? (fun r => r.1 == o && r.2.1 == t) with
    | some r => r.2.2
    | none => ⟨200, none⟩
  parse := fun s => (parses.find? (fun e => e.1 == s)).map (·.2)
  join := fun b l => (joins.find? (fun e => e.1 == b && e.2.1 == l)).map (·.2.2)

def hostA : Str := lit "a.example"
def hostB : Str := lit "b.example"
def urlA : Str := lit "http://a.example/x"
def urlB : Str := lit "http://b.example/y"
def sAuth : Str := lit "Authorization"
def sXSecret : Str := lit "X-Secret"

/-- `http://a.example/x` answers `302 Location: http://b.example/y` -/
def crossWorld : World :=
  tableWorld [(⟨sHttp, hostA, 80⟩, lit "/x", ⟨302, some urlB⟩)]
    [(urlA, absUrl sHttp hostA none hostA (lit "/x")), (urlB, absUrl sHttp hostB none hostB (lit "/y")),
     (lit "/x", pathUrl (lit "/x")), (lit "/y", pathUrl (lit "/y"))]
    [(urlA, urlB, urlB)]

def getReq (url : Str) (headers : Option Hdrs) (retries : Arg) : Req :=
  ⟨false, sGET, url, none, headers, retries, none, none⟩

/-! ### origin equality -/

/-- **`is_same_host` ⇔ same origin** — for every pool identity and every parsed URL (ports other than
the meaningless `0`): true iff the URL is path-only (starts with `/` but not with `//` — a scheme-relative
`//host/path` names a host and is compared like an absolute URL), or the scheme (`or "http"`), the
normalised (lower-cased, bracket-free) host and the effective port (own port, else the default of the
scheme from `port_by_scheme`) agree with the pool's -/
theorem C06_same_origin_iff (p : PoolId) (url : Str) (pu : PUrl)
    (hp : p.port ≠ some 0) (hu : pu.port ≠ some 0) :
    isSameHost p url pu = true ↔
      pathOnly url = true ∨
      (schemeOr pu = p.scheme ∧ pu.host.map (fun h => normalizeHost h (schemeOr pu)) = some p.host ∧
        effPort pu.port (schemeOr pu) = effPort p.port p.scheme) :=
  isSameHost_iff p url pu hp hu

/-- explicit default port and letter case do not make another origin; another port does -/
example :
    isSameHost ⟨sHttp, hostA, none⟩ (lit "HTTP://A.Example:80/x")
      (absUrl sHttp (lit "A.Example") (some 80) (lit "A.Example:80") (lit "/x")) = true ∧
    isSameHost ⟨sHttp, hostA, some 80⟩ urlA (absUrl sHttp hostA none hostA (lit "/x")) = true ∧
    isSameHost ⟨sHttp, hostA, some 80⟩ (lit "http://a.example:8080/x")
      (absUrl sHttp hostA (some 8080) (lit "a.example:8080") (lit "/x")) = false ∧
    isSameHost ⟨sHttp, hostA, some 80⟩ (lit "https://a.example/x")
      (absUrl sHttps hostA none hostA (lit "/x")) = false ∧
    -- a bare path is the pool's own; a scheme-relative reference is judged by the host it names
    isSameHost ⟨sHttp, hostA, some 80⟩ (lit "/x") (pathUrl (lit "/x")) = true ∧
    isSameHost ⟨sHttp, hostA, some 80⟩ (lit "//a.example/x") (relUrl hostA (lit "/x")) = true ∧
    isSameHost ⟨sHttp, hostA, some 80⟩ (lit "//b.example/y") (relUrl hostB (lit "/y")) = false := by
  decide

/-! ### the single-host pool -/

/-- **A single-host pool refuses a cross-host URL** — for a bare pool that asserts the host (the
default): (1) a URL of another host ends in `HostChangedError` with an *empty* wire log; (2) every
request of any run passed `is_same_host`; (3) without a proxy every request went to the pool's own
origin; (4) a redirect whose `Location` names another host is never followed by a request. -/
theorem C06_single_host_refuses (W : World) (p : Pool) (fuel : Nat) (req : Req)
    (hash : req.assertSameHost ≠ some false) :
    (∀ pu, W.parse req.url = some pu → isSameHost p.id req.url pu = false → fuel ≠ 0 →
      run W (.pool p) fuel req = ⟨[], .hostChanged⟩) ∧
    (∀ s ∈ (run W (.pool p) fuel req).log,
      ∃ pu, W.parse s.url = some pu ∧ isSameHost p.id s.url pu = true) ∧
    (p.proxy = none → ∀ s ∈ (run W (.pool p) fuel req).log, s.dest = p.id.origin ∧ s.dial = p.id.origin) ∧
    (∀ (i : Nat) (a : Sent) (loc : Str) (pu : PUrl), (run W (.pool p) fuel req).log[i]? = some a →
      a.reply.redirectLocation = some loc → W.parse loc = some pu → isSameHost p.id loc pu = false →
      (run W (.pool p) fuel req).log[i + 1]? = none) := by
  have hash' : req.assertSameHost.getD true = true := by
    cases h : req.assertSameHost with
    | none => rfl
    | some v => cases v with
      | true => rfl
      | false => exact absurd h hash
  have h2 : ∀ s ∈ (run W (.pool p) fuel req).log,
      ∃ pu, W.parse s.url = some pu ∧ isSameHost p.id s.url pu = true := by
    rw [run_pool, hash']
    apply pool_all W p _ true
    intro method url body headers retries s r hs hpa
    obtain ⟨_, _, _, hu, _, hsame⟩ := poolAttempt_ok hpa
    rw [hu]; exact hsame rfl
  refine ⟨?_, h2, ?_, ?_⟩
  · intro pu hpu hs hf
    obtain ⟨n, hn⟩ := Nat.exists_eq_succ_of_ne_zero hf
    rw [run_pool, hash', hn]
    exact pool_refuses W p n _ _ _ _ _ _ pu hpu hs
  · intro hp
    rw [run_pool]
    apply pool_all W p _ _
    intro method url body headers retries s r hs hpa
    obtain ⟨_, _, _, _, _, hx⟩ := poolAttempt_ok' hpa
    exact ⟨(hx hp).1, (hx hp).2.1⟩
  · intro i a loc pu ha hloc hpu hsame
    cases hb : (run W (.pool p) fuel req).log[i + 1]? with
    | none => rfl
    | some b =>
      obtain ⟨_, _, _, hu⟩ := (run_hops W (.pool p) fuel req).get i a b ha hb
      simp only at hu
      rw [hloc] at hu
      injection hu with hu
      obtain ⟨pu', hpu', hs'⟩ := h2 b (List.mem_of_getElem? hb)
      rw [hu, hpu] at hpu'
      injection hpu' with hpu'
      subst hpu'
      rw [hu, hsame] at hs'
      cases hs'

/-- … and the run of an asserting pool whose last request was answered by a redirect to another
host ends in `HostChangedError` — unless the redirect budget ran out at that very reply
(`MaxRetryError`, or the 3xx itself when `raise_on_redirect` is off; C05) or the model's fuel did -/
theorem C06_single_host_refuses_redirect (W : World) (p : Pool) (fuel : Nat) (req : Req)
    (hash : req.assertSameHost ≠ some false) (hred : req.redirect ≠ some false)
    (pre : List Sent) (a : Sent) (loc : Str) (pu : PUrl)
    (hl : (run W (.pool p) fuel req).log = pre ++ [a])
    (hloc : a.reply.redirectLocation = some loc) (hpu : W.parse loc = some pu)
    (hsame : isSameHost p.id loc pu = false) :
    (run W (.pool p) fuel req).outcome = .hostChanged ∨ (run W (.pool p) fuel req).outcome = .outOfFuel ∨
    (run W (.pool p) fuel req).outcome = .maxRetry ∨ (run W (.pool p) fuel req).outcome = .response a.reply := by
  have hash' : req.assertSameHost.getD true = true := by
    cases h : req.assertSameHost with
    | none => rfl
    | some v => cases v with
      | true => rfl
      | false => exact absurd h hash
  have hred' : req.redirect.getD true = true := by
    cases h : req.redirect with
    | none => rfl
    | some v => cases v with
      | true => rfl
      | false => exact absurd h hred
  rw [run_pool, hash', hred'] at hl ⊢
  exact (pool_refuses_redirect W p fuel _ _ _ _ _).2 pre a loc pu hl hloc hpu hsame

/-- non-vacuity: a pool for `a.example` asked for `http://b.example/y` raises `HostChangedError` and
sends nothing; asked for `/x` it sends one request, gets the redirect to `b.example`, and refuses it -/
example :
    run crossWorld (.pool (Pool.ofCtor sHttp hostA none .none none)) 5 (getReq urlB none .none)
      = ⟨[], .hostChanged⟩ ∧
    (run crossWorld (.pool (Pool.ofCtor sHttp hostA none .none none)) 5 (getReq (lit "/x") none .none)).log.length = 1 ∧
    (run crossWorld (.pool (Pool.ofCtor sHttp hostA none .none none)) 5 (getReq (lit "/x") none .none)).outcome
      = .hostChanged := by
  decide

/-- non-vacuity of `C06_single_host_refuses_redirect`: the run of the pool for `a.example` asked for
`/x` is one request, answered by the redirect to `http://b.example/y` — not the same host — and the
outcome is `HostChangedError` -/
example :
    let p := Pool.ofCtor sHttp hostA none .none none
    let R := run crossWorld (.pool p) 5 (getReq (lit "/x") none .none)
    R.log.map (fun a => a.reply.redirectLocation) = [some urlB] ∧
      crossWorld.parse urlB = some (absUrl sHttp hostB none hostB (lit "/y")) ∧
      isSameHost p.id urlB (absUrl sHttp hostB none hostB (lit "/y")) = false ∧ R.outcome = .hostChanged := by
  decide

/-! ### the chain invariant -/

/- Full statement (the property text): for every `PoolManager` / `ProxyManager`, every placement of
the policy and every chain — once a hop crosses origins, no header named in the *supplied* policy's
`remove_headers_on_redirect` is in that or any later request.  It is FALSE of the code in one case,
with a witness below: behind a forwarding proxy `is_same_host` is asked of the *proxy's* pool
(`C06_proxy_origin_keeps_credentials`) — excluded by `Crossing`'s clause "no proxy, or the current
URL is `https`" (the pool consulted is the origin's own).  The two other cases in which it used to
be false are repaired and covered: a policy that sits on the manager constructor only is the one
the code consults (`C06_manager_remove_set_honoured`; `effective = supplied`), and a scheme-relative
target `//host/path` (reachable from a scheme-less request URL) is judged by the host it names
(`C06_scheme_relative_stripped`; `Crossing` only asks that the target is not a bare path `/…`).
`injected m` are the names the proxy machinery itself writes into a forwarded request (`Accept`,
`Host`, the `proxy_headers`) — empty for a `PoolManager`. -/

/-- **chain invariant, for the policy the code consults** -/
theorem C06_stripped_effective (W : World) (m : Mgr) (fuel : Nat) (req : Req)
    (hwf : CarriersWF (.manager m) req)
    (hlow : (effective (.manager m) req).removeHeadersOnRedirect.map lower
      = (effective (.manager m) req).removeHeadersOnRedirect)
    (i j : Nat) (a b c : Sent) (hij : i < j)
    (ha : (run W (.manager m) fuel req).log[i]? = some a)
    (hb : (run W (.manager m) fuel req).log[i + 1]? = some b)
    (hx : Crossing W m a b)
    (hc : (run W (.manager m) fuel req).log[j]? = some c) :
    ∀ l ∈ c.headers, lower l.1 ∈ (effective (.manager m) req).removeHeadersOnRedirect → l.1 ∈ injected m :=
  run_stripped W m fuel req hwf hlow i j a b c hij ha hb hx hc

/-- **Stripped after a cross-origin hop** — once hop `i → i+1` crosses origins (`Crossing`: the two
URLs name origins that differ in scheme, normalised host or effective port), request `i+1` and every
later request `j` of the chain carries no header whose lower-cased name is in the supplied policy's
`remove_headers_on_redirect` (other than what the proxy machinery injects; nothing for a
`PoolManager`) — whatever mapping type carried them, whatever the casing, for every chain shape and
every placement of the policy (per request or on the manager constructor).  Partial only in
`Crossing`'s proxy clause (hops leaving a request *forwarded* by a `ProxyManager` are not covered). -/
theorem C06_stripped_after_cross_origin_partial (W : World) (m : Mgr) (fuel : Nat) (req : Req)
    (hwf : CarriersWF (.manager m) req)
    (hlow : (supplied (.manager m) req).removeHeadersOnRedirect.map lower
      = (supplied (.manager m) req).removeHeadersOnRedirect)
    (i j : Nat) (a b c : Sent) (hij : i < j)
    (ha : (run W (.manager m) fuel req).log[i]? = some a)
    (hb : (run W (.manager m) fuel req).log[i + 1]? = some b)
    (hx : Crossing W m a b)
    (hc : (run W (.manager m) fuel req).log[j]? = some c) :
    ∀ l ∈ c.headers, lower l.1 ∈ (supplied (.manager m) req).removeHeadersOnRedirect → l.1 ∈ injected m := by
  rw [← effective_eq_supplied _ req] at hlow ⊢
  exact run_stripped W m fuel req hwf hlow i j a b c hij ha hb hx hc

/-- every policy that went through `Retry.__init__` (all of them) satisfies the lower-case hypothesis;
so do the policies `Retry.from_int` makes of `None` / `False` / an integer -/
theorem C06_strip_set_lowercased (p : Retry) :
    (Retry.init p).removeHeadersOnRedirect.map lower = (Retry.init p).removeHeadersOnRedirect :=
  init_remove_lower p

/-- for a `PoolManager` the wire agrees with the URLs: every request goes to the origin its URL names -/
theorem C06_dest_is_url_origin (W : World) (m : Mgr) (fuel : Nat) (req : Req) (hp : m.proxy = none) :
    ∀ s ∈ (run W (.manager m) fuel req).log, ∃ u, W.parse s.url = some u ∧ s.dest = urlOrigin u := by
  rw [run_manager]
  refine mgr_all W m (req.redirect.getD true) (fun _ _ _ => True)
    (fun s => ∃ u, W.parse s.url = some u ∧ s.dest = urlOrigin u) (fun _ _ => trivial) ?_ fuel _ _ _ trivial
  intro method url kw s _ hpass
  obtain ⟨u, conn, pu, h1, h2, _, h4, _⟩ := hpass.noproxy hp
  refine ⟨u, h1, ?_⟩
  rw [h4]
  obtain ⟨hc, _⟩ := pmConnectionFromHost_ok (connectionFromHost_own h2 (Or.inl hp))
  rw [hc]
  rfl

/-- non-vacuity: `Authorization` given per request to a `PoolManager` whose first hop crosses from
`a.example` to `b.example`: the hypotheses hold (dict carrier; the default strip set; the hop is a
`Crossing`) and the second request indeed arrives without the header — while `X-Keep` is still there -/
example :
    let m : Mgr := ⟨.none, .dict [], none⟩
    let req := getReq urlA (some (.dict [(sAuth, lit "s"), (lit "X-Keep", lit "k")])) .none
    CarriersWF (.manager m) req ∧
    (supplied (.manager m) req).removeHeadersOnRedirect.map lower
      = (supplied (.manager m) req).removeHeadersOnRedirect ∧
    (∃ a b, (run crossWorld (.manager m) 5 req).log[0]? = some a ∧
      (run crossWorld (.manager m) 5 req).log[1]? = some b ∧ Crossing crossWorld m a b) ∧
    (run crossWorld (.manager m) 5 req).log.map (fun s => (s.dest.host, s.headers))
      = [(hostA, [(sAuth, lit "s"), (lit "X-Keep", lit "k")]), (hostB, [(lit "X-Keep", lit "k")])] := by
  refine ⟨⟨trivial, fun h hh => ?_⟩, by decide, ?_, by decide⟩
  · injection hh with hh; subst hh; trivial
  · refine ⟨_, _, rfl, rfl, absUrl sHttp hostA none hostA (lit "/x"), absUrl sHttp hostB none hostB (lit "/y"),
      by decide, by decide, by decide, Or.inl rfl, by decide⟩

/-- non-vacuity for the constructor placement: the custom set `{X-Secret}` on the `PoolManager`
constructor, nothing per request — the hypotheses hold, the hop is a `Crossing`, and `X-Secret` does
not reach `b.example` (while `Authorization`, which this policy does not name, does) -/
example :
    let m : Mgr := ⟨.retry (Retry.init { Retry.initDefaults with removeHeadersOnRedirect := [sXSecret] }),
      .dict [], none⟩
    let req := getReq urlA (some (.dict [(sXSecret, lit "s"), (sAuth, lit "t")])) .none
    CarriersWF (.manager m) req ∧
    (supplied (.manager m) req).removeHeadersOnRedirect.map lower
      = (supplied (.manager m) req).removeHeadersOnRedirect ∧
    (∃ a b, (run crossWorld (.manager m) 5 req).log[0]? = some a ∧
      (run crossWorld (.manager m) 5 req).log[1]? = some b ∧ Crossing crossWorld m a b) ∧
    (run crossWorld (.manager m) 5 req).log.map (fun s => (s.dest.host, s.headers))
      = [(hostA, [(sXSecret, lit "s"), (sAuth, lit "t")]), (hostB, [(sAuth, lit "t")])] := by
  refine ⟨⟨trivial, fun h hh => ?_⟩, by decide, ?_, by decide⟩
  · injection hh with hh; subst hh; trivial
  · refine ⟨_, _, rfl, rfl, absUrl sHttp hostA none hostA (lit "/x"), absUrl sHttp hostB none hostB (lit "/y"),
      by decide, by decide, by decide, Or.inl rfl, by decide⟩

/-! ### all other headers are preserved -/

/- Full statement (the property text): on every hop of every `PoolManager` / `ProxyManager` chain all
headers other than the stripped ones are preserved.  Proved part: clients without a proxy
(`PoolManager`, bare pool).  Not proved: `ProxyManager` — every forwarded pass rebuilds the headers
as a fresh dict (`_set_proxy_headers`: `Accept`, `Host`, then `dict.update` with the *merged* values of
an `HTTPHeaderDict`), so between a tunnelled and a forwarded hop repeated fields change from separate
lines to one combined line — the literal statement does not hold there, the combined-form statement
is what the correspondence run and the implementation-side oracle `lost` check. -/

/-- **Others preserved** — for a `PoolManager` or a bare pool, on every hop `a → b` of every chain:
every header field whose lower-cased name is not in the strip set in force (`stripSet`: the policy's
`remove_headers_on_redirect`; nothing for a bare pool) and that — after a 303 — is not content-specific
has in `b` exactly the values it had in `a`, in the same order (`specGetlist`: the values of the lines
of that name, compared case-insensitively); and unless the reply was a 303, `b`'s header lines are
literally `a`'s (same spelling, same order) or `a`'s minus the lines named in the strip set. -/
theorem C06_others_preserved_partial (W : World) (c : Client) (fuel : Nat) (req : Req)
    (hp : c.noProxy) (hwf : CarriersWF c req)
    (hlow : (stripSet c req).map lower = stripSet c req)
    (i : Nat) (a b : Sent)
    (ha : (run W c fuel req).log[i]? = some a) (hb : (run W c fuel req).log[i + 1]? = some b) :
    (∀ n : Str, lower n ∉ stripSet c req →
      (a.reply.status = 303 → lower n ∉ contentSpecific.map lower) →
      specGetlist b.headers n = specGetlist a.headers n) ∧
    (a.reply.status ≠ 303 →
      b.headers = a.headers ∨
      b.headers = a.headers.filter (fun l => !(stripSet c req).contains (lower l.1))) := by
  obtain ⟨H, same, hw, hah, hbh⟩ := (run_lines W c fuel req hwf hp hlow).get i a b ha hb
  constructor
  · intro n hn hcs
    rw [hbh, hah]
    apply nextLines_getlist _ _ _ _ hw n (by simpa using hn)
    intro hst
    exact hcs (by simpa [Gen.Redirect.methodRewriteStatuses] using hst)
  · intro hne
    have hst : Gen.Redirect.methodRewriteStatuses.contains a.reply.status = false := by
      simpa [Gen.Redirect.methodRewriteStatuses] using hne
    rw [hbh, hah, nextLines_plain _ _ _ _ hst]
    cases same
    · exact Or.inr rfl
    · exact Or.inl rfl

/-- non-vacuity: a dict with case-variant keys and a repeated-field `HTTPHeaderDict` across the
cross-origin hop of `crossWorld` (302): everything but `Authorization` arrives unchanged, in order -/
example :
    let m : Mgr := ⟨.none, .dict [], none⟩
    let req := getReq urlA (some (.hd (extend [] [(lit "X-A", lit "1"), (sAuth, lit "s"), (lit "x-a", lit "2"),
      (lit "Accept-Language", lit "en")]))) .none
    Client.noProxy (.manager m) ∧ CarriersWF (.manager m) req ∧
    (stripSet (.manager m) req).map lower = stripSet (.manager m) req ∧
    (run crossWorld (.manager m) 5 req).log.map (fun s => s.headers)
      = [[(lit "X-A", lit "1"), (lit "X-A", lit "2"), (sAuth, lit "s"), (lit "Accept-Language", lit "en")],
         [(lit "X-A", lit "1"), (lit "X-A", lit "2"), (lit "Accept-Language", lit "en")]] := by
  refine ⟨rfl, ⟨trivial, fun h hh => ?_⟩, by decide, by decide⟩
  injection hh with hh; subst hh
  exact extend_inv _ [] inv_nil

/-! ### the two repaired cases (positive, on the inputs of the former negation witnesses) and the
negation witness for the case still excluded -/

/-- **Repaired** (former witness of `leak:manager-constructor-policy-ignored`, same input):
`PoolManager(retries=Retry(remove_headers_on_redirect=["X-Secret"]))` — the supplied strip set is
`{x-secret}`, and `X-Secret` is *not* forwarded from `a.example` to `b.example` -/
theorem C06_manager_remove_set_honoured :
    let m : Mgr := ⟨.retry (Retry.init { Retry.initDefaults with removeHeadersOnRedirect := [sXSecret] }),
      .dict [], none⟩
    let req := getReq urlA (some (.dict [(sXSecret, lit "s")])) .none
    (supplied (.manager m) req).removeHeadersOnRedirect = [lower sXSecret] ∧
    (run crossWorld (.manager m) 5 req).log.map (fun s => (s.dest.host, s.headers))
      = [(hostA, [(sXSecret, lit "s")]), (hostB, [])] := by
  decide

def urlP : Str := lit "http://proxy.example:3128/y"
def thePx : Proxy := ⟨sHttp, lit "proxy.example", 3128, [], false⟩
/-- behind the forwarding proxy `http://a.example/x` answers `302 Location: http://proxy.example:3128/y` -/
def proxyWorld : World :=
  tableWorld [(⟨sHttp, hostA, 80⟩, lit "/x", ⟨302, some urlP⟩)]
    [(urlA, absUrl sHttp hostA none hostA (lit "/x")),
     (urlP, absUrl sHttp (lit "proxy.example") (some 3128) (lit "proxy.example:3128") (lit "/y"))]
    [(urlA, urlP, urlP)]

/-- **Witness** (known finding `leak:proxymanager-forwarding-same-host-judged-against-proxy`):
`ProxyManager("http://proxy.example:3128")`, default policy, `Authorization` per request: the redirect
from `http://a.example/x` into the proxy's own origin is judged same-host (the pool consulted is the
proxy's) and `Authorization` arrives at `proxy.example:3128` -/
theorem C06_proxy_origin_keeps_credentials :
    let m : Mgr := ⟨.none, .dict [], some thePx⟩
    let req := getReq urlA (some (.dict [(sAuth, lit "s")])) .none
    (run proxyWorld (.manager m) 5 req).log.map
        (fun s => (s.dest, s.headers.filter (fun l => lower l.1 == lower sAuth)))
      = [(⟨sHttp, hostA, 80⟩, [(sAuth, lit "s")]), (⟨sHttp, lit "proxy.example", 3128⟩, [(sAuth, lit "s")])] := by
  decide

/-- `//a.example/x` answers `302 Location: //b.example/y` -/
def schemelessWorld : World :=
  tableWorld [(⟨sHttp, hostA, 80⟩, lit "/x", ⟨302, some (lit "//b.example/y")⟩)]
    [(lit "//a.example/x", relUrl hostA (lit "/x")), (lit "//b.example/y", relUrl hostB (lit "/y")),
     (lit "/x", pathUrl (lit "/x")), (lit "/y", pathUrl (lit "/y"))]
    [(lit "//a.example/x", lit "//b.example/y", lit "//b.example/y")]

/-- **Repaired** (former witness of `leak:scheme-relative-target-judged-same-host`, same input): a
`PoolManager` asked for the scheme-less URL `//a.example/x` (deprecated, still served as `http`) with
`Authorization`, answered by `302 Location: //b.example/y`: `urljoin` keeps the target
scheme-relative, `is_same_host` judges it by the host it names, and `Authorization` does *not* arrive
at `b.example` -/
theorem C06_scheme_relative_stripped :
    let m : Mgr := ⟨.none, .dict [], none⟩
    let req := getReq (lit "//a.example/x") (some (.dict [(sAuth, lit "s")])) .none
    (run schemelessWorld (.manager m) 5 req).log.map (fun s => (s.dest, s.headers))
      = [(⟨sHttp, hostA, 80⟩, [(sAuth, lit "s")]), (⟨sHttp, hostB, 80⟩, [])] := by
  decide

/-- … and that hop is a `Crossing` (the scheme-relative target is not a bare path), so it is covered by
`C06_stripped_after_cross_origin_partial` -/
example :
    let m : Mgr := ⟨.none, .dict [], none⟩
    let req := getReq (lit "//a.example/x") (some (.dict [(sAuth, lit "s")])) .none
    ∃ a b, (run schemelessWorld (.manager m) 5 req).log[0]? = some a ∧
      (run schemelessWorld (.manager m) 5 req).log[1]? = some b ∧ Crossing schemelessWorld m a b :=
  ⟨_, _, rfl, rfl, relUrl hostA (lit "/x"), relUrl hostB (lit "/y"),
    by decide, by decide, by decide, Or.inl rfl, by decide⟩

end U3.Props
