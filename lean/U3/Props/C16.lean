import U3.Model.Headers
namespace U3.Props
open U3 U3.Headers
theorem C16_placeholder : (1:Nat) = 1 := rfl
end U3.Props
