import U3.Lemmas.Headers
/-!
# C16 — HTTPHeaderDict behaves as a case-insensitive, order-preserving multimap

Model: `U3.Headers.step` (the grouped `_container` representation, every public mutator).
Reference: `U3.Headers.specStep` on flat `(name, value)` line lists ("assignment replaces, add
appends, names compare case-insensitively").  Abstraction: `iteritems`.
-/
namespace U3.Props
open U3 U3.Headers

def StoreInv (st : Store) : Prop := ∀ h ∈ st, Inv h
def absS (st : Store) : List Flat := st.map iteritems
def run (ops : List Op) : Store := ops.foldl (fun st op => (step st op).1) []
def specRun (ops : List Op) : List Flat := ops.foldl (fun st op => (specStep st op).1) []

private theorem storeInv_set {st : Store} {i : Nat} {h : HD} (hs : StoreInv st) (hh : Inv h) :
    StoreInv (st.set i h) := by
  intro x hx
  rcases List.mem_or_eq_of_mem_set hx with h1 | h1
  · exact hs x h1
  · subst h1; exact hh

private theorem storeInv_push {st : Store} {h : HD} (hs : StoreInv st) (hh : Inv h) :
    StoreInv (st ++ [h]) := by
  intro x hx
  simp only [List.mem_append, List.mem_singleton] at hx
  rcases hx with h1 | h1
  · exact hs x h1
  · subst h1; exact hh

private theorem inv_of_get {st : Store} {i : Nat} {h : HD} (hs : StoreInv st) (hg : st.get i = some h) :
    Inv h := hs h (List.mem_of_getElem? hg)

private theorem construct_inv {st : Store} {s : Src} {h : HD} (hs : StoreInv st)
    (hc : construct st s = some h) : Inv h := by
  cases s with
  | hd i =>
    simp only [construct, Option.map_eq_some_iff] at hc
    obtain ⟨g, hg, rfl⟩ := hc
    rw [copy_eq g (inv_of_get hs hg)]; exact inv_of_get hs hg
  | pairs ps =>
    simp only [construct, Option.some.injEq] at hc
    subst hc; exact extend_inv ps [] inv_nil

/-- **Invariant, one step**: keys pairwise distinct, `key = lower name`, no empty value list. -/
theorem C16_inv_step (st : Store) (op : Op) (hs : StoreInv st) : StoreInv (step st op).1 := by
  cases op with
  | new => exact storeInv_push hs inv_nil
  | ctor s =>
    simp only [step]; split
    · rename_i h hc; exact storeInv_push hs (construct_inv hs hc)
    · exact hs
  | set i k v =>
    simp only [step]; split
    · rename_i h hg; exact storeInv_set hs (setItem_inv h k v (inv_of_get hs hg))
    · exact hs
  | del i k =>
    simp only [step]; split
    · rename_i h hg; split
      · rename_i h' hd; exact storeInv_set hs (delItem_inv h h' k (inv_of_get hs hg) hd)
      · exact hs
    · exact hs
  | add i k v c =>
    simp only [step]; split
    · rename_i h hg; exact storeInv_set hs (add_inv h k v c (inv_of_get hs hg))
    · exact hs
  | extend i s =>
    simp only [step]; split
    · rename_i h ps hg _; exact storeInv_set hs (extend_inv ps h (inv_of_get hs hg))
    · exact hs
  | update i s =>
    simp only [step]; split
    · rename_i h ps hg _; exact storeInv_set hs (update_inv ps h (inv_of_get hs hg))
    · exact hs
  | setdefault i k v =>
    simp only [step]; split
    · rename_i h hg; exact storeInv_set hs (setdefault_inv h k v (inv_of_get hs hg))
    · exact hs
  | pop i k d =>
    simp only [step]; split
    · rename_i h hg; split
      · rename_i h' v hp; exact storeInv_set hs (pop_inv h h' k v (inv_of_get hs hg) hp)
      · exact hs
      · exact hs
    · exact hs
  | popitem i =>
    simp only [step]; split
    · rename_i h hg; split
      · rename_i h' k v hp; exact storeInv_set hs (popitem_inv h h' k v (inv_of_get hs hg) hp)
      · exact hs
    · exact hs
  | discard i k =>
    simp only [step]; split
    · rename_i h hg; exact storeInv_set hs (discard_inv h k (inv_of_get hs hg))
    · exact hs
  | clear i =>
    simp only [step]; split
    · exact storeInv_set hs inv_nil
    · exact hs
  | copy i =>
    simp only [step]; split
    · rename_i h hg; rw [copy_eq h (inv_of_get hs hg)]; exact storeInv_push hs (inv_of_get hs hg)
    · exact hs
  | or i s =>
    simp only [step]; split
    · rename_i h ps hg _
      rw [copy_eq h (inv_of_get hs hg)]
      exact storeInv_push hs (extend_inv ps h (inv_of_get hs hg))
    · exact hs
  | ior i s =>
    simp only [step]; split
    · rename_i h ps hg _; exact storeInv_set hs (extend_inv ps h (inv_of_get hs hg))
    · exact hs
  | ror i s =>
    simp only [step]; split
    · rename_i h r hg hc; exact storeInv_push hs (extend_inv _ r (construct_inv hs hc))
    · exact hs
  | pmc i =>
    simp only [step]; split
    · rename_i h hg; exact storeInv_set hs (pmc_inv h (inv_of_get hs hg))
    · exact hs

/-- **Invariant, every reachable state** (any operation sequence, any number of handles). -/
theorem C16_inv (ops : List Op) : StoreInv (run ops) := by
  unfold run
  suffices ∀ st, StoreInv st → StoreInv (ops.foldl (fun st op => (step st op).1) st) from
    this [] (by intro h hh; simp at hh)
  induction ops with
  | nil => intro st hs; simpa
  | cons op t ih => intro st hs; simp only [List.foldl_cons]; exact ih _ (C16_inv_step st op hs)

private theorem abs_get (st : Store) (i : Nat) : (absS st)[i]? = (st.get i).map iteritems := by
  simp [absS, Store.get]

private theorem abs_set (st : Store) (i : Nat) (h : HD) : absS (st.set i h) = (absS st).set i (iteritems h) := by
  simp [absS, List.map_set]

private theorem abs_push (st : Store) (h : HD) : absS (st ++ [h]) = absS st ++ [iteritems h] := by
  simp [absS]

private theorem abs_len (st : Store) : (absS st).length = st.length := by simp [absS]

private theorem lines_refines {st : Store} {s : Src} (_hs : StoreInv st) :
    specLinesOf (absS st) s = srcLines st s := by
  cases s with
  | hd i => simp [specLinesOf, srcLines, abs_get]
  | pairs ps => rfl

private theorem merged_refines {st : Store} {s : Src} (hs : StoreInv st) :
    specMergedOf (absS st) s = srcMerged st s := by
  cases s with
  | hd i =>
    simp only [specMergedOf, srcMerged, abs_get, Option.map_map]
    cases hg : st.get i with
    | none => rfl
    | some h => simp [itermerged_refines h (inv_of_get hs hg)]
  | pairs ps => rfl

private theorem construct_refines {st : Store} {s : Src} (hs : StoreInv st) :
    specConstruct (absS st) s = (construct st s).map iteritems := by
  cases s with
  | hd i =>
    simp only [specConstruct, construct, abs_get, Option.map_map]
    cases hg : st.get i with
    | none => rfl
    | some h => simp [copy_eq h (inv_of_get hs hg)]
  | pairs ps =>
    simp only [specConstruct, construct, Option.map_some]
    rw [extend_refines ps [] inv_nil]; rfl

private theorem pmc_refines (l : List Str) (h : HD) (hinv : Inv h) :
    iteritems (l.foldl discard h) = l.foldl specDiscard (iteritems h) := by
  induction l generalizing h with
  | nil => rfl
  | cons a t ih =>
    simp only [List.foldl_cons]
    rw [ih _ (discard_inv h a hinv), discard_refines h a hinv]

/-- **Refinement, one step**: through `iteritems`, every operation of the class is the
corresponding operation of the flat reference multimap, with the same result value. -/
theorem C16_refines (st : Store) (op : Op) (hs : StoreInv st) :
    absS (step st op).1 = (specStep (absS st) op).1 ∧ (step st op).2 = (specStep (absS st) op).2 := by
  cases op with
  | new => simp [step, specStep, abs_push, abs_len]
  | ctor s =>
    simp only [step, specStep, construct_refines hs]
    cases hc : construct st s with
    | none => simp
    | some h => simp [abs_push, abs_len]
  | set i k v =>
    simp only [step, specStep, abs_get]
    cases hg : st.get i with
    | none => simp
    | some h => simp [Store.put, abs_set, set_refines h k v (inv_of_get hs hg)]
  | del i k =>
    simp only [step, specStep, abs_get]
    cases hg : st.get i with
    | none => simp
    | some h =>
      simp only [Option.map_some]
      rw [← del_refines h k (inv_of_get hs hg)]
      cases hd : delItem h k with
      | none => simp
      | some h' => simp [Store.put, abs_set]
  | add i k v c =>
    simp only [step, specStep, abs_get]
    cases hg : st.get i with
    | none => simp
    | some h =>
      cases c
      · simp [Store.put, abs_set, add_refines h k v (inv_of_get hs hg)]
      · simp [Store.put, abs_set, addC_refines h k v (inv_of_get hs hg)]
  | extend i s =>
    simp only [step, specStep, abs_get, lines_refines hs]
    cases hg : st.get i with
    | none => simp
    | some h =>
      cases hl : srcLines st s with
      | none => simp
      | some ps => simp [Store.put, abs_set, extend_refines ps h (inv_of_get hs hg), specExtend]
  | update i s =>
    simp only [step, specStep, abs_get, merged_refines hs]
    cases hg : st.get i with
    | none => simp
    | some h =>
      cases hl : srcMerged st s with
      | none => simp
      | some ps => simp [Store.put, abs_set, update_refines ps h (inv_of_get hs hg), specUpdate]
  | setdefault i k v =>
    simp only [step, specStep, abs_get]
    cases hg : st.get i with
    | none => simp
    | some h =>
      have hi := inv_of_get hs hg
      simp only [Option.map_some, setdefault, ← getItem_refines h k hi]
      cases hgi : getItem h k with
      | none => simp [Store.put, abs_set, set_refines h k v hi]
      | some x => simp [Store.put, abs_set]
  | pop i k d =>
    simp only [step, specStep, abs_get]
    cases hg : st.get i with
    | none => simp
    | some h =>
      have hi := inv_of_get hs hg
      simp only [Option.map_some, ← pop_refines h k hi]
      cases hp : pop h k with
      | none => cases d <;> simp
      | some r => obtain ⟨h', v⟩ := r; simp [Store.put, abs_set]
  | popitem i =>
    simp only [step, specStep, abs_get]
    cases hg : st.get i with
    | none => simp
    | some h =>
      have hi := inv_of_get hs hg
      simp only [Option.map_some]
      cases h with
      | nil => simp [popitem]
      | cons e t =>
        obtain ⟨v0, rest, hh⟩ := iteritems_head e t hi
        rw [hh]
        simp only [popitem]
        rw [← hh, ← pop_refines (e :: t) e.name hi]
        cases hp : pop (e :: t) e.name with
        | none => simp
        | some r => obtain ⟨h', v⟩ := r; simp [Store.put, abs_set]
  | discard i k =>
    simp only [step, specStep, abs_get]
    cases hg : st.get i with
    | none => simp
    | some h => simp [Store.put, abs_set, discard_refines h k (inv_of_get hs hg)]
  | clear i =>
    simp only [step, specStep, abs_get]
    cases hg : st.get i with
    | none => simp
    | some h => simp [Store.put, abs_set]
  | copy i =>
    simp only [step, specStep, abs_get]
    cases hg : st.get i with
    | none => simp
    | some h => simp [abs_push, abs_len, copy_eq h (inv_of_get hs hg)]
  | or i s =>
    simp only [step, specStep, abs_get, lines_refines hs]
    cases hg : st.get i with
    | none => simp
    | some h =>
      cases hl : srcLines st s with
      | none => simp
      | some ps =>
        simp [abs_push, abs_len, copy_eq h (inv_of_get hs hg), extend_refines ps h (inv_of_get hs hg), specExtend]
  | ior i s =>
    simp only [step, specStep, abs_get, lines_refines hs]
    cases hg : st.get i with
    | none => simp
    | some h =>
      cases hl : srcLines st s with
      | none => simp
      | some ps => simp [Store.put, abs_set, extend_refines ps h (inv_of_get hs hg), specExtend]
  | ror i s =>
    simp only [step, specStep, abs_get, construct_refines hs]
    cases hg : st.get i with
    | none => simp
    | some h =>
      cases hc : construct st s with
      | none => simp
      | some r =>
        simp [abs_push, abs_len, extend_refines (iteritems h) r (construct_inv hs hc), specExtend]
  | pmc i =>
    simp only [step, specStep, abs_get]
    cases hg : st.get i with
    | none => simp
    | some h => simp [Store.put, abs_set, prepareForMethodChange, pmc_refines _ h (inv_of_get hs hg)]

/-- **Refinement, every operation sequence**: the flat view of the state reached by the class
equals the state reached by the reference multimap, whatever the sequence (copies and unions
mutated afterwards included — handles are separate values in both machines). -/
theorem C16_refines_run (ops : List Op) : absS (run ops) = specRun ops := by
  unfold run specRun
  suffices ∀ st, StoreInv st →
      absS (ops.foldl (fun st op => (step st op).1) st) = ops.foldl (fun st op => (specStep st op).1) (absS st) from
    this [] (by intro h hh; simp at hh)
  induction ops with
  | nil => intro st _; rfl
  | cons op t ih =>
    intro st hs
    simp only [List.foldl_cons]
    rw [ih _ (C16_inv_step st op hs), (C16_refines st op hs).1]

/-! ### Observations are functions of the flat view alone -/

theorem C16_obs_getlist (h : HD) (k : Str) (hi : Inv h) : getlist h k = specGetlist (iteritems h) k :=
  getlist_refines h k hi

theorem C16_obs_getitem (h : HD) (k : Str) (hi : Inv h) : getItem h k = specGet (iteritems h) k :=
  getItem_refines h k hi

theorem C16_obs_contains (h : HD) (k : Str) (hi : Inv h) : hasKey h k = fHas (iteritems h) k :=
  hasKey_eq_fHas h k hi

theorem C16_obs_itermerged (h : HD) (hi : Inv h) : itermerged h = specMerged (iteritems h) :=
  itermerged_refines h hi

theorem C16_obs_iter_len (h : HD) (hi : Inv h) :
    iterKeys h = specNames (iteritems h) ∧ h.length = (specNames (iteritems h)).length := by
  have := specNames_refines_aux h hi [] (by simp)
  unfold specNames
  rw [this]
  exact ⟨rfl, by simp [iterKeys]⟩

/-- lookups do not depend on the casing of the queried name -/
theorem C16_case_insensitive (h : HD) (k k' : Str) (hk : lower k = lower k') :
    getlist h k = getlist h k' ∧ getItem h k = getItem h k' ∧ hasKey h k = hasKey h k' := by
  simp [getlist, getItem, hasKey, hk]

/-! ### Frame: an operation on name `k` leaves every line of another name in place and in order -/

theorem C16_frame_add (f : Flat) (k v : Str) (c : Bool) :
    (if c then specAddC f k v else specAdd f k v).filter (other k) = f.filter (other k) := by
  cases c
  · simpa using specAdd_frame f k v
  · simpa using specAddC_frame f k v

theorem C16_frame_set (f : Flat) (k v : Str) : (specSet f k v).filter (other k) = f.filter (other k) :=
  specSet_frame f k v

theorem C16_frame_discard (f : Flat) (k : Str) : (specDiscard f k).filter (other k) = f.filter (other k) := by
  simp [specDiscard]

/-- add appends exactly one value to the name's own lines; assignment leaves exactly the new one -/
theorem C16_add_appends (f : Flat) (k v : Str) : specGetlist (specAdd f k v) k = specGetlist f k ++ [v] :=
  specAdd_getlist f k v

theorem C16_set_replaces (f : Flat) (k v : Str) : specGetlist (specSet f k v) k = [v] :=
  specSet_getlist f k v

/-- a copy is equal to its source, and an in-place operation on handle `i` leaves every other
existing handle untouched (independence of copies and unions in the model; the aliasing half is
carried by the correspondence run on multi-handle sequences) -/
theorem C16_copy_independent (st : Store) (i j : Nat) (k v : Str) (c : Bool) (hj : j ≠ i) :
    (step st (.add i k v c)).1[j]? = st[j]? ∧ (step st (.set i k v)).1[j]? = st[j]? ∧
    (step st (.discard i k)).1[j]? = st[j]? := by
  refine ⟨?_, ?_, ?_⟩ <;>
  · simp only [step]; split
    · simp [Store.put, Ne.symm hj]
    · rfl

/-! ### Non-vacuity -/

private def ex : List Op :=
  [.new, .add 0 (lit "Set-Cookie") (lit "a") false, .add 0 (lit "set-cookie") (lit "b") false,
   .set 0 (lit "A") (lit "1"), .add 0 (lit "a") (lit "2") true, .copy 0, .del 1 (lit "SET-COOKIE"),
   .update 1 (.hd 0)]

example : absS (run ex) =
    [[(lit "Set-Cookie", lit "a"), (lit "Set-Cookie", lit "b"), (lit "A", lit "1, 2")],
     [(lit "A", lit "1, 2"), (lit "Set-Cookie", lit "a, b")]] := by decide

example : StoreInv (run ex) := C16_inv ex

end U3.Props
