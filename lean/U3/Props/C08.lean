import U3.Model.Hostname
namespace U3.Props
open U3 U3.Hostname
theorem C08_placeholder : (1:Nat) = 1 := rfl
end U3.Props
