import U3.Model.Hostname
import U3.Lemmas.Hostname
/-!
# C08 — certificate name and fingerprint matching accept exactly what the rules allow

All theorems are about the executable model `U3.Hostname` (the definitions the driver `u3model
hostname` runs against the real urllib3 on every check) and hold for **all** strings, not the small
label alphabet of the enumeration.  `san`, `host`, labels are arbitrary code-point lists.

A real host name never contains `*`; where a clause can only be stated for such hosts the hypothesis
`star ∉ host` is explicit (the counter-examples with a literal star in the host are given).

Two clauses held only in a restricted form before the repairs of `ssl_match_hostname.py` (see the
"Repaired defects" section of `notes/C08.md`, `known_findings/C08.json`); on the repaired code they are
proved at full strength, and the concrete inputs that used to refute them are now positive theorems:

* an exact dNSName match is reached wherever it stands in the list, also behind a dNSName with ≥ 2
  stars in its left-most label (`C08_exact_san_accepts`, `C08_exact_san_after_multi_wildcard_ok`);
* an A-label is recognised by the ACE prefix `xn--` in any capitalisation
  (`C08_rejects_wildcard_in_alabel`, `C08_alabel_uppercase_prefix_ok`).
-/
namespace U3.Props
open U3 U3.Hostname

/-! ## dNSName against a DNS host (`_dnsname_match`) -/

/-- An entry without wildcard that equals the host up to (ASCII) case is accepted. -/
theorem C08_exact_accepts {san host : Str} (hn : san ≠ []) (hs : star ∉ san) (h : lower san = lower host) :
    dnsnameMatch san host = .ok true := by
  obtain ⟨l, r, hsp⟩ := split_cons_of_ne_nil san
  have hl : l.count star = 0 :=
    List.count_eq_zero.2 fun hx => hs (mem_of_mem_splitOn1 (hsp ▸ List.mem_cons_self) hx)
  rw [dnsnameMatch_eq hn hsp]
  simp [hl, h]

example : dnsnameMatch (lit "Www.Example.COM") (lit "www.example.com") = .ok true := by decide

/-- "exactly": an entry without wildcard accepts nothing but its own spelling up to case. -/
theorem C08_nowildcard_iff {san host : Str} (hs : star ∉ san) :
    dnsnameMatch san host = .ok true ↔ san ≠ [] ∧ lower san = lower host := by
  by_cases hn : san = []
  · subst hn; simp [dnsnameMatch_nil]
  · obtain ⟨l, r, hsp⟩ := split_cons_of_ne_nil san
    have hl : l.count star = 0 :=
      List.count_eq_zero.2 fun hx => hs (mem_of_mem_splitOn1 (hsp ▸ List.mem_cons_self) hx)
    rw [dnsnameMatch_eq hn hsp]
    simp [hl, hn]

example : dnsnameMatch (lit "a.b") (lit "a.bb") = .ok false := by decide

/-- A whole-label wildcard covers exactly one non-empty left-most label: `*.rest` accepts
`l.rest'` for every non-empty dot-free `l` when `rest'` equals `rest` label by label up to case. -/
theorem C08_wildcard_one_label_accepts (rest rest' : List Str) (l : Str) (hl : l ≠ []) (hld : dot ∉ l)
    (hrest : ∀ r ∈ rest, dot ∉ r) (hcase : rest.map lower = rest'.map lower) :
    dnsnameMatch (joinWith [dot] ([star] :: rest)) (joinWith [dot] (l :: rest')) = .ok true := by
  have hrest' : ∀ r ∈ rest', dot ∉ r := by
    intro r' hr'
    obtain ⟨i, hi, rfl⟩ := List.getElem_of_mem hr'
    have hlen : rest.length = rest'.length := by simpa using congrArg List.length hcase
    have hi' : i < rest.length := hlen ▸ hi
    have := congrArg (fun x => x[i]?) hcase
    simp only [List.getElem?_map, List.getElem?_eq_getElem hi, List.getElem?_eq_getElem hi', Option.map_some,
      Option.some.injEq] at this
    exact dot_notin_of_lower_eq this (hrest _ (List.getElem_mem hi'))
  have hsan : splitOn1 dot (joinWith [dot] ([star] :: rest)) = [star] :: rest :=
    splitOn1_join _ (by simp) (by
      intro x hx; rcases List.mem_cons.1 hx with h | h
      · subst h; decide
      · exact hrest x h)
  have hhost : splitOn1 dot (joinWith [dot] (l :: rest')) = l :: rest' :=
    splitOn1_join _ (by simp) (by
      intro x hx; rcases List.mem_cons.1 hx with h | h
      · subst h; exact hld
      · exact hrest' x h)
  rw [dnsnameMatch_eq (joinWith_cons_ne_nil _ _ (by decide)) hsan]
  have hall : l.all (fun x => x != dot) = true := by
    rw [List.all_eq_true]; intro x hx
    have : x ≠ dot := fun h => hld (h ▸ hx)
    simpa using this
  have hle : l.isEmpty = false := by cases l <;> simp_all
  simp [star, matchPats, hhost, matchLeft, hall, hle, labelsEqCI_iff.2 hcase]

example : dnsnameMatch (joinWith [dot] ([star] :: [lit "Example", lit "com"]))
    (joinWith [dot] (lit "www" :: [lit "example", lit "COM"])) = .ok true := by decide

/-- RFC 6125 6.4.3 (1): a `*` outside the left-most label is never a wildcard — an entry carrying one
accepts no genuine (star-free) host name. -/
theorem C08_rejects_wildcard_not_leftmost {san host : Str}
    (h : ∃ l ∈ (splitOn1 dot san).tail, star ∈ l) (hh : star ∉ host) :
    dnsnameMatch san host ≠ .ok true := by
  obtain ⟨l, hl, hstar⟩ := h
  by_cases hn : san = []
  · subst hn; simp [dnsnameMatch_nil]
  · obtain ⟨l0, r, hsp⟩ := split_cons_of_ne_nil san
    rw [hsp] at hl; simp only [List.tail_cons] at hl
    have hsan : star ∈ san := mem_of_mem_splitOn1 (hsp ▸ List.mem_cons_of_mem _ hl) hstar
    rw [dnsnameMatch_eq hn hsp]
    split
    · simp
    · split
      · intro heq
        simp only [Except.ok.injEq, beq_iff_eq] at heq
        exact hh (star_mem_of_lower_eq heq hsan)
      · intro heq
        simp only [Except.ok.injEq] at heq
        obtain ⟨h0, hs, hsplit, _, hlab⟩ := matchPats_true heq
        obtain ⟨b, hb, hab⟩ := labelsEqCI_mem hlab hl
        exact hh (mem_of_mem_splitOn1 (hsplit ▸ List.mem_cons_of_mem _ hb) (star_mem_of_lower_eq hab hstar))

example : (∃ l ∈ (splitOn1 dot (lit "a.*.c")).tail, star ∈ l) ∧ star ∉ lit "a.b.c" ∧
    dnsnameMatch (lit "a.*.c") (lit "a.b.c") = .ok false := by decide
-- why `star ∉ host` is needed: the later labels are compared literally
example : dnsnameMatch (lit "*.*") (lit "a.*") = .ok true := by decide

/-- More than one `*` in the left-most label: `CertificateError`, whatever the host. -/
theorem C08_rejects_multiple_wildcards_leftmost {san host leftmost : Str} {remainder : List Str}
    (hs : splitOn1 dot san = leftmost :: remainder) (h : leftmost.count star > 1) :
    dnsnameMatch san host = .error .certificateError := by
  have hn : san ≠ [] := by
    rintro rfl
    simp only [splitOn1, List.cons.injEq] at hs
    rw [← hs.1] at h; simp at h
  rw [dnsnameMatch_eq hn hs]; simp [h]

example : dnsnameMatch (lit "a*b*.c") (lit "ab.c") = .error .certificateError := by decide

/-- RFC 6125 / the code's policy: an entry with more than one `*` anywhere accepts no genuine host. -/
theorem C08_rejects_multiple_wildcards {san host : Str} (h : san.count star > 1) (hh : star ∉ host) :
    dnsnameMatch san host ≠ .ok true := by
  obtain ⟨l0, r, hsp⟩ := split_cons_of_ne_nil san
  by_cases h0 : l0.count star > 1
  · rw [C08_rejects_multiple_wildcards_leftmost hsp h0]; simp
  · apply C08_rejects_wildcard_not_leftmost _ hh
    have hsum := count_star_split san
    rw [hsp] at hsum ⊢
    simp only [List.map_cons, List.sum_cons, List.tail_cons] at hsum ⊢
    have hpos : 0 < (r.map (List.count star)).sum := by omega
    by_cases hex : ∃ l ∈ r, star ∈ l
    · exact hex
    · exact absurd (exists_star_of_sum_pos hpos) hex

example : (lit "*.*.c").count star > 1 ∧ dnsnameMatch (lit "*.*.c") (lit "a.b.c") = .ok false := by decide

/-- A wildcard never spans a dot: when the left-most label of the entry carries a `*`, an accepted
host has exactly as many labels as the entry, and all labels after the first agree up to case — the
wildcard's contribution is confined to the first label. -/
theorem C08_rejects_wildcard_spanning_dots {san host leftmost : Str} {remainder : List Str}
    (hs : splitOn1 dot san = leftmost :: remainder) (hw : star ∈ leftmost)
    (h : dnsnameMatch san host = .ok true) :
    (splitOn1 dot host).length = (splitOn1 dot san).length ∧
    (splitOn1 dot host).tail.map lower = remainder.map lower := by
  have hn : san ≠ [] := by
    rintro rfl
    simp only [splitOn1, List.cons.injEq] at hs
    rw [← hs.1] at hw; simp at hw
  have hc : leftmost.count star ≠ 0 := fun h0 => (List.count_eq_zero.1 h0) hw
  rw [dnsnameMatch_eq hn hs] at h
  by_cases h1 : leftmost.count star > 1
  · rw [if_pos h1] at h; cases h
  · rw [if_neg h1, if_neg hc] at h
    simp only [Except.ok.injEq] at h
    obtain ⟨h0, hs', hsplit, _, hlab⟩ := matchPats_true h
    have hm := labelsEqCI_iff.1 hlab
    rw [hsplit, hs]
    refine ⟨?_, by simpa using hm.symm⟩
    have := congrArg List.length hm
    simp only [List.length_map] at this
    simp [this]

example : dnsnameMatch (lit "*.c") (lit "a.b.c") = .ok false := by decide
example : dnsnameMatch (lit "a*.c") (lit "a.b.c") = .ok false := by decide

/-- A whole-label wildcard never matches an empty label (`.example` or the empty host). -/
theorem C08_rejects_wildcard_empty_label {san host : Str} {remainder hs' : List Str}
    (hs : splitOn1 dot san = [star] :: remainder) (hh : splitOn1 dot host = [] :: hs') :
    dnsnameMatch san host ≠ .ok true := by
  have hn : san ≠ [] := by
    rintro rfl
    simp [splitOn1] at hs
  rw [dnsnameMatch_eq hn hs]
  simp [star, matchPats, hh, matchLeft]

example : dnsnameMatch (lit "*.a") (lit ".a") = .ok false := by decide
example : dnsnameMatch (lit "*") (lit "") = .ok false := by decide

/-- RFC 6125 6.4.3 (3): a wildcard embedded in an A-label is taken literally, so such an entry accepts
no genuine host name.  The A-label is recognised by its ACE prefix "xn--" *in any capitalisation*
(RFC 5890 2.3.2.5), on the entry's side or (for partial wildcards) on the host's side. -/
theorem C08_rejects_wildcard_in_alabel {san host leftmost : Str} {remainder : List Str}
    (hs : splitOn1 dot san = leftmost :: remainder) (hw : star ∈ leftmost)
    (hx : lower (leftmost.take 4) = xnPrefix ∨ (lower (host.take 4) = xnPrefix ∧ leftmost ≠ [star]))
    (hh : star ∉ host) :
    dnsnameMatch san host ≠ .ok true := by
  have hn : san ≠ [] := by
    rintro rfl
    simp only [splitOn1, List.cons.injEq] at hs
    rw [← hs.1] at hw; simp at hw
  have hc : leftmost.count star ≠ 0 := fun h0 => (List.count_eq_zero.1 h0) hw
  have hne : leftmost ≠ [star] := by
    rcases hx with hx | hx
    · rintro rfl; revert hx; decide
    · exact hx.2
  have hor : (xnPrefix.isPrefixOf (lower leftmost) || xnPrefix.isPrefixOf (lower host)) = true := by
    rcases hx with hx | hx
    · simp [(xnPrefix_lower_iff leftmost).2 hx]
    · simp [(xnPrefix_lower_iff host).2 hx.1]
  rw [dnsnameMatch_eq hn hs]
  by_cases h1 : leftmost.count star > 1
  · rw [if_pos h1]; simp
  · rw [if_neg h1, if_neg hc, if_neg hne, if_pos hor]
    intro heq
    simp only [Except.ok.injEq] at heq
    obtain ⟨h0, hs', hsplit, hleft, _⟩ := matchPats_true heq
    simp only [matchLeft, beq_iff_eq] at hleft
    exact hh (mem_of_mem_splitOn1 (hsplit ▸ List.mem_cons_self) (star_mem_of_lower_eq hleft hw))

example : dnsnameMatch (lit "xn--a*.b") (lit "xn--ab.b") = .ok false := by decide
example : dnsnameMatch (lit "x*.b") (lit "xn--ab.b") = .ok false := by decide
-- the hypotheses are satisfiable by an upper-case and by a mixed-case prefix, on either side
example : splitOn1 dot (lit "XN--a*.b") = lit "XN--a*" :: [lit "b"] ∧ star ∈ lit "XN--a*" ∧
    lower ((lit "XN--a*").take 4) = xnPrefix ∧ star ∉ lit "XN--ab.b" := by decide
example : lower ((lit "Xn--ab.b").take 4) = xnPrefix ∧ lit "x*" ≠ [star] ∧
    dnsnameMatch (lit "x*.b") (lit "Xn--ab.b") = .ok false := by decide
-- without an ACE prefix on either side the partial wildcard is honoured (the clause is not vacuous)
example : dnsnameMatch (lit "xm--a*.b") (lit "xm--ab.b") = .ok true := by decide
/-- the input of the former finding `alabel-wildcard-uppercase-ace-prefix` (it used to be accepted):
the wildcard inside an A-label spelled with an upper-case ACE prefix is not honoured -/
theorem C08_alabel_uppercase_prefix_ok :
    dnsnameMatch (lit "XN--a*.b") (lit "XN--ab.b") = .ok false ∧
    dnsnameMatch (lit "xn--a*.b") (lit "XN--ab.b") = .ok false := by decide

/-! ## whole certificates (`match_hostname`) -/

/-- DNS entries (and commonName) against an IP host never match: when the requested host is an IP
literal, only an iPAddress entry whose value matches can make `match_hostname` succeed. -/
theorem C08_rejects_dns_san_for_ip_host {cert : Cert} {host : Str} {ip : IpAddr} {cn : Bool}
    (hip : hostIpOf host = some ip)
    (hno : ∀ e ∈ cert.san, e.1 = kIP → ipaddressMatch e.2 ip ≠ .ok true) :
    matchHostname (some cert) host cn ≠ .ok () := by
  unfold matchHostname
  simp only [hip]
  cases hl : sanLoop host (some ip) cert.san [] with
  | error e => simp
  | ok r =>
    cases r with
    | none =>
      obtain ⟨e, he, hk, hm⟩ := sanLoop_ip_match hl
      exact absurd hm (hno e he hk)
    | some names => simp

example : matchHostname (some ⟨[(kDNS, lit "1.2.3.4")], [[(kCN, lit "1.2.3.4")]]⟩) (lit "1.2.3.4") true
    = .error .certificateError := by decide

/-- iPAddress entries are compared by address value only: for an IP host and a certificate whose
iPAddress entries all parse, `match_hostname` succeeds iff some entry denotes the same packed
address — whatever the spelling on either side. -/
theorem C08_ip_san_by_value_iff {cert : Cert} {host : Str} {ip : IpAddr} {cn : Bool}
    (hip : hostIpOf host = some ip)
    (hp : ∀ e ∈ cert.san, e.1 = kIP → (ipAddress (rstrip e.2)).isSome) :
    matchHostname (some cert) host cn = .ok () ↔
      ∃ e ∈ cert.san, e.1 = kIP ∧ ∃ a, ipAddress (rstrip e.2) = some a ∧ a.packed = ip.packed := by
  have key := sanLoop_ip_iff (host := host) (ip := ip) (names := []) hp
  unfold matchHostname
  simp only [hip]
  cases hl : sanLoop host (some ip) cert.san [] with
  | error e => exact absurd hl (key.2 e)
  | ok r =>
    cases r with
    | none => simp only [true_iff]; exact key.1.1 hl
    | some names =>
      have : ¬ (sanLoop host (some ip) cert.san [] = .ok none) := by rw [hl]; simp
      simp only [Option.isNone_some, Bool.and_false, Bool.false_and, Bool.false_eq_true, if_false]
      constructor
      · intro h; cases h
      · intro h; exact absurd (key.1.2 h) this

-- different spellings, same value: accepted; same text class, different value: rejected;
-- an IPv4 address is not its IPv4-mapped IPv6 address (4 packed bytes against 16)
example : matchHostname (some ⟨[(kIP, lit "0:0:0:0:0:0:0:1")], []⟩) (lit "::1") = .ok () := by decide
example : matchHostname (some ⟨[(kIP, lit "FE80::1\n")], []⟩) (lit "fe80:0::0:1%eth0") = .ok () := by decide
example : matchHostname (some ⟨[(kIP, lit "1.2.3.4")], []⟩) (lit "1.2.3.5") = .error .certificateError := by decide
example : matchHostname (some ⟨[(kIP, lit "::ffff:1.2.3.4")], []⟩) (lit "1.2.3.4") = .error .certificateError := by decide

/-- `_ipaddress_match` itself: equal packed value iff accept. -/
theorem C08_ipaddress_match_iff {ipname : Str} {ip : IpAddr} :
    ipaddressMatch ipname ip = .ok true ↔ ∃ a, ipAddress (rstrip ipname) = some a ∧ a.packed = ip.packed := by
  unfold ipaddressMatch
  cases h : ipAddress (rstrip ipname) with
  | none => simp
  | some a => simp

/-- commonName is ignored as soon as the certificate has a dNSName or iPAddress entry: the subject
has no influence on the verdict, enabled or not. -/
theorem C08_rejects_cn_when_san_present {cert : Cert} {host : Str} {cn : Bool} (subject' : List (List (Str × Str)))
    (h : ∃ e ∈ cert.san, e.1 = kDNS ∨ e.1 = kIP) :
    matchHostname (some cert) host cn = matchHostname (some { cert with subject := subject' }) host cn := by
  unfold matchHostname
  simp only
  cases hl : sanLoop host (hostIpOf host) cert.san [] with
  | error e => rfl
  | ok r =>
    cases r with
    | none => rfl
    | some names =>
      have hne : names ≠ [] := (sanLoop_names hl).2 h
      have : names.isEmpty = false := by cases names <;> simp_all
      simp [this]

example : matchHostname (some ⟨[(kDNS, lit "x.y")], [[(kCN, lit "a.b")]]⟩) (lit "a.b") true
    = .error .certificateError := by decide

/-- commonName is ignored when `hostname_checks_common_name` is off. -/
theorem C08_rejects_cn_when_not_enabled {cert : Cert} {host : Str} (subject' : List (List (Str × Str))) :
    matchHostname (some cert) host false = matchHostname (some { cert with subject := subject' }) host false := by
  unfold matchHostname
  simp

example : matchHostname (some ⟨[], [[(kCN, lit "a.b")]]⟩) (lit "a.b") false = .error .certificateError ∧
    matchHostname (some ⟨[], [[(kCN, lit "a.b")]]⟩) (lit "a.b") true = .ok () := by decide

/-- An exact dNSName entry makes `match_hostname` succeed for a DNS host — wherever the entry stands
in the list and whatever the other entries are (a malformed dNSName in front of it, which makes
`_dnsname_match` raise, is passed over). -/
theorem C08_exact_san_accepts {cert : Cert} {v host : Str} {cn : Bool}
    (hmem : (kDNS, v) ∈ cert.san) (hv : v ≠ []) (hs : star ∉ v) (heq : lower v = lower host)
    (hdns : hostIpOf host = none) :
    matchHostname (some cert) host cn = .ok () := by
  have hm := C08_exact_accepts hv hs heq
  have : sanLoop host none cert.san [] = .ok none := sanLoop_dns_host_iff.2 ⟨(kDNS, v), hmem, rfl, hm⟩
  unfold matchHostname
  simp [hdns, this]

example : matchHostname (some ⟨[(kDNS, lit "*.x"), (kIP, lit "::1")] ++ (kDNS, lit "b.a") :: [], []⟩) (lit "B.A")
    = .ok () := by decide
example : (kDNS, lit "b.a") ∈ [(kDNS, lit "a**.x"), (kIP, lit "<invalid>"), (kDNS, lit "b.a")] ∧
    hostIpOf (lit "B.A") = none ∧ lower (lit "b.a") = lower (lit "B.A") := by decide
/-- the input of the former finding `accept-blocked-by-earlier-multi-wildcard-san` (the first
certificate used to be refused with `CertificateError`): the order of the entries does not matter -/
theorem C08_exact_san_after_multi_wildcard_ok :
    matchHostname (some ⟨[(kDNS, lit "**"), (kDNS, lit "b")], []⟩) (lit "b") = .ok () ∧
    matchHostname (some ⟨[(kDNS, lit "b"), (kDNS, lit "**")], []⟩) (lit "b") = .ok () := by decide

/-- Passing over malformed entries never turns into acceptance: for a DNS host (commonName not
enabled) `match_hostname` succeeds **iff** some dNSName entry is accepted by `_dnsname_match` — so
every reject clause proved above for a single entry carries over to whole certificates; a
certificate all of whose entries are malformed or non-matching is refused with `CertificateError`. -/
theorem C08_dns_host_accepts_iff_entry_matches {cert : Cert} {host : Str} (hdns : hostIpOf host = none) :
    (matchHostname (some cert) host false = .ok () ↔
      ∃ e ∈ cert.san, e.1 = kDNS ∧ dnsnameMatch e.2 host = .ok true) ∧
    (matchHostname (some cert) host false ≠ .ok () → matchHostname (some cert) host false = .error .certificateError) := by
  have key := sanLoop_dns_host_iff (host := host) (san := cert.san) (names := [])
  unfold matchHostname
  simp only [hdns]
  cases hl : sanLoop host none cert.san [] with
  | error x => exact absurd hl (sanLoop_dns_host_no_error x)
  | ok r =>
    cases r with
    | none => exact ⟨⟨fun _ => key.1 hl, fun _ => rfl⟩, fun h => absurd rfl h⟩
    | some names =>
      have hno : ¬ ∃ e ∈ cert.san, e.1 = kDNS ∧ dnsnameMatch e.2 host = .ok true := by
        intro h; rw [key.2 h] at hl; cases hl
      simp [hno]

example : matchHostname (some ⟨[(kDNS, lit "**")], []⟩) (lit "b") = .error .certificateError ∧
    matchHostname (some ⟨[(kDNS, lit "**"), (kDNS, lit "a*b*"), (kDNS, lit "c")], []⟩) (lit "b") = .error .certificateError ∧
    matchHostname (some ⟨[], [[(kCN, lit "**"), (kCN, lit "b")]]⟩) (lit "b") true = .ok () := by decide

/-- No certificate (`None` / `{}`): never accepted. -/
theorem C08_rejects_missing_certificate (host : Str) (cn : Bool) : matchHostname none host cn = .error .valueError := rfl

/-! ## the `_match_hostname` wrapper -/

/-- Brackets are stripped only around IP literals; every other name reaches `match_hostname` untouched. -/
theorem C08_wrapper_strips_brackets_only_for_ip (cert : Option Cert) (host : Str) (cn : Bool) :
    matchHostnameWrapper cert host cn =
      if isIpaddress (stripBrackets host) then matchHostname cert (stripBrackets host) cn
      else matchHostname cert host cn := by
  unfold matchHostnameWrapper
  split <;> simp_all

example : matchHostnameWrapper (some ⟨[(kIP, lit "::1")], []⟩) (lit "[0:0::1]") = .ok () ∧
    matchHostname (some ⟨[(kIP, lit "::1")], []⟩) (lit "[0:0::1]") = .error .certificateError ∧
    matchHostnameWrapper (some ⟨[(kDNS, lit "a")], []⟩) (lit "[a]") = .error .certificateError := by decide

/-! ## fingerprints (`assert_fingerprint`), digests uninterpreted -/

/-- The generated `HASHFUNC_MAP`: lengths 32 / 40 / 64 select md5 / sha1 / sha256 … -/
theorem C08_hash_table_selects :
    algOfLength 32 = some .md5 ∧ algOfLength 40 = some .sha1 ∧ algOfLength 64 = some .sha256 := by decide

/-- … and no other length selects anything. -/
theorem C08_hash_table_only (n : Nat) (alg : Alg) (h : algOfLength n = some alg) :
    (n = 32 ∧ alg = .md5) ∨ (n = 40 ∧ alg = .sha1) ∨ (n = 64 ∧ alg = .sha256) := by
  have hsel := C08_hash_table_selects
  by_cases h32 : n = 32
  · subst h32; rw [hsel.1] at h; cases h; simp
  · by_cases h40 : n = 40
    · subst h40; rw [hsel.2.1] at h; cases h; simp
    · by_cases h64 : n = 64
      · subst h64; rw [hsel.2.2] at h; cases h; simp
      · have e1 : (32 == n) = false := by simpa using fun e : 32 = n => h32 e.symm
        have e2 : (40 == n) = false := by simpa using fun e : 40 = n => h40 e.symm
        have e3 : (64 == n) = false := by simpa using fun e : 64 = n => h64 e.symm
        simp [algOfLength, hashEntry, Gen.hashfuncMap, List.find?, e1, e2, e3] at h

/-- The length of the hex pin that selects an algorithm is twice that algorithm's digest size
(md5 16, sha1 20, sha256 32 bytes). -/
theorem C08_hash_table_digest_size (n : Nat) (alg : Alg) (h : algOfLength n = some alg) :
    n = 2 * (match alg with | .md5 => 16 | .sha1 => 20 | .sha256 => 32 | .other _ => 0) := by
  rcases C08_hash_table_only n alg h with ⟨rfl, rfl⟩ | ⟨rfl, rfl⟩ | ⟨rfl, rfl⟩ <;> rfl

/-- Accept iff the normalised pin (colons removed, lower-cased) has a length listed in the table and
is the hex of the digest the table selects for that length. -/
theorem C08_fingerprint_iff (H : Alg → Bytes → Bytes) (cert : Bytes) (pin : Str) :
    assertFingerprint H (some cert) pin = .ok () ↔
      ∃ alg, algOfLength (normPin pin).length = some alg ∧ unhexlify (normPin pin) = some (H alg cert) := by
  unfold assertFingerprint algOfLength
  simp only
  cases he : hashEntry (normPin pin).length with
  | none => simp
  | some e =>
    obtain ⟨name, avail⟩ := e
    cases avail with
    | false => simp
    | true =>
      simp only [Option.some.injEq, exists_eq_left']
      cases hu : unhexlify (normPin pin) with
      | none => split <;> simp
      | some b =>
        have hsur : (normPin pin).any (fun c => decide (0xD800 ≤ c) && decide (c ≤ 0xDFFF)) = false := by
          rw [List.any_eq_false]
          intro c hc
          have := hexVal_lt_128 (unhexlify_some_hex hu c hc)
          simp; omega
        simp only [hsur, Bool.false_eq_true, if_false, Option.some.injEq]
        by_cases hb : H (algOfName name) cert = b
        · simp [hb]
        · have : (H (algOfName name) cert == b) = false := by simpa using hb
          simp [this]; exact fun h => hb h.symm

example : ∃ pin, assertFingerprint (fun _ _ => List.replicate 16 171) (some [1, 2, 3]) pin = .ok () :=
  ⟨lit "AB:ab:AB:ab:AB:ab:AB:ab:AB:ab:AB:ab:AB:ab:AB:ab", by decide⟩

/-- Pins of any other length are rejected. -/
theorem C08_fingerprint_rejects_other_lengths (H : Alg → Bytes → Bytes) (cert : Option Bytes) (pin : Str)
    (h : (normPin pin).length ≠ 32 ∧ (normPin pin).length ≠ 40 ∧ (normPin pin).length ≠ 64) :
    assertFingerprint H cert pin ≠ .ok () := by
  cases cert with
  | none => simp [assertFingerprint]
  | some c =>
    intro hok
    obtain ⟨alg, ha, _⟩ := (C08_fingerprint_iff H c pin).1 hok
    rcases C08_hash_table_only _ _ ha with h' | h' | h' <;> omega

example : assertFingerprint (fun _ _ => []) (some []) [] = .error .sslError := by decide

/-- Case and colons are ignored: upper-casing the pin or inserting / removing a colon anywhere does
not change the verdict. -/
theorem C08_fingerprint_ignores_case_and_colons (H : Alg → Bytes → Bytes) (cert : Option Bytes) (a b : Str) :
    assertFingerprint H cert (upper (a ++ b)) = assertFingerprint H cert (a ++ b) ∧
    assertFingerprint H cert (a ++ colon :: b) = assertFingerprint H cert (a ++ b) := by
  unfold assertFingerprint
  rw [normPin_upper, normPin_insert_colon]
  exact ⟨rfl, rfl⟩

/-- A pin that decodes to anything but the selected digest is rejected (single-nibble flips,
foreign digests): the comparison is on the whole digest. -/
theorem C08_fingerprint_rejects_wrong_digest (H : Alg → Bytes → Bytes) (cert : Bytes) (pin : Str) (alg : Alg) (b : Bytes)
    (ha : algOfLength (normPin pin).length = some alg) (hu : unhexlify (normPin pin) = some b) (hne : b ≠ H alg cert) :
    assertFingerprint H (some cert) pin ≠ .ok () := by
  intro hok
  obtain ⟨alg', ha', hu'⟩ := (C08_fingerprint_iff H cert pin).1 hok
  rw [ha] at ha'; cases ha'
  rw [hu] at hu'; cases hu'
  exact hne rfl

end U3.Props
