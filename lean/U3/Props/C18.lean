import U3.Model.PoolKey
namespace U3.Props
open U3 U3.PoolKey
theorem C18_placeholder : (1:Nat) = 1 := rfl
end U3.Props
