import U3.Model.PoolKey
import U3.Lemmas.PoolKey
/-!
# C18 — connections are never shared across differing connection settings

Theorems about `U3.PoolKey` (the model the driver `poolkey` executes against the real
`PoolManager`).  `normalize` is `_default_key_normalizer` over the *generated* `PoolKey._fields`;
the keyword tables are the *generated* constructor signatures.
-/
namespace U3.Props
open U3 U3.PoolKey

/-! ## the key determines the settings -/

/-- Equal pool keys ⇒ equivalent request contexts (equal up to scheme/host ASCII case, dict item
order, list-vs-tuple, absent-vs-`None`, `blocksize` default) — for arbitrary values of every
keyword.  `IsDict`: a Python dict has each key once.  `NoClash`: no keyword is `"key_"` + another
keyword of the same context; this holds for every context made of constructor-accepted keywords
(`C18_accepted_no_clash`) and cannot be dropped (`C18_clash_witness`). -/
theorem C18_key_injective {c₁ c₂ : Ctx} {k : Key}
    (d₁ : IsDict c₁) (d₂ : IsDict c₂) (n₁ : NoClash c₁) (n₂ : NoClash c₂)
    (h₁ : normalize c₁ = .ok k) (h₂ : normalize c₂ = .ok k) : CtxEquiv c₁ c₂ :=
  injective_with d₁ d₂ n₁ n₂ h₁ h₂

/-- every context whose keywords are accepted by some pool / connection constructor (or are
`scheme` / `_socks_options`) is clash-free: table fact over the generated signatures -/
theorem C18_accepted_no_clash {c : Ctx} (h : ∀ k ∈ keys c, k ∈ acceptedKeywords) : NoClash c := by
  have table : ∀ a ∈ acceptedKeywords, keyPrefix ++ a ∉ acceptedKeywords := by decide +kernel
  intro k hk hm
  exact table k (h k hk) (h _ hm)

/-- the full-strength statement on the property's domain: contexts over accepted keywords -/
theorem C18_key_injective_accepted {c₁ c₂ : Ctx} {k : Key}
    (d₁ : IsDict c₁) (d₂ : IsDict c₂)
    (a₁ : ∀ x ∈ keys c₁, x ∈ acceptedKeywords) (a₂ : ∀ x ∈ keys c₂, x ∈ acceptedKeywords)
    (h₁ : normalize c₁ = .ok k) (h₂ : normalize c₂ = .ok k) : CtxEquiv c₁ c₂ :=
  C18_key_injective d₁ d₂ (C18_accepted_no_clash a₁) (C18_accepted_no_clash a₂) h₁ h₂

/-- contexts that are not equivalent get distinct keys -/
theorem C18_inequivalent_distinct {c₁ c₂ : Ctx} {k₁ k₂ : Key}
    (d₁ : IsDict c₁) (d₂ : IsDict c₂) (n₁ : NoClash c₁) (n₂ : NoClash c₂)
    (h₁ : normalize c₁ = .ok k₁) (h₂ : normalize c₂ = .ok k₂) (hne : ¬ CtxEquiv c₁ c₂) : k₁ ≠ k₂ := by
  intro e; subst e
  exact hne (C18_key_injective d₁ d₂ n₁ n₂ h₁ h₂)

/-- changing the value of exactly one keyword to a non-equivalent value changes the key -/
theorem C18_differs_in_one {c : Ctx} {kw : Str} {v : Val} {k₁ k₂ : Key}
    (d : IsDict c) (d' : IsDict (set c kw v)) (n : NoClash c) (n' : NoClash (set c kw v))
    (h₁ : normalize c = .ok k₁) (h₂ : normalize (set c kw v) = .ok k₂)
    (hne : ¬ FieldEquiv kw (optV (get c kw)) v) : k₁ ≠ k₂ := by
  apply C18_inequivalent_distinct d d' n n' h₁ h₂
  intro he
  have := he kw
  rw [get_set] at this
  simp only [if_true, optV, Option.getD_some] at this
  exact hne this

/-! ## every keyword is keyed or rejected -/

/-- a keyword that is no `PoolKey` field makes the key constructor fail — with `TypeError` once
the lower-casing / freezing half went through -/
theorem C18_unknown_rejected {c : Ctx} {kw : Str} (d : IsDict c) (n : NoClash c)
    (hk : kw ∈ keys c) (hf : keyField kw ∉ Gen.poolKeyFields) :
    (∀ k, normalize c ≠ .ok k) ∧ (∀ c₆, pre c = .ok c₆ → normalize c = .error .typeError) := by
  constructor
  · intro k h
    exact hf ((normalize_spec d n h).2.1 kw hk)
  · intro c₆ h₆
    exact normalize_unknown d n hk hf h₆

/-- Completeness over the generated signatures: every keyword named by a pool or connection
constructor is a `PoolKey` field (after `key_` prefixing), or positional, or one of the hand-listed
internal keywords — and those are rejected by the normaliser. -/
theorem C18_every_keyword_keyed_or_rejected :
    ∀ kw ∈ Gen.poolCtorKeywords ++ Gen.connCtorKeywords,
      keyField kw ∈ Gen.poolKeyFields ∨ kw ∈ positional ∨
      (kw ∈ internalKeywords ∧
        ∀ c, IsDict c → NoClash c → kw ∈ keys c → ∀ k, normalize c ≠ .ok k) := by
  have table : ∀ kw ∈ Gen.poolCtorKeywords ++ Gen.connCtorKeywords,
      keyField kw ∈ Gen.poolKeyFields ∨ kw ∈ positional ∨
        (kw ∈ internalKeywords ∧ keyField kw ∉ Gen.poolKeyFields) := by decide +kernel
  intro kw hkw
  rcases table kw hkw with h | h | ⟨h, hf⟩
  · exact Or.inl h
  · exact Or.inr (Or.inl h)
  · exact Or.inr (Or.inr ⟨h, fun c d n hk => (C18_unknown_rejected d n hk hf).1⟩)

/-- the keywords `_new_pool` drops for `http` pools are all key fields, and none of them is a
keyword of `HTTPConnection` / `HTTPConnectionPool`: nothing an http connection uses is dropped -/
theorem C18_ssl_keywords_keyed_and_unused_by_http :
    ∀ kw ∈ Gen.sslKeywords, keyField kw ∈ Gen.poolKeyFields ∧
      kw ∉ Gen.httpConnKeywords ∧ kw ∉ Gen.httpPoolKeywords := by decide +kernel

/-- the named parameters of the two managers are the known manager-level ones (a new one needs a
look at how it reaches the pool key) -/
theorem C18_manager_keywords_accounted :
    ∀ kw ∈ Gen.poolManagerKeywords ++ Gen.proxyManagerKeywords, kw ∈ managerLevelKeywords := by
  decide +kernel

/-! ## per-request overrides never alter the manager's defaults -/

/-- the value a merged context has for keyword `x`: the override wins, `None` deletes -/
theorem C18_merge_semantics (defaults o : Ctx) (d : IsDict o) (x : Str) :
    get (merge defaults (some o)) x =
      match get o x with
      | none => get defaults x
      | some .none => none
      | some v => some v := by
  unfold merge
  cases o with
  | nil => simp
  | cons p t =>
    simp only [List.isEmpty_cons, Bool.false_eq_true, if_false]
    exact get_foldl_merge _ d defaults x

/-- no request changes the manager's defaults (functionally trivial; the aliasing half — that the
real code copies `connection_pool_kw` — is carried by the correspondence run) -/
theorem C18_merge_pure (m : Mgr) (host : Option Str) (port : Val) (scheme : Option Str)
    (kw : Option Ctx) (rc : Ctx) :
    (fromHost m host port scheme kw).1.defaults = m.defaults ∧
    (fromContext m rc).1.defaults = m.defaults ∧ merge m.defaults none = m.defaults := by
  have hc : ∀ rc, (fromContext m rc).1.defaults = m.defaults := by
    intro rc
    unfold fromContext
    dsimp only
    repeat' split
    all_goals rfl
  refine ⟨?_, hc rc, rfl⟩
  unfold fromHost
  split
  · rfl
  · exact hc _

/-! ## scheme / host case and explicit-vs-default port do not matter -/

/-- `connection_from_host` with hosts and schemes equal up to ASCII case (same defaults, same
`pool_kwargs`, same port argument) computes the same pool key; and passing no port is the same
request context as passing the scheme's default port. -/
theorem C18_case_port_normalised (d : Ctx) (kw : Option Ctx) (p : Val) {s₁ s₂ h₁ h₂ : Str}
    {c₁ c₂ : Ctx} (hs : lower s₁ = lower s₂) (hh : lower h₁ = lower h₂)
    (e₁ : requestContext d (some h₁) p (some s₁) kw = .ok c₁)
    (e₂ : requestContext d (some h₂) p (some s₂) kw = .ok c₂) :
    normalize c₁ = normalize c₂ ∧
    ∀ n, List.lookup (lower (schemeOr s₁)) Gen.portByScheme = some n → n ≠ 0 →
      requestContext d (some h₁) .none (some s₁) kw = requestContext d (some h₁) (.int n) (some s₁) kw := by
  constructor
  · rw [requestContext_eq] at e₁ e₂
    split at e₁; · cases e₁
    split at e₂; · cases e₂
    cases e₁; cases e₂
    have hl := lower_schemeOr hs
    have hp : portOr p (schemeOr s₁) = portOr p (schemeOr s₂) := by unfold portOr; rw [hl]
    rw [hp]
    exact normalize_hostCtx_case _ _ hl hh
  · intro n hn hne
    rw [requestContext_eq, requestContext_eq]
    have : portOr .none (schemeOr s₁) = portOr (.int n) (schemeOr s₁) := by
      unfold portOr
      have : (n : Int) ≠ 0 := by omega
      simp [Val.truthy, hn, this]
    rw [this]

/-! ## the clash: why `NoClash` is needed -/

/-- `{"file": "X", "key_file": "Y"}` and `{"file": "X", "key_file": "Z"}` get the same key although
they differ in `key_file`: the renaming loop overwrites `key_file` with `file`'s value.  (`file` is
accepted by no constructor, so no connection can be made from such a context.) -/
theorem C18_clash_witness :
    ∃ c₁ c₂ : Ctx, IsDict c₁ ∧ IsDict c₂ ∧ normalize c₁ = normalize c₂ ∧
      (∃ k, normalize c₁ = .ok k) ∧ ¬ CtxEquiv c₁ c₂ := by
  refine ⟨[(kScheme, .str kHttp), (kHost, .str (lit "a")), (lit "file", .str (lit "X")), (lit "key_file", .str (lit "Y"))],
          [(kScheme, .str kHttp), (kHost, .str (lit "a")), (lit "file", .str (lit "X")), (lit "key_file", .str (lit "Z"))],
          by decide, by decide, by decide +kernel, exists_of_isOk (by decide +kernel), ?_⟩
  intro h
  have := h (lit "key_file")
  rw [fieldEquiv_plain (by decide) (by decide) (by decide) (by decide)] at this
  revert this
  decide +kernel

/-! ## non-vacuity -/

def exA : Ctx := [(kScheme, .str (lit "HTTPS")), (kHost, .str (lit "Example.COM")), (kPort, .int 443),
  (kHeaders, .dict [(lit "B", lit "2"), (lit "A", lit "1")]), (lit "ssl_context", .obj 1),
  (kSocketOptions, .list [.list [.int 6, .int 1, .int 1]])]
def exB : Ctx := [(kHost, .str (lit "example.com")), (kScheme, .str (lit "https")),
  (kHeaders, .dict [(lit "A", lit "1"), (lit "B", lit "2")]), (kPort, .int 443), (lit "ssl_context", .obj 1),
  (kSocketOptions, .list [.list [.int 6, .int 1, .int 1]]), (lit "timeout", .none), (kBlocksize, .int 16384)]

/-- hypotheses of `C18_key_injective` are satisfiable by two syntactically different contexts -/
example : IsDict exA ∧ IsDict exB ∧ NoClash exA ∧ NoClash exB ∧ normalize exA = normalize exB ∧
    ∃ k, normalize exA = .ok k := by
  refine ⟨by decide, by decide, by decide, by decide, by decide +kernel, exists_of_isOk (by decide +kernel)⟩

/-- `C18_differs_in_one`: another `ssl_context` object gives another key -/
example : isOk (normalize exA) = true ∧ isOk (normalize (set exA (lit "ssl_context") (.obj 2))) = true ∧
    normalize exA ≠ normalize (set exA (lit "ssl_context") (.obj 2)) ∧
    IsDict (set exA (lit "ssl_context") (.obj 2)) ∧ NoClash (set exA (lit "ssl_context") (.obj 2)) ∧
    ¬ FieldEquiv (lit "ssl_context") (optV (get exA (lit "ssl_context"))) (.obj 2) := by
  refine ⟨by decide +kernel, by decide +kernel, by decide +kernel, by decide +kernel, by decide +kernel, ?_⟩
  rw [fieldEquiv_plain (by decide) (by decide) (by decide) (by decide)]
  decide +kernel

/-- `C18_case_port_normalised`: `HTTP://EXAMPLE.com` without port and `http://example.com:80` -/
example : ∃ c₁ c₂, requestContext [] (some (lit "EXAMPLE.com")) .none (some (lit "HTTP")) none = .ok c₁ ∧
    requestContext [] (some (lit "example.com")) (.int 80) (some (lit "http")) none = .ok c₂ ∧
    c₁ ≠ c₂ ∧ normalize c₁ = normalize c₂ ∧ isOk (normalize c₁) = true ∧
    List.lookup (lower (schemeOr (lit "HTTP"))) Gen.portByScheme = some 80 := by
  refine ⟨_, _, rfl, rfl, by decide +kernel, by decide +kernel, by decide +kernel, by decide +kernel⟩

/-- `C18_unknown_rejected`: `proxy` (a connection keyword outside `PoolKey`) is rejected -/
example : normalize (exA ++ [(lit "proxy", .obj 3)]) = .error .typeError ∧
    keyField (lit "proxy") ∉ Gen.poolKeyFields := by
  refine ⟨by decide +kernel, by decide +kernel⟩

/-- `C18_merge_semantics`: override, delete, keep -/
example : merge [(lit "timeout", .int 3), (lit "retries", .int 2), (lit "block", .bool true)]
    (some [(lit "timeout", .int 7), (lit "retries", .none), (lit "maxsize", .int 5)]) =
    [(lit "timeout", .int 7), (lit "block", .bool true), (lit "maxsize", .int 5)] := by decide +kernel

end U3.Props
