import U3.Model.Url
import U3.Lemmas.Url
import U3.Lemmas.UrlCase
import U3.Lemmas.UrlHost
import U3.Lemmas.UrlReparse
/-!
# C14 — URL parsing is total, canonical, and agrees with RFC 3986 on what the host is

Theorems about `U3.Url.parseUrlWith` (the model of `parse_url`, `idna.encode` a parameter) and its
components.  `NormalForm A s` = "every character of `s` is in the allowed set `A` or part of an
upper-case valid escape" (`U3.Lemmas.Url`).  A statement that is false of the code as it stands is
proved under the hypothesis that excludes exactly the defect; the full statement is in the comment
above it.  The three
classes of inputs on which the tree still violates the property (known findings, see
`notes/C14.md`) are pinned by the `…_witness` theorems, proved by evaluating the model; the repaired
finding `rfc-mismatch:dollar-newline` (`_HOST_PORT_RE` / `_IPV6_ADDRZ_RE` now end in `\Z`) is pinned
by the positive `C14_dollar_newline_rejected`.
-/
namespace U3.Props
open U3 U3.Url

def http : Str := [104, 116, 116, 112]
def https : Str := [104, 116, 116, 112, 115]

/-! ## totality: the exception funnel -/

/-- the only failure value of `parse_url` is `LocationParseError` (for every IDNA oracle) -/
theorem C14_error_funnel (idna : Str → Option Str) (s : Str) (e : Exc)
    (h : parseUrlWith idna s = .error e) : e = .locationParseError := by
  unfold parseUrlWith at h
  split at h
  · simp at h
  · split at h
    · rename_i e' he
      simp only [Except.error.injEq] at h
      subst h
      cases hc : parseCore idna s with
      | ok a => rw [hc] at he; simp [funnel] at he
      | error e0 =>
        rw [hc] at he
        rcases parseCore_err hc with rfl | rfl <;> simpa [funnel] using he.symm
    · simp at h

-- non-vacuity: "http://[" fails, and with exactly this class
example : parseUrl [104, 116, 116, 112, 58, 47, 47, 91] = .error .locationParseError := by decide

/-! ## `_encode_invalid_chars` -/

/-- encoding twice = encoding once, for each of the five generated RFC 3986 character sets -/
theorem C14_encode_idempotent (A : List Nat)
    (hA : A ∈ [Gen.unreservedChars, Gen.userinfoChars, Gen.pathChars, Gen.queryChars, Gen.fragmentChars])
    (s : Str) : encodeInvalidChars A (encodeInvalidChars A s) = encodeInvalidChars A s := by
  simp only [List.mem_cons, List.not_mem_nil, or_false] at hA
  rcases hA with rfl | rfl | rfl | rfl | rfl
  · exact encode_idempotent _ encSet_unreserved.1 encSet_unreserved.2 s
  · exact encode_idempotent _ encSet_userinfo.1 encSet_userinfo.2 s
  · exact encode_idempotent _ encSet_path.1 encSet_path.2 s
  · exact encode_idempotent _ encSet_query.1 encSet_query.2 s
  · exact encode_idempotent _ encSet_fragment.1 encSet_fragment.2 s

/-- the encoder's output is in normal form: allowed characters and upper-case escapes only -/
theorem C14_encode_normal_form (A : List Nat)
    (hA : A ∈ [Gen.unreservedChars, Gen.userinfoChars, Gen.pathChars, Gen.queryChars, Gen.fragmentChars])
    (s : Str) : NormalForm A (encodeInvalidChars A s) := by
  simp only [List.mem_cons, List.not_mem_nil, or_false] at hA
  rcases hA with rfl | rfl | rfl | rfl | rfl
  · exact encode_normal _ encSet_unreserved.1 encSet_unreserved.2 s
  · exact encode_normal _ encSet_userinfo.1 encSet_userinfo.2 s
  · exact encode_normal _ encSet_path.1 encSet_path.2 s
  · exact encode_normal _ encSet_query.1 encSet_query.2 s
  · exact encode_normal _ encSet_fragment.1 encSet_fragment.2 s

/-- "no double-encoding of valid escapes": a component already in normal form is left alone -/
theorem C14_encode_keeps_normal (A : List Nat)
    (hA : A ∈ [Gen.unreservedChars, Gen.userinfoChars, Gen.pathChars, Gen.queryChars, Gen.fragmentChars])
    (s : Str) (hs : NormalForm A s) : encodeInvalidChars A s = s := by
  obtain ⟨ts, hg, rfl⟩ := hs
  simp only [List.mem_cons, List.not_mem_nil, or_false] at hA
  rcases hA with rfl | rfl | rfl | rfl | rfl
  · exact encode_fixed _ encSet_unreserved.2 ts hg
  · exact encode_fixed _ encSet_userinfo.2 ts hg
  · exact encode_fixed _ encSet_path.2 ts hg
  · exact encode_fixed _ encSet_query.2 ts hg
  · exact encode_fixed _ encSet_fragment.2 ts hg

-- non-vacuity: "a%2fb c" -> "a%2Fb%20c" (escape upper-cased, not re-encoded; space encoded),
-- and a mixed component "%zz%41" is re-encoded wholesale: "%25zz%2541"
example : encodeInvalidChars Gen.pathChars [97, 37, 50, 102, 98, 32, 99] =
    [97, 37, 50, 70, 98, 37, 50, 48, 99] := by decide
example : encodeInvalidChars Gen.pathChars [37, 122, 122, 37, 52, 49] =
    [37, 50, 53, 122, 122, 37, 50, 53, 52, 49] := by decide
example : NormalForm Gen.pathChars [97, 37, 50, 70, 98] :=
  ⟨[.chr 97, .esc 50 70, .chr 98], by decide, by decide⟩

/-! ## `_remove_path_dot_segments` -/

theorem C14_dotseg_idempotent (p : Str) :
    removeDotSegments (removeDotSegments p) = removeDotSegments p :=
  removeDotSegments_idempotent p

/-- no `.` / `..` segment remains -/
theorem C14_dotseg_no_dot_segment (p : Str) :
    ∀ seg ∈ splitOn1 47 (removeDotSegments p), seg ≠ dot ∧ seg ≠ dotdot :=
  removeDotSegments_no_dots p

-- non-vacuity: "/a/./b/../../c/.." -> "/"
example : removeDotSegments [47, 97, 47, 46, 47, 98, 47, 46, 46, 47, 46, 46, 47, 99, 47, 46, 46] = [47] := by
  decide

/-! ## normal form of a successful parse -/

/-- port within 0–65535 -/
theorem C14_port_bound (idna : Str → Option Str) (s : Str) (u : Url)
    (h : parseUrlWith idna s = .ok u) : ∀ p, u.port = some p → p ≤ 65535 := by
  rcases parseUrlWith_ok h with rfl | ⟨sc, au, ho, po, pa, q, f, hc, rfl⟩
  · intro p hp; simp [Url.empty] at hp
  · obtain ⟨sc0, authority, p0, q0, f0, h0, port, -, -, hport, -⟩ := parseCore_ok hc
    intro p hp
    exact portToInt_ok hport p (by simpa [mkUrl] using hp)

/-- the scheme is lower-case (ASCII), whatever the scheme -/
theorem C14_scheme_lower (idna : Str → Option Str) (s : Str) (u : Url)
    (h : parseUrlWith idna s = .ok u) : ∀ sc, u.scheme = some sc → lower sc = sc := by
  rcases parseUrlWith_ok h with rfl | ⟨sc, au, ho, po, pa, q, f, hc, rfl⟩
  · intro sc hs; simp [Url.empty] at hs
  · intro sc' hs
    cases sc with
    | none => simp [mkUrl] at hs
    | some x =>
      simp only [mkUrl, Option.map_some, Option.some.injEq] at hs
      rw [← hs]; exact lower_idem x

/-
Full statement (DESIGN §6): on success with scheme ∈ {http, https, none}: scheme and host lower-case,
port ≤ 65535, no `.`/`..` segment in the path, every char of auth/path/query/fragment in the
component's allowed set or part of an upper-case valid escape.

Proved here: the character clause for all four components (for the path *including* the `/` that
`Url.__new__` may prepend) and the dot-segment clause for the final path (the encoder acts
segment-wise and never turns a segment into `.` or `..`), together with `C14_port_bound` and
`C14_scheme_lower` above (which hold for every scheme).  The only clause not in this theorem is
"host lower-case", which is `C14_host_lower` below (a separate theorem because an RFC 6874 zone id
keeps its case and the IDNA answers enter through a contract).
-/
theorem C14_normal_form (idna : Str → Option Str) (s : Str) (u : Url)
    (h : parseUrlWith idna s = .ok u) (hs : u.scheme ∈ [some http, some https, none]) :
    (∀ x, u.auth = some x → NormalForm Gen.userinfoChars x) ∧
    (∀ x, u.path = some x → NormalForm Gen.pathChars x) ∧
    (∀ x, u.path = some x → ∀ seg ∈ splitOn1 47 x, seg ≠ dot ∧ seg ≠ dotdot) ∧
    (∀ x, u.query = some x → NormalForm Gen.queryChars x) ∧
    (∀ x, u.fragment = some x → NormalForm Gen.fragmentChars x) := by
  rcases parseUrlWith_ok h with rfl | ⟨sc, au, ho, po, pa, q, f, hc, rfl⟩
  · simp [Url.empty]
  · obtain ⟨sc0, authority, p0, q0, f0, h0, port, hsc, hauth, -, -, hpa, hq, hf⟩ := parseCore_ok hc
    have hn : normalizeUriOf sc0 = true := by
      apply normalizeUriOf_of_scheme
      rw [← hsc]
      simpa [mkUrl, http, https] using hs
    rw [hn] at hauth hpa hq hf
    refine ⟨?_, ?_, ?_, ?_, ?_⟩
    · intro x hx
      exact parseAuthority_auth_normal hauth x (by simpa [mkUrl] using hx)
    · intro x hx
      have hpn : NormalForm Gen.pathChars pa := hpa ▸ normPath_normal p0
      rw [mkUrl_path hx]
      unfold finalPath
      split
      · exact normalForm_cons _ 47 _ (by decide) hpn
      · exact hpn
    · intro x hx
      rw [mkUrl_path hx, hpa]
      exact cleanJoin_no_dots (finalPath_clean p0)
    · intro x hx
      exact normOpt_normal encSet_query x (by rw [← hq]; simpa [mkUrl] using hx)
    · intro x hx
      exact normOpt_normal encSet_fragment x (by rw [← hf]; simpa [mkUrl] using hx)

-- non-vacuity: "http://h/a/./%2e/x/../b" : the literal dot segments go, the *escaped* dot stays as
-- "%2E" (it is not a dot segment) and nothing the encoder emits is one
example : parseUrl [104, 116, 116, 112, 58, 47, 47, 104, 47, 97, 47, 46, 47, 37, 50, 101, 47, 120, 47, 46, 46, 47, 98] =
    .ok ⟨some http, none, some [104], none, some [47, 97, 47, 37, 50, 69, 47, 98], none, none⟩ := by decide
-- non-vacuity: "HTTP://u%3a@H/a b?%zz#é" parses, with scheme http
example : (parseUrl [72, 84, 84, 80, 58, 47, 47, 117, 37, 51, 97, 64, 72, 47, 97, 32, 98, 63, 37, 122, 122, 35, 233]).toOption.map (·.scheme)
    = some (some http) := by decide

/-! ## non-vacuity of the parser itself: nested `@`, backslash, zone id, upper-case escapes -/

/-- "http://a@b@c\d" : userinfo is everything before the *last* `@`, the backslash ends the
authority: auth "a%40b", host "c", path "/%5Cd" -/
theorem C14_example_nested_at_backslash :
    parseUrl [104, 116, 116, 112, 58, 47, 47, 97, 64, 98, 64, 99, 92, 100] =
      .ok ⟨some http, some [97, 37, 52, 48, 98], some [99], none, some [47, 37, 53, 67, 100], none, none⟩ := by
  decide

/-- "http://[FE80::1%25Eth0]:080/%7e" : address lower-cased, zone delimiter unquoted and zone case
kept, port 80, escape upper-cased -/
theorem C14_example_zone_port_escape :
    parseUrl [104, 116, 116, 112, 58, 47, 47, 91, 70, 69, 56, 48, 58, 58, 49, 37, 50, 53, 69, 116, 104, 48, 93,
        58, 48, 56, 48, 47, 37, 55, 101] =
      .ok ⟨some http, none, some [91, 102, 101, 56, 48, 58, 58, 49, 37, 69, 116, 104, 48, 93], some 80,
        some [47, 37, 55, 69], none, none⟩ := by
  decide

/-! ## the independent RFC 3986 reading -/

/-- **Agreement with the RFC 3986 reading.**  Whenever parsing succeeds and the reference reading
finds an authority, urllib3's host, port and userinfo are those of the reference reading
(normalised the same way): the host is `_normalize_host` of the reference host text (`None` and `""`
identified), the port is the numeric value of the reference port text — which consists of digits
only —, the userinfo is the text before the last `@`, percent-encoded.  So no input makes the model
address a host other than the one the reference parser sees.  Moreover the reference authority of an
accepted input is always well formed (an IP-literal is closed and followed by nothing or `:port`).

Hypothesis = exactly the complement of the one remaining `rfc-mismatch:*` finding: the RFC scheme (if
any) contains no `.` (`rfc-mismatch:dotted-scheme`); it is a decidable predicate of the *reference
reading* of the input.  Until the `\Z` repair of `_HOST_PORT_RE` the theorem also needed "the
reference authority is well formed, with no `"\n"` at the end of the port text"
(`rfc-mismatch:dollar-newline`); both hypotheses are gone: the port text is now proved to be all
digits outright and well-formedness has become a conclusion. -/
theorem C14_agrees_with_rfc (idna : Str → Option Str) (s : Str) (u : Url) (r : RefAuth)
    (h : parseUrlWith idna s = .ok u) (hr : refAuthority s = some r)
    (hdot : ∀ sch, refScheme s = some sch → 46 ∉ sch) :
    normalizeHost idna (some r.host) u.scheme = .ok (some (u.host.getD [])) ∧
    (u.host = none → r.host = []) ∧
    u.port = refPortValue r.port ∧
    (∀ p, r.port = some p → p.all isDigitC = true) ∧
    u.auth = refAuthValue (Gen.normalizableSchemes.contains u.scheme) r.userinfo ∧
    r.wellFormed = true :=
  agrees_with_rfc idna s u r h hr hdot

-- non-vacuity: "hTTp://a@b@C:080\d" satisfies every hypothesis; the reading is userinfo "a@b",
-- host "C", port text "080"; urllib3 has auth "a%40b", host "c", port 80
example : refAuthority [104, 84, 84, 112, 58, 47, 47, 97, 64, 98, 64, 67, 58, 48, 56, 48, 92, 100] =
    some ⟨some [97, 64, 98], [67], some [48, 56, 48], true⟩ := by decide
example : refScheme [104, 84, 84, 112, 58, 47, 47, 97, 64, 98, 64, 67, 58, 48, 56, 48, 92, 100] =
    some [104, 84, 84, 112] := by decide
example : parseUrl [104, 84, 84, 112, 58, 47, 47, 97, 64, 98, 64, 67, 58, 48, 56, 48, 92, 100] =
    .ok ⟨some http, some [97, 37, 52, 48, 98], some [99], some 80, some [47, 37, 53, 67, 100], none, none⟩ := by
  decide
-- the reference reading of "//a@b@c\d" has userinfo "a@b", host "c"
example : refAuthOfHier [47, 47, 97, 64, 98, 64, 99, 92, 100] = some ⟨some [97, 64, 98], [99], none, true⟩ := by
  decide

/-- repaired finding `rfc-mismatch:dollar-newline` (the regexes end in `\Z` now): "http://h:80\n",
whose RFC reading has the port text "80\n", is rejected with `LocationParseError` (it used to parse
with port 80); so are "http://[::1]\n" (junk after the IP-literal; it used to parse with host
"[::1]") and "http://h:\n/x".  A newline that is part of a reg-name is no concern of the anchor:
"http://h\n" still parses, and the host keeps the newline exactly as the RFC reading has it. -/
theorem C14_dollar_newline_rejected :
    parseUrl [104, 116, 116, 112, 58, 47, 47, 104, 58, 56, 48, 10] = .error .locationParseError ∧
    (refAuthority [104, 116, 116, 112, 58, 47, 47, 104, 58, 56, 48, 10]).map (·.port) = some (some [56, 48, 10]) ∧
    parseUrl [104, 116, 116, 112, 58, 47, 47, 91, 58, 58, 49, 93, 10] = .error .locationParseError ∧
    (refAuthority [104, 116, 116, 112, 58, 47, 47, 91, 58, 58, 49, 93, 10]).map (·.wellFormed) = some false ∧
    parseUrl [104, 116, 116, 112, 58, 47, 47, 104, 58, 10, 47, 120] = .error .locationParseError ∧
    (parseUrl [104, 116, 116, 112, 58, 47, 47, 104, 10]).toOption.map (·.host) = some (some [104, 10]) ∧
    (refAuthority [104, 116, 116, 112, 58, 47, 47, 104, 10]).map (·.host) = some [104, 10] := by
  decide

/-- known finding `rfc-mismatch:dotted-scheme`: "a.b://h/" — RFC 3986 reads scheme "a.b", host "h";
`parse_url` reads host "a.b" (`_SCHEME_RE` lacks `.`) -/
theorem C14_dotted_scheme_witness :
    (parseUrl [97, 46, 98, 58, 47, 47, 104, 47]).toOption.map (·.host) = some (some [97, 46, 98]) ∧
    (refAuthority [97, 46, 98, 58, 47, 47, 104, 47]).map (·.host) = some [104] := by
  decide

/-! ## re-parsing the string form -/

/-
Full statement (DESIGN App. E): `parseUrl s = .ok u → u.scheme ∈ [some http, some https] →
parseUrl (render u) = .ok u`.  It is FALSE on the tree (known finding
`reparse-mismatch:zone-25-prefix`, witness `C14_reparse_zone25_witness` below; the second
counterexample class, `reparse-mismatch:empty-host`, is repaired — `C14_reparse_empty_host_ok`).

Proved (`C14_reparse_partial`): the round trip for **every** input string, every IDNA oracle keeping
its contracts, under exactly the complement of the finding — the parsed host has not the `zone25`
shape (a bracketed literal whose zone id starts with `25` and goes on; `C14_host_idempotent_zone25_exact`
shows that a host of that shape is never re-normalised to itself, so the hypothesis cannot be
weakened).  The proof (`U3.Lemmas.UrlReparse`) derives the properties of a parsed http/https `Url`
(`Parsed`: userinfo/path/query/fragment in normal form, path a `/`-joined list of clean segments
starting with `/`, host a text `_HOST_PORT_RE` reads back, port ≤ 65535, "host absent ⇒ no userinfo, no
port", "host empty ⇒ userinfo or port") and then runs `parse_url` on the rendered text: `_URI_RE` cuts it
at the same places (`splitAuthority_render`, `splitPQF_render`), `rpartition("@")` / `_HOST_PORT_RE` /
`int(str(port))` give the authority components back (`parseAuthority_render`, `portPart_natToDec`), the
host is a fixed point of `_normalize_host` (`C14_parsed_host_fixed`), the other components of the
encoder and the dot-segment remover (`C14_encode_keeps_normal`, `cleanJoin_fixed`).
Contracts on `idna.encode`: `IdnaLdh` (answers made of `a-z 0-9 - .`) and "no empty answer".
-/
theorem C14_reparse_partial (idna : Str → Option Str) (hc : IdnaLdh idna)
    (hne : ∀ l r, idna l = some r → r ≠ []) (s : Str) (u : Url)
    (h : parseUrlWith idna s = .ok u) (hs : u.scheme ∈ [some http, some https])
    (h25 : ∀ x, u.host = some x → zone25 x = false) :
    parseUrlWith idna u.render = .ok u := by
  simp only [List.mem_cons, List.not_mem_nil, or_false] at hs
  rcases hs with hs | hs
  · exact reparse hc hne h hs (Or.inl rfl) h25
  · exact reparse hc hne h hs (Or.inr rfl) h25

-- non-vacuity: the IDNA-free oracle keeps both contracts; "HTTP://U@[FE80::1%25Eth0]:080/a/../%7e?q #f"
-- parses with scheme http and a host without the shape of the finding (and the round trip is also
-- evaluated directly in `C14_reparse_example`)
example : IdnaLdh (fun _ => none) ∧ ∀ l r, (fun _ => none : Str → Option Str) l = some r → r ≠ [] :=
  ⟨by intro l r h; simp at h, by simp⟩
example : (parseUrl [72, 84, 84, 80, 58, 47, 47, 85, 64, 91, 70, 69, 56, 48, 58, 58, 49, 37, 50, 53, 69, 116, 104, 48, 93,
      58, 48, 56, 48, 47, 97, 47, 46, 46, 47, 37, 55, 101, 63, 113, 32, 35, 102]).toOption.map
    (fun u => (u.scheme, u.host, u.host.map zone25)) =
    some (some http, some [91, 102, 101, 56, 48, 58, 58, 49, 37, 69, 116, 104, 48, 93], some false) := by decide

theorem C14_reparse_example :
    ∀ u, parseUrl [72, 84, 84, 80, 58, 47, 47, 85, 64, 91, 58, 58, 49, 93, 58, 48, 56, 48, 47, 97, 47, 46, 46, 47,
        37, 55, 101, 63, 113, 32, 35, 102] = .ok u →
      u.scheme = some http ∧ parseUrl u.render = .ok u := by
  intro u hu
  have : parseUrl [72, 84, 84, 80, 58, 47, 47, 85, 64, 91, 58, 58, 49, 93, 58, 48, 56, 48, 47, 97, 47, 46, 46, 47,
        37, 55, 101, 63, 113, 32, 35, 102] =
      .ok ⟨some http, some [85], some [91, 58, 58, 49, 93], some 80, some [47, 37, 55, 69], some [113, 37, 50, 48],
        some [102]⟩ := by decide
  rw [this] at hu
  simp only [Except.ok.injEq] at hu
  subst hu
  exact ⟨rfl, by decide⟩

/-- repaired finding `reparse-mismatch:empty-host`: "http://:" (likewise "http://@", "http://@:" and
"http://:/x") used to have host "" and render as "http://", which re-parses to host `None`.  An
authority made of delimiters only is now reported like the empty authority (host `None`), so the
round trip closes; an empty host *with* a port or userinfo keeps host "" and round-trips as before
("http://:80", "http://u@"). -/
theorem C14_reparse_empty_host_ok :
    parseUrl [104, 116, 116, 112, 58, 47, 47, 58] = .ok ⟨some http, none, none, none, none, none, none⟩ ∧
    Url.render ⟨some http, none, none, none, none, none, none⟩ = [104, 116, 116, 112, 58, 47, 47] ∧
    parseUrl [104, 116, 116, 112, 58, 47, 47] = .ok ⟨some http, none, none, none, none, none, none⟩ ∧
    parseUrl [104, 116, 116, 112, 58, 47, 47, 64] = .ok ⟨some http, none, none, none, none, none, none⟩ ∧
    parseUrl [104, 116, 116, 112, 58, 47, 47, 64, 58] = .ok ⟨some http, none, none, none, none, none, none⟩ ∧
    (∀ u, parseUrl [104, 116, 116, 112, 58, 47, 47, 58, 47, 120] = .ok u → parseUrl u.render = .ok u) ∧
    parseUrl [104, 116, 116, 112, 58, 47, 47, 58, 56, 48] = .ok ⟨some http, none, some [], some 80, none, none, none⟩ ∧
    parseUrl (Url.render ⟨some http, none, some [], some 80, none, none, none⟩) =
      .ok ⟨some http, none, some [], some 80, none, none, none⟩ ∧
    parseUrl [104, 116, 116, 112, 58, 47, 47, 117, 64] = .ok ⟨some http, some [117], some [], none, none, none, none⟩ ∧
    parseUrl (Url.render ⟨some http, some [117], some [], none, none, none, none⟩) =
      .ok ⟨some http, some [117], some [], none, none, none, none⟩ := by
  refine ⟨by decide, by decide, by decide, by decide, by decide, ?_, by decide, by decide, by decide, by decide⟩
  intro u hu
  have : parseUrl [104, 116, 116, 112, 58, 47, 47, 58, 47, 120] =
      .ok ⟨some http, none, none, none, some [47, 120], none, none⟩ := by decide
  rw [this] at hu
  simp only [Except.ok.injEq] at hu
  subst hu
  decide

/-- The repair of `reparse-mismatch:empty-host` in general form: for **every** input, when
`parse_url` reports the host `""` it also reports a port or a userinfo — so the string form
(`…//userinfo@`, `…//:port`) shows the empty host and the re-parse finds it again; an empty host with
nothing around it is reported as `None`, like the empty authority.  `hc` is the contract of the
uninterpreted `idna.encode`: it never answers with an empty label (needed because `_normalize_host`
joins the encoded labels: a non-empty host must not normalise to `""`). -/
theorem C14_empty_host_has_port_or_userinfo (idna : Str → Option Str)
    (hc : ∀ l r, idna l = some r → r ≠ []) (s : Str) (u : Url)
    (h : parseUrlWith idna s = .ok u) (hh : u.host = some []) :
    u.auth.isSome = true ∨ u.port.isSome = true :=
  empty_host_has_port_or_userinfo idna hc s u h hh

-- non-vacuity: the contract holds for the IDNA-free parser, and "http://:80" / "//u@" do have host ""
example : ∀ l r, (fun _ => none : Str → Option Str) l = some r → r ≠ [] := by simp
example : (parseUrl [104, 116, 116, 112, 58, 47, 47, 58, 56, 48]).toOption.map (fun u => (u.host, u.port)) =
    some (some [], some 80) := by decide
example : (parseUrl [47, 47, 117, 64]).toOption.map (fun u => (u.host, u.auth)) = some (some [], some [117]) := by
  decide

/-- known finding `reparse-mismatch:zone-25-prefix`: "http://[::1%2525a]" has host "[::1%25a]"; its
string form "http://[::1%25a]" re-parses to host "[::1%a]" -/
theorem C14_reparse_zone25_witness :
    (parseUrl [104, 116, 116, 112, 58, 47, 47, 91, 58, 58, 49, 37, 50, 53, 50, 53, 97, 93]).toOption.map (·.host) =
      some (some [91, 58, 58, 49, 37, 50, 53, 97, 93]) ∧
    (parseUrl [104, 116, 116, 112, 58, 47, 47, 91, 58, 58, 49, 37, 50, 53, 97, 93]).toOption.map (·.host) =
      some (some [91, 58, 58, 49, 37, 97, 93]) := by
  decide

/-! ## the address matchers are blind to ASCII letter case -/

/-- `_IPV6_PAT`, `_IPV4_PAT`, `_ZONE_ID_PAT`, `_IPV6_ADDRZ_RE`, `_IPV4_RE` (as hand matchers) give the same
answer on a text and on its ASCII lower-case form — for every string; and the `%HH` scanner commutes
with lower-casing -/
theorem C14_matchers_case_blind (s : Str) :
    isIPv6 (lower s) = isIPv6 s ∧ isIPv4 (lower s) = isIPv4 s ∧ isZone (lower s) = isZone s ∧
    bracketOk (lower s) = bracketOk s ∧ ipv6AddrzMatch (lower s) = ipv6AddrzMatch s ∧
    ipv4Match (lower s) = ipv4Match s ∧ tokenize (lower s) = (tokenize s).map Tok.lower :=
  ⟨isIPv6_lower s, isIPv4_lower s, isZone_lower s, bracketOk_lower s, ipv6AddrzMatch_lower s,
    ipv4Match_lower s, tokenize_lower s⟩

/-- hence two spellings of one text (equal up to ASCII letter case) are matched alike -/
theorem C14_matchers_same_for_case_variants (s t : Str) (h : lower s = lower t) :
    isIPv6 s = isIPv6 t ∧ isIPv4 s = isIPv4 t ∧ isZone s = isZone t ∧
    ipv6AddrzMatch s = ipv6AddrzMatch t ∧ ipv4Match s = ipv4Match t :=
  ⟨isIPv6_case h, isIPv4_case h, isZone_case h, ipv6AddrzMatch_case h, ipv4Match_case h⟩

-- non-vacuity: "FE80::A:1.2.3.4" and "fe80::a:1.2.3.4" are case variants, and both are addresses;
-- "[FE80::1%Eth0]" is matched like "[fe80::1%eth0]"
example : lower [70, 69, 56, 48, 58, 58, 65, 58, 49, 46, 50, 46, 51, 46, 52] =
    lower [102, 101, 56, 48, 58, 58, 97, 58, 49, 46, 50, 46, 51, 46, 52] := by decide
example : isIPv6 [70, 69, 56, 48, 58, 58, 65, 58, 49, 46, 50, 46, 51, 46, 52] = true := by decide
example : ipv6AddrzMatch [91, 70, 69, 56, 48, 58, 58, 49, 37, 69, 116, 104, 48, 93] = true ∧
    ipv6AddrzMatch (lower [91, 70, 69, 56, 48, 58, 58, 49, 37, 69, 116, 104, 48, 93]) = true := by decide

/-! ## `_normalize_host` on a bracketed literal: exactly the address part is lower-cased -/

/-- For every bracketed literal `_IPV6_ADDRZ_RE` matches (http / https / no scheme): without a zone id
the result is the text in lower case; with one — `[` a `%` z `]`, `a` free of `%` — it is `[`, the
address part `a` in lower case, `%`, and the zone id percent-encoded over the unreserved set **with its
letter case kept** (`zoneIdOf z` is `z` without the RFC 6874 delimiter `25`), `]`. -/
theorem C14_normalize_host_literal (idna : Str → Option Str) (sc : Option Str)
    (hs : sc ∈ [some http, some https, none]) :
    (∀ h, ipv6AddrzMatch h = true → 37 ∉ h → normalizeHost idna (some h) sc = .ok (some (lower h))) ∧
    (∀ a z, 37 ∉ a → ipv6AddrzMatch (91 :: (a ++ 37 :: (z ++ [93]))) = true →
      normalizeHost idna (some (91 :: (a ++ 37 :: (z ++ [93])))) sc =
        .ok (some (91 :: (lower a ++ 37 :: (encodeInvalidChars Gen.unreservedChars (zoneIdOf z) ++ [93]))))) :=
  ⟨fun _ hm h37 => normalizeHost_literal_nozone idna (normalizable_of_mem hs) hm h37,
   fun a z ha hm => normalizeHost_literal_zone' idna (normalizable_of_mem hs) a z ha hm⟩

-- non-vacuity: "[FE80::1%25Eth0]" = "[" "FE80::1" "%" "25Eth0" "]" is matched, its address part has no "%",
-- and the kept zone id is "Eth0"
example : ipv6AddrzMatch (91 :: ([70, 69, 56, 48, 58, 58, 49] ++ 37 :: ([50, 53, 69, 116, 104, 48] ++ [93]))) = true ∧
    37 ∉ [70, 69, 56, 48, 58, 58, 49] ∧ zoneIdOf [50, 53, 69, 116, 104, 48] = [69, 116, 104, 48] := by decide

/-! ## idempotence of `_normalize_host` -/

/-
Full statement: `normalizeHost idna h sc = .ok h' → normalizeHost idna h' sc = .ok h'`.  FALSE in exactly
two situations:

* the result is a bracketed literal whose zone id starts with `25` and goes on (`zone25 h'`; known
  finding `reparse-mismatch:zone-25-prefix` / `host:not-idempotent:zone-25-prefix`, witness
  `C14_reparse_zone25_witness` above: "[::1%2525a]" → "[::1%25a]" → "[::1%a]").  The exclusion is exact:
  `C14_host_idempotent_zone25_exact` shows that every such result of a literal is *not* a fixed point;
* the host has a `[`, is not a bracketed literal, and a non-ASCII label sits inside the brackets, so
  that the IDNA answer completes a literal ("[::1%a%aa.é.b]" → "[::1%a%aa.xn--9ca.b]" →
  "[::1%a%AA.xn--9ca.b]", witness `C14_host_idn_in_brackets_witness`).  `parse_url` never hands such a
  text to `_normalize_host` (`_HOST_PORT_RE` captures a reg-name without `[` or a matched literal —
  `parse_host_origin`), so this is outside the property; the hypothesis `hsrc` excludes it.

Proved: idempotence for every other host, every scheme, every IDNA oracle that keeps the contract
`IdnaLdh` (answers consist of lower-case letters, digits, `-`, `.`).
-/
theorem C14_host_idempotent (idna : Str → Option Str) (hc : IdnaLdh idna) (h : Option Str) (sc : Option Str)
    (h' : Option Str) (hh : normalizeHost idna h sc = .ok h')
    (hsrc : ∀ x, h = some x → x.all (· < 128) = true ∨ 91 ∉ x ∨ ipv6AddrzMatch x = true)
    (h25 : ∀ y, h' = some y → zone25 y = false) :
    normalizeHost idna h' sc = .ok h' :=
  normalizeHost_idempotent hc h sc h' hh hsrc h25

-- non-vacuity: the contract holds for the IDNA-free oracle; "[FE80::1%25Eth0]" is a bracketed literal
-- whose result "[fe80::1%Eth0]" has not the shape of the finding
example : IdnaLdh (fun _ => none) := by intro l r h; simp at h
example : ipv6AddrzMatch [91, 70, 69, 56, 48, 58, 58, 49, 37, 50, 53, 69, 116, 104, 48, 93] = true ∧
    normalizeHost (fun _ => none) (some [91, 70, 69, 56, 48, 58, 58, 49, 37, 50, 53, 69, 116, 104, 48, 93]) (some http) =
      .ok (some [91, 102, 101, 56, 48, 58, 58, 49, 37, 69, 116, 104, 48, 93]) ∧
    zone25 [91, 102, 101, 56, 48, 58, 58, 49, 37, 69, 116, 104, 48, 93] = false := by decide

/-- the `zone25` exclusion is exact: whenever `_normalize_host` (http / https / no scheme) maps a
bracketed literal to a text of the `zone25` shape, that text is **not** a fixed point -/
theorem C14_host_idempotent_zone25_exact (idna : Str → Option Str) (sc : Option Str)
    (hs : sc ∈ [some http, some https, none]) (h h' : Str) (hm : ipv6AddrzMatch h = true)
    (hh : normalizeHost idna (some h) sc = .ok (some h')) (h25 : zone25 h' = true) :
    normalizeHost idna (some h') sc ≠ .ok (some h') := by
  have hs' := normalizable_of_mem hs
  obtain ⟨x, hx, hsh⟩ := normalizeHost_of_literal idna hs' hm
  rw [hx] at hh
  simp only [Except.ok.injEq, Option.some.injEq] at hh
  subst hh
  rcases hsh with ⟨-, -, hl⟩ | ⟨-, hz⟩
  · -- a literal without `%` has an empty zone id
    exfalso
    have : zoneOf x = [] := by simp [zoneOf, dropWhile_ne_nil_of_not_mem hl.2.1]
    simp [zone25, this, isPrefix] at h25
  · exact zoned25_not_fixed idna hs' hz h25

-- non-vacuity: "[::1%2525a]" → "[::1%25a]", which has the shape
example : normalizeHost (fun _ => none) (some [91, 58, 58, 49, 37, 50, 53, 50, 53, 97, 93]) (some http) =
    .ok (some [91, 58, 58, 49, 37, 50, 53, 97, 93]) ∧ zone25 [91, 58, 58, 49, 37, 50, 53, 97, 93] = true := by
  decide

/-- the other way to lose idempotence, outside what `parse_url` can reach: "[::1%a%aa.é.b]" is no
bracketed literal (the zone id may not contain "é"), so its labels are encoded one by one; with
`idna.encode("é") = "xn--9ca"` the result "[::1%a%aa.xn--9ca.b]" *is* a literal, and normalising it
again upper-cases the escape: "[::1%a%AA.xn--9ca.b]" -/
theorem C14_host_idn_in_brackets_witness :
    let idna : Str → Option Str := fun l => if l = [233] then some [120, 110, 45, 45, 57, 99, 97] else none
    IdnaLdh idna ∧
    ipv6AddrzMatch [91, 58, 58, 49, 37, 97, 37, 97, 97, 46, 233, 46, 98, 93] = false ∧
    normalizeHost idna (some [91, 58, 58, 49, 37, 97, 37, 97, 97, 46, 233, 46, 98, 93]) (some http) =
      .ok (some [91, 58, 58, 49, 37, 97, 37, 97, 97, 46, 120, 110, 45, 45, 57, 99, 97, 46, 98, 93]) ∧
    normalizeHost idna (some [91, 58, 58, 49, 37, 97, 37, 97, 97, 46, 120, 110, 45, 45, 57, 99, 97, 46, 98, 93])
      (some http) =
      .ok (some [91, 58, 58, 49, 37, 97, 37, 65, 65, 46, 120, 110, 45, 45, 57, 99, 97, 46, 98, 93]) := by
  refine ⟨?_, by decide, by decide, by decide⟩
  intro l r h
  simp only at h
  split at h
  · simp only [Option.some.injEq] at h
    subst h
    decide
  · simp at h

/-! ## the host of a successful parse: lower case, shape, stability -/

/--
**Host lower-case clause of the normal form** (full).  On success with scheme http / https / none the
host is lower-case ASCII-wise up to its first `%`, and lower-case throughout unless it is a bracketed
IPv6 literal with a zone id: an RFC 6874 zone id keeps its letter case on purpose (and its escapes are
upper-cased), everything else — reg-name incl. its percent-escapes, dotted quad, address part of a
literal — is lower-cased.  Contract on the uninterpreted `idna.encode`: answers are lower-case. -/
theorem C14_host_lower (idna : Str → Option Str) (hc : ∀ l r, idna l = some r → lower r = r)
    (s : Str) (u : Url) (h : parseUrlWith idna s = .ok u) (hs : u.scheme ∈ [some http, some https, none])
    (h' : Str) (hh : u.host = some h') :
    lower (h'.takeWhile (· != 37)) = h'.takeWhile (· != 37) ∧
    (¬ (ipv6AddrzMatch h' = true ∧ 37 ∈ h') → lower h' = h') :=
  parsed_host_lower hc h (normalizable_of_mem hs) hh

/-- the same for `_normalize_host` itself, every host text: lower-case up to the first `%`; lower-case
throughout unless the *input* is a bracketed literal with a zone id, in which case the result is a
zoned literal in parsed form (`ZonedHost`: lower-case address part, normal-form zone id) -/
theorem C14_normalize_host_lower (idna : Str → Option Str) (hc : ∀ l r, idna l = some r → lower r = r)
    (h : Str) (sc : Option Str) (hs : sc ∈ [some http, some https, none])
    (h' : Str) (hh : normalizeHost idna (some h) sc = .ok (some h')) :
    lower (h'.takeWhile (· != 37)) = h'.takeWhile (· != 37) ∧
    (¬ (ipv6AddrzMatch h = true ∧ 37 ∈ h) → lower h' = h') ∧
    (ipv6AddrzMatch h = true → 37 ∈ h → ZonedHost h') :=
  normalizeHost_lower_full hc (normalizable_of_mem hs) hh

-- non-vacuity: "HTTP://ExAmple.COM%2F/" has host "example.com%2f" (escape lower-cased with the rest);
-- "http://[FE80::1%25Eth0]" has host "[fe80::1%Eth0]": a literal with zone id, lower-case up to "%";
-- "http://1.2.3.4" keeps its dotted quad
example : (parseUrl [72, 84, 84, 80, 58, 47, 47, 69, 120, 65, 109, 112, 108, 101, 46, 67, 79, 77, 37, 50, 70, 47]).toOption.map
    (fun u => (u.scheme, u.host)) =
    some (some http, some [101, 120, 97, 109, 112, 108, 101, 46, 99, 111, 109, 37, 50, 102]) := by decide
example : (parseUrl [104, 116, 116, 112, 58, 47, 47, 91, 70, 69, 56, 48, 58, 58, 49, 37, 50, 53, 69, 116, 104, 48, 93]).toOption.map
    (·.host) = some (some [91, 102, 101, 56, 48, 58, 58, 49, 37, 69, 116, 104, 48, 93]) := by decide
example : ipv6AddrzMatch [91, 102, 101, 56, 48, 58, 58, 49, 37, 69, 116, 104, 48, 93] = true ∧
    37 ∈ [91, 102, 101, 56, 48, 58, 58, 49, 37, 69, 116, 104, 48, 93] := by decide
example : (parseUrl [104, 116, 116, 112, 58, 47, 47, 49, 46, 50, 46, 51, 46, 52]).toOption.map (·.host) =
    some (some [49, 46, 50, 46, 51, 46, 52]) := by decide
example : ∀ l r, (fun _ => none : Str → Option Str) l = some r → lower r = r := by simp

/--
**The host of every successful http / https / scheme-less parse has one of three stable shapes**
(`U3.Lemmas.UrlHost`): `NameHost` — ASCII, lower-case, not a bracketed literal (reg-names incl.
A-labels and percent-escapes, dotted quads, the empty host); `LiteralHost` — a lower-case bracketed
IPv6 literal without `%`; `ZonedHost` — a bracketed IPv6 literal with lower-case address part, `%`, and
a zone id in normal form over the unreserved set.  These are the shapes `C15_host_stable_partial`
assumes.  Contract `IdnaLdh`: `idna.encode` answers with lower-case letters, digits, `-`, `.` only. -/
theorem C14_parsed_host_shape (idna : Str → Option Str) (hc : IdnaLdh idna) (s : Str) (u : Url)
    (h : parseUrlWith idna s = .ok u) (hs : u.scheme ∈ [some http, some https, none])
    (h' : Str) (hh : u.host = some h') : NameHost h' ∨ LiteralHost h' ∨ ZonedHost h' :=
  parsed_host_shape hc h (normalizable_of_mem hs) hh

/-- in particular the host of such a parse is pure ASCII (address parts consist of hex digits, `:`, `.`;
zone ids of unreserved characters and escapes; names of lower-cased ASCII labels and IDNA answers) -/
theorem C14_parsed_host_ascii (idna : Str → Option Str) (hc : IdnaLdh idna) (s : Str) (u : Url)
    (h : parseUrlWith idna s = .ok u) (hs : u.scheme ∈ [some http, some https, none])
    (h' : Str) (hh : u.host = some h') : h'.all (· < 128) = true :=
  shape_ascii (parsed_host_shape hc h (normalizable_of_mem hs) hh)

/-- hence normalising the parsed host once more (what a connection pool does) gives it back — unless
it has the `zone25` shape of the known finding (`C14_reparse_zone25_witness`,
`C14_host_idempotent_zone25_exact`) -/
theorem C14_parsed_host_fixed (idna : Str → Option Str) (hc : IdnaLdh idna) (s : Str) (u : Url)
    (h : parseUrlWith idna s = .ok u) (hs : u.scheme ∈ [some http, some https, none])
    (h' : Str) (hh : u.host = some h') (h25 : zone25 h' = false) :
    normalizeHost idna (some h') u.scheme = .ok (some h') :=
  parsed_host_fixed hc h (normalizable_of_mem hs) hh h25

-- non-vacuity: the three shapes occur ("http://Bücher.example" needs an IDNA answer, so the A-label is
-- written out here), and only the zoned literal of the finding has the `zone25` shape
example : NameHost [120, 110, 45, 45, 98, 99, 104, 101, 114, 45, 107, 118, 97, 46, 101, 120, 97, 109, 112, 108, 101] :=
  ⟨by decide, by decide, by decide⟩
example : NameHost [49, 46, 50, 46, 51, 46, 52] := ⟨by decide, by decide, by decide⟩
example : LiteralHost [91, 102, 101, 56, 48, 58, 58, 49, 93] := ⟨by decide, by decide, by decide⟩
example : ZonedHost [91, 102, 101, 56, 48, 58, 58, 49, 37, 69, 116, 104, 48, 93] :=
  ⟨by decide, by decide, [69, 116, 104, 48], by decide,
    ⟨[.chr 69, .chr 116, .chr 104, .chr 48], by decide, by decide⟩⟩
-- a parse that satisfies the hypotheses: "HTTP://ExAmple.COM:80/" has scheme http and host "example.com"
example : (parseUrl [72, 84, 84, 80, 58, 47, 47, 69, 120, 65, 109, 112, 108, 101, 46, 67, 79, 77, 58, 56, 48, 47]).toOption.map
    (fun u => (u.scheme, u.host)) = some (some http, some [101, 120, 97, 109, 112, 108, 101, 46, 99, 111, 109]) := by
  decide
example : zone25 [91, 102, 101, 56, 48, 58, 58, 49, 37, 69, 116, 104, 48, 93] = false ∧
    zone25 [91, 58, 58, 49, 37, 50, 53, 97, 93] = true ∧ zone25 [49, 46, 50, 46, 51, 46, 52] = false := by decide

/-! ## semantic facts about the generated tables the model uses -/

/-- the sets nest as in RFC 3986 and none of them contains `%`, space, control characters or
non-ASCII; every set contains the upper-case hex digits (needed for idempotence) -/
theorem C14_charsets_sane :
    Gen.unreservedChars ⊆ Gen.userinfoChars ∧ Gen.userinfoChars ⊆ Gen.pathChars ∧
    Gen.pathChars ⊆ Gen.queryChars ∧ Gen.queryChars ⊆ Gen.fragmentChars ∧
    (∀ c ∈ Gen.fragmentChars, 32 < c ∧ c < 127 ∧ c ≠ 37 ∧ c ≠ 35 ∧ c ≠ 92) ∧
    (∀ c ∈ Gen.userinfoChars, c ≠ 64 ∧ c ≠ 47 ∧ c ≠ 63) ∧ (∀ c ∈ Gen.pathChars, c ≠ 63) := by
  decide

/-- only http, https and "no scheme" are normalised -/
theorem C14_normalizable_schemes : Gen.normalizableSchemes ⊆ [some http, some https, none] := by
  decide

end U3.Props
