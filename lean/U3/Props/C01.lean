import U3.Model.Pool
import U3.Lemmas.Pool
/-! # C01 — a pool never loses, duplicates or leaks connection slots, whatever the outcome -/
namespace U3.Props
open U3 U3.Pool

/-- a urllib3 exception -/
def isUrllib3 (c : Cls) : Bool := isSub c Gen.cU3HTTPError
/-- a `BaseException` that is not an `Exception` (what the fault scripts inject as an interrupt) -/
def isInterrupt (c : Cls) : Bool := isSub c Gen.cBaseException && !isSub c Gen.cException

/-- every class that can come out of `_make_request` in the model: what the fault scripts raise at
connect / send / recv (after `HTTPConnection._new_conn`'s and `_error_catcher`'s translation), what
`http.client` raises on the scripted server's bytes and on its own state machine, and the
pool's own errors -/
def raisable : List Cls :=
  [Gen.cU3NameResolutionError, Gen.cU3NewConnectionError, Gen.cU3ConnectTimeoutError,       -- connect
   Gen.cBrokenPipeError, Gen.cConnectionResetError, Gen.cOSError, Gen.cConnectionRefusedError, Gen.cTimeoutError,
   Gen.cGaierror, Gen.cKeyboardInterrupt, Gen.cSystemExit,                                    -- raw faults
   Gen.cRemoteDisconnected, Gen.cBadStatusLine, Gen.cLineTooLong, Gen.cHttpIncompleteRead,
   Gen.cResponseNotReady, Gen.cCannotSendRequest, Gen.cHTTPException,                          -- http.client
   Gen.cU3ReadTimeoutError, Gen.cU3ProtocolError, Gen.cU3IncompleteRead, Gen.cU3SSLError,      -- body read
   Gen.cSslSSLError, Gen.cSslCertVerificationError, Gen.cCertificateError,
   Gen.cU3EmptyPoolError, Gen.cU3ClosedPoolError, Gen.cU3FullPoolError]

def okClass (c0 c : Cls) : Bool := isUrllib3 c || (isInterrupt c && c == c0)

def handledOk (c0 : Cls) : Handled → Bool
  | .propagate => okClass c0 c0
  | .noCleanup => okClass c0 c0
  | .raise e => okClass c0 e.cls
  | .retry _ => true

/-
Full statement (DESIGN Appendix E):
  (statement) C01_errors_are_urllib3 (h : Reachable cfg s) :
      (step s (.request rid rc retries script)).2 = .result (.raised e) →
        isUrllib3 e.cls ∨ (isInterrupt e.cls ∧ the script injects an interrupt)
What is proved: the finite table — for EVERY class that `_make_request` can raise in the model
(`raisable`, a superset), every proxy situation, every retry budget and method class, what `urlopen`'s
`except` clauses (read from the GENERATED tuples `Gen.urlopenHandlers` / `Gen.urlopenIsinstance` and
the generated subclass relation) hand to the caller is a urllib3 exception, or the very interrupt
that was raised.  Missing: the lifting lemma "`makeRequest` raises only classes of `raisable`"
through the control flow of `request` (a case analysis over `connect`, `connRequest`, `readHead`,
`httpRead`, `rawRead`; the out-of-range branches of the totalised model, which produce
`AttributeError`, have to be shown unreachable from `init`).  The correspondence run compares the
result class of every request with the implementation, and the oracle checks the clause directly.
-/
theorem C01_errors_are_urllib3_partial :
    ∀ c ∈ raisable, ∀ unconnected mret : Bool, ∀ retries : Retry,
      handledOk c (handleError unconnected retries mret c) = true := by
  intro c hc unconnected mret retries
  have key : ∀ r ∈ [Retry.off, Retry.count 0, Retry.count 1],
      handledOk c (handleError unconnected r mret c) = true := by
    revert c unconnected mret
    decide
  match retries with
  | .off => exact key _ (by simp)
  | .count 0 => exact key _ (by simp)
  | .count (n + 1) =>
    -- the outcome for `count (n+1)` differs from `count 1` only in the budget that is left
    have h1 := key (.count 1) (by simp)
    have : handledOk c (handleError unconnected (.count (n + 1)) mret c)
         = handledOk c (handleError unconnected (.count 1) mret c) := by
      unfold handleError
      generalize isInst c (Gen.urlopenHandlers.getD 1 []) = A
      generalize isInst c (Gen.urlopenHandlers.getD 2 []) = B
      generalize translateUrlopen unconnected c = T
      cases A <;> cases B <;> simp only [Retry.incrementErr, Retry.dec, handledOk, if_true, if_false, Bool.false_eq_true] <;>
      cases isConnectionError T <;> cases isReadError T <;> cases mret <;> simp
    rw [this]; exact h1

example : Gen.cKeyboardInterrupt ∈ raisable ∧ Gen.cConnectionResetError ∈ raisable := by decide

/-- the generated `except` tuple of `urlopen` really is consulted: an `OSError` subclass reaches the
caller as `ProtocolError` (or `MaxRetryError`), never raw -/
theorem C01_oserror_is_wrapped :
    handleError false .off true Gen.cConnectionResetError = .raise (exc Gen.cU3ProtocolError) := by decide


/-! ### the invariant (DESIGN Appendix A)

`InvL s L` (in `U3/Lemmas/Pool.lean`): queue ids distinct and disjoint from leased (`L`) and held ids;
every connection with a socket is queued, leased or held; `queue.length ≤ maxsize`;
`queue.length + leases + held ≥ maxsize`, with equality when `block`.  `Inv s = InvL s []`.

Full statement (DESIGN Appendix E), NOT yet proved as a whole:
  (statement) C01_inv_reachable (cfg) (ops : List Op) : Inv (run (init cfg) ops)
Proved below: the invariant holds initially; it is preserved by every primitive step of the
read / close family (`Steps`: `HTTPConnection.close`, closing a reader, log / socket updates, any
update of a response that keeps `_connection`), and the queue/lease counting core of the one-attempt
summary lemma: a checked-out connection (`InvL s (c :: L)`) that is put back (`_put_conn(conn)`, clean
exit) or discarded (`conn.close(); _put_conn(None)`, unclean exit) restores the invariant with the
lease gone — including the `Full` / closed-pool / `FullPoolError` branches; and `_get_conn` turns `Inv s`
into `InvL s' [c]` (`C01_attempt_clean_exit` / `C01_attempt_unclean_exit` string the three together for
any sequence of primitive steps in between).  Missing for the full theorem: exhibiting `makeRequest` and
the read family as `Steps`; attaching the connection to the response
(`InvL s (c :: L)` → `InvL s' L`, `filterMap_modify_perm` is the list lemma for it); `releaseConn`
(held → queue); and the induction over the attempt script in `request` that strings them together
(each composite of the read family has to be exhibited as `Steps`).  The correspondence run
compares the queue content after every operation with the implementation on every history.
-/

theorem C01_inv_init (n : Nat) (block proxy : Bool) (hn : 0 < n) : Inv (init n block proxy) :=
  init_inv n block proxy hn

theorem C01_inv_primitive_steps {s s' : State} {L : List Nat} (st : Steps [] s s') (h : InvL s L) : InvL s' L :=
  steps_inv (by simp) st h

theorem C01_inv_conn_close {s : State} {L : List Nat} (c : Nat) (h : InvL s L) : InvL (connClose s c) L :=
  connClose_inv c h

/-- clean exit: the leased connection goes back, the lease is over, `Inv` holds again -/
theorem C01_putback_restores_inv {s : State} {c : Nat} (h : InvL s [c]) : Inv (putConn s (some c)).1 :=
  putConn_lease_inv h

/-- unclean exit (any exception, handled or not, incl. an interrupt): the connection is closed and a
`None` placeholder takes its slot -/
theorem C01_discard_restores_inv {s : State} {c : Nat} (h : InvL s [c]) : Inv (discard s (some c)).1 :=
  discard_lease_inv h

/-- `_get_conn()` returning connection `c` turns `Inv` into the invariant with `c` leased -/
theorem C01_checkout_inv {s s' : State} {c : Nat} (h : Inv s) (hg : getConn s = (s', .ok c)) : InvL s' [c] :=
  getConn_inv h hg

/-- … and when it raises (`EmptyPoolError`, `ClosedPoolError`) nothing was taken -/
theorem C01_checkout_error_takes_nothing {s s' : State} {e : Exc} (hg : getConn s = (s', .error e)) : s' = s :=
  getConn_error_state hg

/-- one-attempt summary, clean exit with `release_conn`: checkout, then ANY sequence of primitive steps
(connecting `c`, sending, reading, closing sockets and readers, creating the response), then
`_put_conn(c)` — the invariant holds again -/
theorem C01_attempt_clean_exit {s s1 s2 : State} {c : Nat} (h : Inv s) (hg : getConn s = (s1, .ok c))
    (st : Steps [c] s1 s2) : Inv (putConn s2 (some c)).1 :=
  putConn_lease_inv (steps_inv (by simp) st (getConn_inv h hg))

/-- one-attempt summary, unclean exit (any exception or interrupt at any I/O step): the `finally`
clause closes `c` and puts `None` back — the invariant holds again, no slot is lost -/
theorem C01_attempt_unclean_exit {s s1 s2 : State} {c : Nat} (h : Inv s) (hg : getConn s = (s1, .ok c))
    (st : Steps [c] s1 s2) : Inv (discard s2 (some c)).1 :=
  discard_lease_inv (steps_inv (by simp) st (getConn_inv h hg))

example : (getConn (init 1 true)).2 = .ok 0 := rfl

example : InvL { (init 1 true) with queue := [], conns := [{}] } [0] := by
  refine ⟨by decide, ?_, ?_, ?_, ?_, ?_, ?_, ?_⟩ <;> simp [init, owned, queued, held]
  intro c cn h; cases c <;> simp at h; subst h; simp

/-
Full statement: (statement) C01_quiescent_slots (h : Reachable cfg s) (every returned response has been
read, released or closed) : s.queue.length = cfg.maxsize.   FALSE on this tree as stated: see
`C01_close_keeps_slot_witness`, `C01_preload_unreleased_witness` (known findings).  Proved: whenever
the invariant holds and no response still holds a connection (which is what read-to-the-end,
`release_conn()`, `drain_conn()` and a failed read establish — not `close()`), the pool offers
exactly `maxsize` slots.
-/
theorem C01_quiescent_slots_partial {s : State} (h : Inv s) (hc : s.closed = false) (hq : held s = []) :
    s.queue.length = s.maxsize := by
  have h1 := h.slots hc
  have h2 := h.len
  simp [hq] at h1
  omega

/-- quiescent ⇒ every connection that still has a socket is idle in the queue -/
theorem C01_no_leak_partial {s : State} (h : Inv s) (hq : held s = []) :
    ∀ c cn, s.conns[c]? = some cn → cn.sock ≠ none → some c ∈ s.queue := by
  intro c cn hc hs
  have := h.live c cn hc hs
  simp [owned, hq, queued] at this
  exact this

/-- `block=True`: with `maxsize` responses holding their connections the queue is empty and the next
checkout is `EmptyPoolError` -/
theorem C01_n_plus_one_blocks {s : State} (h : Inv s) (hc : s.closed = false) (hb : s.block = true)
    (hn : (held s).length = s.maxsize) :
    (getConn s).2 = .error (exc Gen.cU3EmptyPoolError) ∧ (getConn s).1 = s := by
  have h1 := h.slotsB hc hb
  have hq : s.queue = [] := by
    cases hq : s.queue with
    | nil => rfl
    | cons a t => rw [hq] at h1; simp at h1; omega
  unfold getConn
  simp [hc, hq, hb]

example : Inv (init 2 true) ∧ (init 2 true).closed = false := ⟨init_inv 2 true false (by decide), rfl⟩

/-! ### the candidate of DESIGN §7, on the model: `response.close()` never gives the slot back -/

def okAttempt : Attempt :=
  { head := some { status := 200, close := false, cl := some 5, location := false, retryAfter := false },
    headLen := 37, body := [1, 2, 3, 4, 5] }

def streamCfg : ReqCfg := { preload := false, release := false }

/-- block=True, maxsize=1: `urlopen(preload_content=False)`, `response.close()` — the response has been
closed, the pool offers 0 slots instead of 1 and the next request is `EmptyPoolError` (negation
witness for the unrestricted `C01_quiescent_slots`; `known_findings/C01.json`, signature
`slot-not-returned:close`) -/
theorem C01_close_keeps_slot_witness :
    let s := run (init 1 true) [.request 0 streamCfg .off [okAttempt], .dispose 0 .close]
    s.queue.length = 0 ∧ s.resps.all (fun r => r.fp.isNone) = true ∧
      (match (step s (.request 1 streamCfg .off [okAttempt])).2 with
       | .result (.raised e) => e.cls == Gen.cU3EmptyPoolError
       | _ => false) = true := by decide

/-- the same history with `release_conn()` instead of `close()` gives the slot back -/
theorem C01_release_returns_slot_witness :
    (run (init 1 true) [.request 0 streamCfg .off [okAttempt], .dispose 0 .release]).queue.length = 1 := by decide

/-- `preload_content=True, release_conn=False`: the body has been read completely by the constructor
before `_connection` was set; `stream()` finds the reader closed and returns at once, nothing releases
the connection (signature `slot-not-returned:preloaded-release_conn=False`) -/
theorem C01_preload_unreleased_witness :
    let s := run (init 1 true) [.request 0 { preload := true, release := false } .off [okAttempt], .dispose 0 (.stream 3)]
    s.queue.length = 0 ∧ s.resps.all (fun r => r.fp.isNone) = true := by decide

end U3.Props
