import U3.Model.Pool
import U3.Lemmas.Pool
/-! # C01 — a pool never loses, duplicates or leaks connection slots, whatever the outcome -/
namespace U3.Props
open U3 U3.Pool

/-- a urllib3 exception -/
def isUrllib3 (c : Cls) : Bool := isSub c Gen.cU3HTTPError
/-- a `BaseException` that is not an `Exception` (what the fault scripts inject as an interrupt) -/
def isInterrupt (c : Cls) : Bool := isSub c Gen.cBaseException && !isSub c Gen.cException

/-- every class that can come out of `_make_request` in the model: what the fault scripts raise at
connect / send / recv (after `HTTPConnection._new_conn`'s and `_error_catcher`'s translation), what
`http.client` raises on the scripted server's bytes and on its own state machine, and the
pool's own errors -/
def raisable : List Cls :=
  [Gen.cU3NameResolutionError, Gen.cU3NewConnectionError, Gen.cU3ConnectTimeoutError,       -- connect
   Gen.cBrokenPipeError, Gen.cConnectionResetError, Gen.cOSError, Gen.cConnectionRefusedError, Gen.cTimeoutError,
   Gen.cGaierror, Gen.cKeyboardInterrupt, Gen.cSystemExit,                                    -- raw faults
   Gen.cRemoteDisconnected, Gen.cBadStatusLine, Gen.cLineTooLong, Gen.cHttpIncompleteRead,
   Gen.cResponseNotReady, Gen.cCannotSendRequest, Gen.cHTTPException,                          -- http.client
   Gen.cU3ReadTimeoutError, Gen.cU3ProtocolError, Gen.cU3IncompleteRead, Gen.cU3SSLError,      -- body read
   Gen.cSslSSLError, Gen.cSslCertVerificationError, Gen.cCertificateError,
   Gen.cU3EmptyPoolError, Gen.cU3ClosedPoolError, Gen.cU3FullPoolError]

def okClass (c0 c : Cls) : Bool := isUrllib3 c || (isInterrupt c && c == c0)

def handledOk (c0 : Cls) : Handled → Bool
  | .propagate => okClass c0 c0
  | .noCleanup => okClass c0 c0
  | .raise e => okClass c0 e.cls
  | .retry _ => true

/-
Full statement (DESIGN Appendix E):
  (statement) C01_errors_are_urllib3 (h : Reachable cfg s) :
      (step s (.request rid rc retries script)).2 = .result (.raised e) →
        isUrllib3 e.cls ∨ (isInterrupt e.cls ∧ the script injects an interrupt)
What is proved: the finite table — for EVERY class that `_make_request` can raise in the model
(`raisable`, a superset), every proxy situation, every retry budget and method class, what `urlopen`'s
`except` clauses (read from the GENERATED tuples `Gen.urlopenHandlers` / `Gen.urlopenIsinstance` and
the generated subclass relation) hand to the caller is a urllib3 exception, or the very interrupt
that was raised.  Missing: the lifting lemma "`makeRequest` raises only classes of `raisable`"
through the control flow of `request` (a case analysis over `connect`, `connRequest`, `readHead`,
`httpRead`, `rawRead`; the out-of-range branches of the totalised model, which produce
`AttributeError`, have to be shown unreachable from `init`).  The correspondence run compares the
result class of every request with the implementation, and the oracle checks the clause directly.
-/
theorem C01_errors_are_urllib3_partial :
    ∀ c ∈ raisable, ∀ unconnected mret : Bool, ∀ retries : Retry,
      handledOk c (handleError unconnected retries mret c) = true := by
  intro c hc unconnected mret retries
  have key : ∀ r ∈ [Retry.off, Retry.count 0, Retry.count 1],
      handledOk c (handleError unconnected r mret c) = true := by
    revert c unconnected mret
    decide
  match retries with
  | .off => exact key _ (by simp)
  | .count 0 => exact key _ (by simp)
  | .count (n + 1) =>
    -- the outcome for `count (n+1)` differs from `count 1` only in the budget that is left
    have h1 := key (.count 1) (by simp)
    have : handledOk c (handleError unconnected (.count (n + 1)) mret c)
         = handledOk c (handleError unconnected (.count 1) mret c) := by
      unfold handleError
      generalize isInst c (Gen.urlopenHandlers.getD 1 []) = A
      generalize isInst c (Gen.urlopenHandlers.getD 2 []) = B
      generalize translateUrlopen unconnected c = T
      cases A <;> cases B <;> simp only [Retry.incrementErr, Retry.dec, handledOk, if_true, if_false, Bool.false_eq_true] <;>
      cases isConnectionError T <;> cases isReadError T <;> cases mret <;> simp
    rw [this]; exact h1

example : Gen.cKeyboardInterrupt ∈ raisable ∧ Gen.cConnectionResetError ∈ raisable := by decide

/-- the generated `except` tuple of `urlopen` really is consulted: an `OSError` subclass reaches the
caller as `ProtocolError` (or `MaxRetryError`), never raw -/
theorem C01_oserror_is_wrapped :
    handleError false .off true Gen.cConnectionResetError = .raise (exc Gen.cU3ProtocolError) := by decide


/-! ### the candidate of DESIGN §7, on the model: `response.close()` never gives the slot back -/

def okAttempt : Attempt :=
  { head := some { status := 200, close := false, cl := some 5, location := false, retryAfter := false },
    headLen := 37, body := [1, 2, 3, 4, 5] }

def streamCfg : ReqCfg := { preload := false, release := false }

/-- block=True, maxsize=1: `urlopen(preload_content=False)`, `response.close()` — the response has been
closed, the pool offers 0 slots instead of 1 and the next request is `EmptyPoolError` (negation
witness for the unrestricted `C01_quiescent_slots`; `known_findings/C01.json`, signature
`slot-not-returned:close`) -/
theorem C01_close_keeps_slot_witness :
    let s := run (init 1 true) [.request 0 streamCfg .off [okAttempt], .dispose 0 .close]
    s.queue.length = 0 ∧ s.resps.all (fun r => r.fp.isNone) = true ∧
      (match (step s (.request 1 streamCfg .off [okAttempt])).2 with
       | .result (.raised e) => e.cls == Gen.cU3EmptyPoolError
       | _ => false) = true := by decide

/-- the same history with `release_conn()` instead of `close()` gives the slot back -/
theorem C01_release_returns_slot_witness :
    (run (init 1 true) [.request 0 streamCfg .off [okAttempt], .dispose 0 .release]).queue.length = 1 := by decide

/-- `preload_content=True, release_conn=False`: the body has been read completely by the constructor
before `_connection` was set; `stream()` finds the reader closed and returns at once, nothing releases
the connection (signature `slot-not-returned:preloaded-release_conn=False`) -/
theorem C01_preload_unreleased_witness :
    let s := run (init 1 true) [.request 0 { preload := true, release := false } .off [okAttempt], .dispose 0 (.stream 3)]
    s.queue.length = 0 ∧ s.resps.all (fun r => r.fp.isNone) = true := by decide

end U3.Props
