import U3.Model.Pool
import U3.Lemmas.Pool
import U3.Lemmas.PoolInv
import U3.Lemmas.PoolUnhold
/-! # C01 — a pool never loses, duplicates or leaks connection slots, whatever the outcome

Proved for **every history** (any list of `request` / `dispose` / `closePool` operations on a pool
created with `maxsize = n > 0`, every per-attempt script, every configuration, every retry budget):
the counting invariant `Inv` holds after the history (`C01_inv_reachable`) — the scripts include failures
OUTSIDE the I/O steps of an attempt: before the checkout (a file-like body that cannot be rewound at a
retry / redirect hop, a per-request timeout that `Timeout` rejects), in the checkout itself (a negative
`pool_timeout`, which `queue.get` rejects on a `block=True` pool: `_get_conn` raises before it has taken
anything) and between two attempts (the wait
raises: unparsable `Retry-After`, interrupted `time.sleep`); every exception a
`urlopen` call raises is a urllib3 exception or an interrupt — or the `ValueError` for the caller's own
invalid `timeout` / `pool_timeout` argument (`C01_errors_are_urllib3`, full statement); `maxsize` / `block` are never written (`C01_config_const`); a response that holds no
connection never holds one later (`C01_unheld_stays`), `release_conn()` makes it so
(`C01_release_unholds`).  Consequences: with no response holding a connection the open pool offers
exactly `n` slots (`C01_quiescent_slots_partial`), every connected connection is idle in the queue
(`C01_no_leak_partial`), and `n` holding responses block the `n+1`-th checkout
(`C01_n_plus_one_blocks`).  The two `_partial` theorems keep exactly one hypothesis, "no response
holds a connection": it cannot be replaced by "every response was read, released or closed"
because `HTTPResponse.close()` keeps the hold (`C01_close_keeps_slot_witness`, known finding
`slot-not-returned:close`).
-/
namespace U3.Props
open U3 U3.Pool

/-- a urllib3 exception -/
def isUrllib3 (c : Cls) : Bool := isSub c Gen.cU3HTTPError
/-- a `BaseException` that is not an `Exception` (what the fault scripts inject as an interrupt) -/
def isInterrupt (c : Cls) : Bool := isSub c Gen.cBaseException && !isSub c Gen.cException

/-- every class that can come out of `_make_request` in the model: what the fault scripts raise at
connect / send / recv (after `HTTPConnection._new_conn`'s and `_error_catcher`'s translation), what
`http.client` raises on the scripted server's bytes and on its own state machine, and the
pool's own errors -/
def raisable : List Cls :=
  [Gen.cU3NameResolutionError, Gen.cU3NewConnectionError, Gen.cU3ConnectTimeoutError,       -- connect
   Gen.cBrokenPipeError, Gen.cConnectionResetError, Gen.cOSError, Gen.cConnectionRefusedError, Gen.cTimeoutError,
   Gen.cGaierror, Gen.cKeyboardInterrupt, Gen.cSystemExit,                                    -- raw faults
   Gen.cRemoteDisconnected, Gen.cBadStatusLine, Gen.cLineTooLong, Gen.cHttpIncompleteRead,
   Gen.cResponseNotReady, Gen.cCannotSendRequest, Gen.cHTTPException,                          -- http.client
   Gen.cU3ReadTimeoutError, Gen.cU3ProtocolError, Gen.cU3IncompleteRead, Gen.cU3SSLError,      -- body read
   Gen.cSslSSLError, Gen.cSslCertVerificationError, Gen.cCertificateError,
   Gen.cU3EmptyPoolError, Gen.cU3ClosedPoolError, Gen.cU3FullPoolError]

def okClass (c0 c : Cls) : Bool := isUrllib3 c || (isInterrupt c && c == c0)

def handledOk (c0 : Cls) : Handled → Bool
  | .propagate => okClass c0 c0
  | .noCleanup => okClass c0 c0
  | .raise e => okClass c0 e.cls
  | .retry _ => true

/-- the finite table behind `C01_errors_are_urllib3`: for EVERY class that `_make_request` can raise
in the model (`raisable`, a superset of `U3.Pool.mrCls`), every proxy situation, every retry budget and
method class, what `urlopen`'s `except` clauses (read from the GENERATED tuples
`Gen.urlopenHandlers` / `Gen.urlopenIsinstance` and the generated subclass relation) hand to the
caller is a urllib3 exception, or the very interrupt that was raised -/
theorem C01_except_table :
    ∀ c ∈ raisable, ∀ unconnected mret : Bool, ∀ retries : Retry,
      handledOk c (handleError unconnected retries mret c) = true := by
  intro c hc unconnected mret retries
  have key : ∀ r ∈ [Retry.off, Retry.count 0, Retry.count 1],
      handledOk c (handleError unconnected r mret c) = true := by
    revert c unconnected mret
    decide
  match retries with
  | .off => exact key _ (by simp)
  | .count 0 => exact key _ (by simp)
  | .count (n + 1) =>
    -- the outcome for `count (n+1)` differs from `count 1` only in the budget that is left
    have h1 := key (.count 1) (by simp)
    have : handledOk c (handleError unconnected (.count (n + 1)) mret c)
         = handledOk c (handleError unconnected (.count 1) mret c) := by
      unfold handleError
      generalize isInst c (Gen.urlopenHandlers.getD 1 []) = A
      generalize isInst c (Gen.urlopenHandlers.getD 2 []) = B
      generalize translateUrlopen unconnected c = T
      cases A <;> cases B <;> simp only [Retry.incrementErr, Retry.dec, handledOk, if_true, if_false, Bool.false_eq_true] <;>
      cases isConnectionError T <;> cases isReadError T <;> cases mret <;> simp
    rw [this]; exact h1

example : Gen.cKeyboardInterrupt ∈ raisable ∧ Gen.cConnectionResetError ∈ raisable := by decide

/-- every class that leaves `_make_request` on a reachable state (`U3.Pool.makeRequest_inv`) is in the table -/
theorem C01_raisable_covers : ∀ c ∈ mrCls, c ∈ raisable := by decide

/-- FULL statement (DESIGN Appendix E): after any history on a pool created with `maxsize = n > 0`,
whatever a `urlopen` call raises — from `set_file_position`, from `_get_conn`, from any I/O step of any
attempt, from the retry machinery, from the wait between two attempts, from `_put_conn`, from draining a
redirect / retry response — is a urllib3 exception (`HTTPError`) or an interrupt (a `BaseException` that
is not an `Exception`; the fault scripts inject nothing else of that kind).  The one exception that is
neither is not a failure of the request: the `ValueError` raised for a per-request `timeout` argument
that `Timeout` rejects (`rc.badTimeout`) or for a negative `pool_timeout` (`rc.badPoolTimeout`, rejected by
`queue.get` on a `block=True` pool) — the caller's own argument error, raised before anything is
taken from the pool (`C01_preflight_failure_takes_nothing`, `C01_checkout_failure_takes_nothing`) — or for a header
value that `putheader` cannot encode (`rc.badHeader`: `UnicodeEncodeError`, a `ValueError`, raised between
`putrequest()` and `endheaders()`; the connection that was checked out is thrown away and its slot put back by
the `finally` clause like after any other failure: `C03_rejected_request_discards_connection` in `Props/C03.lean`;
the invariant and the slot accounting below hold for histories with such requests as for all others).  The lifting lemmas are
`U3.Pool.makeRequest_inv` (classes leaving `_make_request`) + `U3.Pool.request_good` (control flow of
`urlopen`, by induction over the attempt script). -/
theorem C01_errors_are_urllib3 (n : Nat) (block proxy : Bool) (hn : 0 < n) (ops : List Op) (rid : Nat) (rc : ReqCfg)
    (retries : Retry) (script : List Attempt) (e : Exc)
    (h : (step (run (init n block proxy) ops) (.request rid rc retries script)).2 = .result (.raised e)) :
    isUrllib3 e.cls = true ∨ isInterrupt e.cls = true ∨
      ((rc.badTimeout = true ∨ rc.badPoolTimeout = true ∨ rc.badHeader = true) ∧ e.cls = Gen.cValueError) := by
  have hi := run_inv ops _ (init_inv n block proxy hn)
  have g := (request_good rid 0 script _ rc retries hi (Nat.zero_le _)).2.1 e (by
    have : (step (run (init n block proxy) ops) (.request rid rc retries script)).2
        = .result (request (run (init n block proxy) ops) rid rc retries script).2 := rfl
    rw [this] at h; injection h)
  have : ((isUrllib3 e.cls || isInterrupt e.cls) ||
      ((rc.badTimeout || rc.badPoolTimeout || rc.badHeader) && e.cls == Gen.cValueError)) = true := g
  simp only [Bool.or_eq_true, Bool.and_eq_true, beq_iff_eq] at this
  rcases this with (h1 | h2) | ⟨h3, h4⟩
  · exact Or.inl h1
  · exact Or.inr (Or.inl h2)
  · exact Or.inr (Or.inr ⟨by rcases h3 with (h3 | h3) | h3 <;> simp [h3], h4⟩)

example : (match (step (run (init 1 true) []) (.request 0 {} .off [{ connect := .refused }])).2 with
    | .result (.raised e) => e.cls == Gen.cU3NewConnectionError
    | _ => false) = true := by decide

example : (match (step (run (init 1 true) []) (.request 0 { badHeader := true } (.count 2) [{}, {}])) with
    | (s, .result (.raised e)) => e.cls == Gen.cValueError && s.queue == [none]
    | _ => false) = true := by decide

/-- … in particular, with valid `timeout` and `pool_timeout` arguments and headers that can be encoded every failure
is a urllib3 exception or an interrupt -/
theorem C01_errors_are_urllib3_valid_timeout (n : Nat) (block proxy : Bool) (hn : 0 < n) (ops : List Op) (rid : Nat)
    (rc : ReqCfg) (retries : Retry) (script : List Attempt) (e : Exc) (hb : rc.badTimeout = false)
    (hp : rc.badPoolTimeout = false) (hh : rc.badHeader = false)
    (h : (step (run (init n block proxy) ops) (.request rid rc retries script)).2 = .result (.raised e)) :
    isUrllib3 e.cls = true ∨ isInterrupt e.cls = true := by
  rcases C01_errors_are_urllib3 n block proxy hn ops rid rc retries script e h with h1 | h2 | ⟨h3, _⟩
  · exact Or.inl h1
  · exact Or.inr h2
  · rw [hb, hp, hh] at h3; rcases h3 with h3 | h3 | h3 <;> cases h3

example : ({} : ReqCfg).badTimeout = false ∧ ({} : ReqCfg).badPoolTimeout = false ∧ ({} : ReqCfg).badHeader = false ∧
    (match (step (run (init 1 true) []) (.request 0 {} (.count 1)
        [{ head := some { status := 503, close := false, cl := some 0, location := false, retryAfter := true },
           wait := .invalidHeader }])).2 with
      | .result (.raised e) => e.cls == Gen.cU3InvalidHeader
      | _ => false) = true := by decide

/-- the generated `except` tuple of `urlopen` really is consulted: an `OSError` subclass reaches the
caller as `ProtocolError` (or `MaxRetryError`), never raw -/
theorem C01_oserror_is_wrapped :
    handleError false .off true Gen.cConnectionResetError = .raise (exc Gen.cU3ProtocolError) := by decide


/-! ### the invariant (DESIGN Appendix A)

`InvL s L` (in `U3/Lemmas/Pool.lean`): queue ids distinct and disjoint from leased (`L`) and held ids;
every connection with a socket is queued, leased or held; `queue.length ≤ maxsize`;
`queue.length + leases + held ≥ maxsize`, with equality when `block`.  `Inv s = InvL s []`.

Full statement (DESIGN Appendix E), proved as `C01_inv_reachable` below (helpers in
`U3/Lemmas/PoolInv.lean`: every function of the read family is exhibited as invariant-preserving
moves, `releaseConn_inv` is held → queue, `attachResp_inv` is lease → held, `request_good` is the
induction over the attempt script, `closePool_inv`).  The building blocks stay as theorems of their own:
the invariant holds initially; it is preserved by every primitive step of the read / close family
(`Steps`), by `_put_conn(conn)` on a clean exit and by `conn.close(); _put_conn(None)` on an unclean
one — including the `Full` / closed-pool / `FullPoolError` branches; `_get_conn` turns `Inv s` into
`InvL s' [c]`.
-/

/-- the slot invariant holds after EVERY history on a pool created with `maxsize = n > 0` -/
theorem C01_inv_reachable (n : Nat) (block proxy : Bool) (hn : 0 < n) (ops : List Op) :
    Inv (run (init n block proxy) ops) :=
  run_inv ops _ (init_inv n block proxy hn)

/-- `maxsize` and `block` are never written -/
theorem C01_config_const (n : Nat) (block proxy : Bool) (hn : 0 < n) (ops : List Op) :
    (run (init n block proxy) ops).maxsize = n ∧ (run (init n block proxy) ops).block = block := by
  have k := run_keep ops _ (init_inv n block proxy hn)
  exact ⟨k.msz, k.blk⟩

theorem C01_inv_init (n : Nat) (block proxy : Bool) (hn : 0 < n) : Inv (init n block proxy) :=
  init_inv n block proxy hn

theorem C01_inv_primitive_steps {s s' : State} {L : List Nat} (st : Steps [] s s') (h : InvL s L) : InvL s' L :=
  steps_inv (by simp) st h

theorem C01_inv_conn_close {s : State} {L : List Nat} (c : Nat) (h : InvL s L) : InvL (connClose s c) L :=
  connClose_inv c h

/-- clean exit: the leased connection goes back, the lease is over, `Inv` holds again -/
theorem C01_putback_restores_inv {s : State} {c : Nat} (h : InvL s [c]) : Inv (putConn s (some c)).1 :=
  putConn_lease_inv h

/-- unclean exit (any exception, handled or not, incl. an interrupt): the connection is closed and a
`None` placeholder takes its slot -/
theorem C01_discard_restores_inv {s : State} {c : Nat} (h : InvL s [c]) : Inv (discard s (some c)).1 :=
  discard_lease_inv h

/-- `_get_conn()` returning connection `c` turns `Inv` into the invariant with `c` leased -/
theorem C01_checkout_inv {s s' : State} {c : Nat} (h : Inv s) (hg : getConn s = (s', .ok c)) : InvL s' [c] :=
  getConn_inv h hg

/-- … and when it raises (`EmptyPoolError`, `ClosedPoolError`) nothing was taken -/
theorem C01_checkout_error_takes_nothing {s s' : State} {e : Exc} (hg : getConn s = (s', .error e)) : s' = s :=
  getConn_error_state hg

/-- … also with a `pool_timeout` that `queue.get` rejects (`ValueError` on an open `block=True` pool) -/
theorem C01_checkout_error_takes_nothing_any_timeout {s s' : State} {b : Bool} {e : Exc}
    (hg : getConnT s b = (s', .error e)) : s' = s :=
  getConnT_error_state hg

example : getConnT (init 1 true) true = (init 1 true, .error (exc Gen.cValueError)) ∧
    (getConnT (init 1 false) true).2 = .ok 0 := ⟨rfl, rfl⟩

/-- one-attempt summary, clean exit with `release_conn`: checkout, then ANY sequence of primitive steps
(connecting `c`, sending, reading, closing sockets and readers, creating the response), then
`_put_conn(c)` — the invariant holds again -/
theorem C01_attempt_clean_exit {s s1 s2 : State} {c : Nat} (h : Inv s) (hg : getConn s = (s1, .ok c))
    (st : Steps [c] s1 s2) : Inv (putConn s2 (some c)).1 :=
  putConn_lease_inv (steps_inv (by simp) st (getConn_inv h hg))

/-- one-attempt summary, unclean exit (any exception or interrupt at any I/O step): the `finally`
clause closes `c` and puts `None` back — the invariant holds again, no slot is lost -/
theorem C01_attempt_unclean_exit {s s1 s2 : State} {c : Nat} (h : Inv s) (hg : getConn s = (s1, .ok c))
    (st : Steps [c] s1 s2) : Inv (discard s2 (some c)).1 :=
  discard_lease_inv (steps_inv (by simp) st (getConn_inv h hg))

example : (getConn (init 1 true)).2 = .ok 0 := rfl

example : InvL { (init 1 true) with queue := [], conns := [{}] } [0] := by
  refine ⟨by decide, ?_, ?_, ?_, ?_, ?_, ?_, ?_⟩ <;> simp [init, owned, queued, held]
  intro c cn h; cases c <;> simp at h; subst h; simp

/-
Full statement: (statement) C01_quiescent_slots (ops) (every returned response has been read, released or
closed) : (run (init n …) ops).queue.length = n.   FALSE on this tree as stated: see
`C01_close_keeps_slot_witness` (known finding `slot-not-returned:close`; the second former witness is
now the positive `C01_preload_released`).  Proved, for EVERY history: whenever no response still holds a
connection — which is what read-to-the-end, `release_conn()`, `drain_conn()`, a failed read and (since
the repair) a preloaded body establish, but not `close()` — the open pool offers exactly `n` slots.
The hypothesis `held s = []` is the only one left; `Inv` is discharged by `C01_inv_reachable`.
-/
theorem C01_quiescent_slots_partial (n : Nat) (block proxy : Bool) (hn : 0 < n) (ops : List Op)
    (hc : (run (init n block proxy) ops).closed = false) (hq : held (run (init n block proxy) ops) = []) :
    (run (init n block proxy) ops).queue.length = n := by
  have h := C01_inv_reachable n block proxy hn ops
  have h1 := h.slots hc
  have h2 := h.len
  rw [(C01_config_const n block proxy hn ops).1] at h1 h2
  simp [hq] at h1
  omega

example : let s := run (init 1 true) [.request 0 { preload := false, release := false } .off
      [{ head := some { status := 200, close := false, cl := some 2, location := false, retryAfter := false }, body := [1, 2] }],
      .dispose 0 .release]
    s.closed = false ∧ held s = [] := by decide

/-- quiescent ⇒ every connection that still has a socket is idle in the queue (every history).  Same
remaining hypothesis.  (Sockets kept open only by the reader of a response whose connection went back
unread — finding `unread-response-after-release` — are not connection sockets: `conn.sock` is `none`
for them; the statement is about connections.) -/
theorem C01_no_leak_partial (n : Nat) (block proxy : Bool) (hn : 0 < n) (ops : List Op)
    (hq : held (run (init n block proxy) ops) = []) :
    ∀ c cn, (run (init n block proxy) ops).conns[c]? = some cn → cn.sock ≠ none →
      some c ∈ (run (init n block proxy) ops).queue := by
  intro c cn hc hs
  have := (C01_inv_reachable n block proxy hn ops).live c cn hc hs
  simp [owned, hq, queued] at this
  exact this

/-- the same two consequences for any state satisfying the invariant (the form used before
`C01_inv_reachable` was available) -/
theorem C01_quiescent_of_inv {s : State} (h : Inv s) (hc : s.closed = false) (hq : held s = []) :
    s.queue.length = s.maxsize ∧ ∀ c cn, s.conns[c]? = some cn → cn.sock ≠ none → some c ∈ s.queue := by
  refine ⟨?_, ?_⟩
  · have h1 := h.slots hc
    have h2 := h.len
    simp [hq] at h1
    omega
  · intro c cn hc' hs
    have := h.live c cn hc' hs
    simp [owned, hq, queued] at this
    exact this

/-- a response that holds no connection never holds one later (every history, every continuation) -/
theorem C01_unheld_stays (n : Nat) (block proxy : Bool) (hn : 0 < n) (ops more : List Op) (r : Nat) (rs : Resp)
    (hr : (run (init n block proxy) ops).resps[r]? = some rs) (hc : rs.conn = none) :
    ∀ rs' : Resp, (run (run (init n block proxy) ops) more).resps[r]? = some rs' → rs'.conn = none :=
  unheld_stays (C01_inv_reachable n block proxy hn ops) more hr hc

/-- `release_conn()` on a response that knows its pool leaves it holding nothing, in every reachable
state — and its `_put_conn` never raises `FullPoolError` -/
theorem C01_release_unholds (n : Nat) (block proxy : Bool) (hn : 0 < n) (ops : List Op) (r : Nat) (rs : Resp)
    (hr : (run (init n block proxy) ops).resps[r]? = some rs) (hp : rs.hasPool = true) :
    (releaseConn (run (init n block proxy) ops) r).2 = none ∧
    ∀ rs' : Resp, (releaseConn (run (init n block proxy) ops) r).1.resps[r]? = some rs' → rs'.conn = none :=
  ⟨(releaseConn_inv r (C01_inv_reachable n block proxy hn ops)).2,
   releaseConn_unholds (C01_inv_reachable n block proxy hn ops) hr hp⟩

/-- `block=True`: with `maxsize` responses holding their connections the queue is empty and the next
checkout is `EmptyPoolError` -/
theorem C01_n_plus_one_blocks {s : State} (h : Inv s) (hc : s.closed = false) (hb : s.block = true)
    (hn : (held s).length = s.maxsize) :
    (getConn s).2 = .error (exc Gen.cU3EmptyPoolError) ∧ (getConn s).1 = s := by
  have h1 := h.slotsB hc hb
  have hq : s.queue = [] := by
    cases hq : s.queue with
    | nil => rfl
    | cons a t => rw [hq] at h1; simp at h1; omega
  unfold getConn
  simp [hc, hq, hb]

example : Inv (init 2 true) ∧ (init 2 true).closed = false := ⟨init_inv 2 true false (by decide), rfl⟩

/-! ### the candidate of DESIGN §7, on the model: `response.close()` never gives the slot back -/

def okAttempt : Attempt :=
  { head := some { status := 200, close := false, cl := some 5, location := false, retryAfter := false },
    headLen := 37, body := [1, 2, 3, 4, 5] }

def streamCfg : ReqCfg := { preload := false, release := false }

/-- block=True, maxsize=1: `urlopen(preload_content=False)`, `response.close()` — the response has been
closed, the pool offers 0 slots instead of 1 and the next request is `EmptyPoolError` (negation
witness for the unrestricted `C01_quiescent_slots`; `known_findings/C01.json`, signature
`slot-not-returned:close`) -/
theorem C01_close_keeps_slot_witness :
    let s := run (init 1 true) [.request 0 streamCfg .off [okAttempt], .dispose 0 .close]
    s.queue.length = 0 ∧ s.resps.all (fun r => r.fp.isNone) = true ∧
      (match (step s (.request 1 streamCfg .off [okAttempt])).2 with
       | .result (.raised e) => e.cls == Gen.cU3EmptyPoolError
       | _ => false) = true := by decide

/-- the same history with `release_conn()` instead of `close()` gives the slot back -/
theorem C01_release_returns_slot_witness :
    (run (init 1 true) [.request 0 streamCfg .off [okAttempt], .dispose 0 .release]).queue.length = 1 := by decide

/-- `preload_content=True, release_conn=False` (former finding
`slot-not-returned:preloaded-release_conn=False`, repaired: `_make_request` releases the connection
of a response whose preloaded body has been read to the end): the history of the former negation
witness now leaves the slot in the pool — after `urlopen` already, and `stream()` on the preloaded
response changes nothing; the response no longer holds the connection -/
theorem C01_preload_released :
    let s1 := run (init 1 true) [.request 0 { preload := true, release := false } .off [okAttempt]]
    let s := run (init 1 true) [.request 0 { preload := true, release := false } .off [okAttempt], .dispose 0 (.stream 3)]
    s1.queue.length = 1 ∧ s.queue.length = 1 ∧ s.resps.all (fun r => r.fp.isNone) = true ∧ held s = [] ∧
      (match (step s (.request 1 { preload := true, release := false } .off [okAttempt])).2 with
       | .result (.resp _) => true
       | _ => false) = true := by decide

/-! ### failures outside the I/O steps of an attempt: before the checkout, between two attempts -/

/-- `block=True`: after EVERY history the free slots and the connections held by responses add up to
exactly `n` (never `n + 1`: no slot is ever duplicated — what the two repaired instances of the defect
`put-without-checkout` broke: `timeout=-1`, and `pool_timeout=-1`, which is part of every history here through
`ReqCfg.badPoolTimeout`; the harness oracle `slot-surplus` is this statement on the implementation) -/
theorem C01_block_slots_exact (n : Nat) (proxy : Bool) (hn : 0 < n) (ops : List Op)
    (hc : (run (init n true proxy) ops).closed = false) :
    (run (init n true proxy) ops).queue.length + (held (run (init n true proxy) ops)).length = n := by
  have h := C01_inv_reachable n true proxy hn ops
  have k := C01_config_const n true proxy hn ops
  have h1 := h.slotsB hc k.2
  rw [k.1] at h1
  simpa using h1

example : (run (init 2 true) [.request 0 { preload := false, release := false } .off
      [{ head := some { status := 200, close := false, cl := some 2, location := false, retryAfter := false }, body := [1, 2] }]]).closed
    = false := by decide

/-- a failure before the `try:` of `urlopen` — a file-like body that cannot be rewound at this hop
(`UnrewindableBodyError`), a per-request timeout that `Timeout` rejects (`ValueError`) — leaves the pool
exactly as it was, in EVERY state: nothing is taken, nothing is put back, nothing is logged -/
theorem C01_preflight_failure_takes_nothing (s : State) (rid : Nat) (rc : ReqCfg) (retries : Retry) (a : Attempt)
    (rest : List Attempt) (e : Exc) (h : preflight rc a = some e) :
    request s rid rc retries (a :: rest) = (s, .raised e) := by
  rw [request, h]

example : preflight { badTimeout := true } {} = some (exc Gen.cValueError) ∧
    preflight { fileBody := true, bodyPos := true } { pre := .unrewindable } = some (exc Gen.cU3UnrewindableBodyError) := by
  decide

/-- a failure INSIDE the checkout — whatever `_get_conn(timeout=pool_timeout)` raises: `ClosedPoolError`,
`EmptyPoolError`, or the `ValueError` of `queue.get` for a negative `pool_timeout` on a `block=True` pool — leaves
the pool exactly as it was, in EVERY state: `_get_conn` has taken nothing (`C01_checkout_error_takes_nothing_any_timeout`),
none of `urlopen`'s `except` clauses retries these classes, and the `finally` clause, which sees `conn is None`, puts
nothing back and logs nothing.  (Before the repair of `put-without-checkout:pool-timeout` the `finally` clause ran
`_put_conn(None)` here for everything but `EmptyPoolError`.) -/
theorem C01_checkout_failure_takes_nothing (s s' : State) (rid : Nat) (rc : ReqCfg) (retries : Retry) (a : Attempt)
    (rest : List Attempt) (e : Exc) (hp : preflight rc a = none)
    (hg : getConnT s rc.badPoolTimeout = (s', .error e)) :
    request s rid rc retries (a :: rest) = (s, .raised e) := by
  have hs : s' = s := getConnT_error_state hg
  subst hs
  have hcls : e.cls = Gen.cValueError ∨ e.cls = Gen.cU3ClosedPoolError ∨ e.cls = Gen.cU3EmptyPoolError := by
    rcases getConnT_cases s' rc.badPoolTimeout with hT | ⟨hT, -⟩
    · rw [hT] at hg
      rcases getConn_error_cls hg with ⟨_, q⟩ | q
      · exact Or.inr (Or.inl q)
      · exact Or.inr (Or.inr q)
    · rw [hT] at hg; cases hg; exact Or.inl rfl
  rw [request, hp]
  dsimp only
  rw [hg]
  dsimp only
  rcases hcls with q | q | q <;> rw [q]
  · rw [handleError_valueError]; rfl
  · rw [handleError_closedPool]; rfl
  · rw [handleError_emptyPool]

example : preflight { badPoolTimeout := true } {} = none ∧
    getConnT (init 2 true) ({ badPoolTimeout := true } : ReqCfg).badPoolTimeout = (init 2 true, .error (exc Gen.cValueError)) :=
  ⟨rfl, rfl⟩

def stream200 : Attempt :=
  { head := some { status := 200, close := false, cl := some 2, location := false, retryAfter := false }, body := [1, 2] }

/-- the history of the repaired defect `put-without-checkout` (`known_findings/C01.json`): `block=True`,
`maxsize=2`, one streamed response outstanding, then `urlopen(..., timeout=-1)`.  Before the repair the
`ValueError` was raised inside the `try:` and the `finally` clause put back a `None` that was never taken:
2 free slots + 1 outstanding response, and three connections open at once two requests later.  Now: the
`ValueError` reaches the caller, nothing is put back (no `put` event), the pool still offers 1 free slot,
and of two further streamed requests the second is refused (`EmptyPoolError`): never more than 2 sockets -/
theorem C01_bad_timeout_takes_no_slot :
    let s1 := run (init 2 true) [.request 0 streamCfg .off [stream200]]
    let x := step { s1 with log := [] } (.request 1 { streamCfg with badTimeout := true } .off [stream200])
    let s3 := run x.1 [.request 2 streamCfg .off [stream200]]
    (match x.2 with
     | .result (.raised e) => e.cls == Gen.cValueError
     | _ => false) = true ∧
    x.1.log = [] ∧ x.1.queue.length = 1 ∧ (held x.1).length = 1 ∧
    s3.queue.length = 0 ∧ s3.socks.length = 2 ∧
    (match (step s3 (.request 3 streamCfg .off [stream200])).2 with
     | .result (.raised e) => e.cls == Gen.cU3EmptyPoolError
     | _ => false) = true := by decide

/-- the histories of the repaired defect `put-without-checkout:pool-timeout` (`known_findings/C01.json`): `block=True`,
`maxsize=2`, one streamed response outstanding, then `urlopen(..., pool_timeout=-1)` — with `release_conn=False` and
with the default `release_conn=True`.  Before the repair `queue.get(block=True, timeout=-1)` raised `ValueError` inside
`_get_conn()`, i.e. inside `urlopen`'s `try:`, and the `finally` clause (`clean_exit` false, `conn` `None`) put back a
`None` that was never taken: 2 free slots + 1 outstanding response, and three connections open at once two requests
later.  Now: the `ValueError` reaches the caller, nothing is put back (no `put` event), the pool still offers 1 free
slot, and of two further streamed requests the second is refused (`EmptyPoolError`): never more than 2 sockets.  On an
idle `block=True, maxsize=1` pool the caller gets the `ValueError` (before the repair: `FullPoolError` from the
surplus `_put_conn(None)`), and a request on a closed pool (`ClosedPoolError`) no longer calls `_put_conn` either. -/
theorem C01_bad_pool_timeout_takes_no_slot :
    (∀ rc ∈ [{ streamCfg with badPoolTimeout := true }, ({ badPoolTimeout := true } : ReqCfg)],
      let s1 := run (init 2 true) [.request 0 streamCfg .off [stream200]]
      let x := step { s1 with log := [] } (.request 1 rc .off [stream200])
      let s3 := run x.1 [.request 2 streamCfg .off [stream200]]
      (match x.2 with
       | .result (.raised e) => e.cls == Gen.cValueError
       | _ => false) = true ∧
      x.1.log = [] ∧ x.1.queue.length = 1 ∧ (held x.1).length = 1 ∧
      s3.queue.length = 0 ∧ s3.socks.length = 2 ∧
      (match (step s3 (.request 3 streamCfg .off [stream200])).2 with
       | .result (.raised e) => e.cls == Gen.cU3EmptyPoolError
       | _ => false) = true) ∧
    (let x := step (init 1 true) (.request 0 { badPoolTimeout := true } (.count 2) [stream200, stream200])
     (match x.2 with
      | .result (.raised e) => e.cls == Gen.cValueError
      | _ => false) = true ∧ x.1.log = [] ∧ x.1.queue = [none]) ∧
    (let x := step (run (init 1 true) [.closePool]) (.request 0 {} .off [stream200])
     (match x.2 with
      | .result (.raised e) => e.cls == Gen.cU3ClosedPoolError
      | _ => false) = true ∧ x.1.log = []) := by decide

/-- a `block=False` pool never looks at `pool_timeout`: the same request is served -/
example : (match (step (init 1 false) (.request 0 { badPoolTimeout := true } .off [stream200])).2 with
    | .result (.resp _) => true
    | _ => false) = true := by decide

def retry503 (w : WaitOut) : Attempt :=
  { head := some { status := 503, close := false, cl := some 2, location := false, retryAfter := true }, body := [1, 2], wait := w }

def redirect302 (w : WaitOut) : Attempt :=
  { head := some { status := 302, close := false, cl := some 2, location := true, retryAfter := true }, body := [1, 2], wait := w }

/-- the wait between two attempts raises (`Retry-After: soon` → `InvalidHeader`; `time.sleep` interrupted)
with `preload_content=False`, after a 503 that is retried and after a 302 that is followed: the
intermediate response has been drained BEFORE the wait, so its connection is back in the pool — the
`block=True, maxsize=1` pool offers its slot, no response holds a connection, and the next request is
served on the same socket (a `urlopen` that waited first and drained afterwards would lose the slot:
seeded defect C01-m3) -/
theorem C01_wait_failure_slot_is_back :
    ∀ a ∈ [retry503 .invalidHeader, retry503 .interrupt, redirect302 .invalidHeader, redirect302 .interrupt],
      let x := step (init 1 true) (.request 0 streamCfg (.count 2) [a, stream200])
      (match x.2 with
       | .result (.raised e) => e.cls == Gen.cU3InvalidHeader || e.cls == Gen.cKeyboardInterrupt
       | _ => false) = true ∧
      x.1.queue = [some 0] ∧ held x.1 = [] ∧
      (match (step x.1 (.request 1 streamCfg .off [stream200])).2 with
       | .result (.resp _) => true
       | _ => false) = true ∧
      (step x.1 (.request 1 streamCfg .off [stream200])).1.socks.length = 1 := by decide

/-- a retry / redirect hop of a request with a file-like body that cannot be rewound, while another
response is outstanding on a `block=True, maxsize=2` pool: `UnrewindableBodyError`, and the hop — which
never took a connection — puts nothing back: 1 free slot + 1 outstanding response (a `urlopen` that
rewinds inside its `try:` would put a `None` back here: seeded defect C01-m6) -/
theorem C01_unrewindable_hop_takes_no_slot :
    let s1 := run (init 2 true) [.request 0 streamCfg .off [stream200]]
    let x := step s1 (.request 1 { fileBody := true } (.count 2) [redirect302 .ok, { stream200 with pre := .unrewindable }])
    (match x.2 with
     | .result (.raised e) => e.cls == Gen.cU3UnrewindableBodyError
     | _ => false) = true ∧
    x.1.queue.length = 1 ∧ (held x.1).length = 1 := by decide

/-! ### no intermediate response of a retry / redirect chain keeps a connection, however the chain ends -/

/-- after EVERY history, whatever a `urlopen` call raises — exhausted budget after a drained 3xx / 503, a fault
while draining, `InvalidHeader` or an interrupt in the wait between two attempts, `UnrewindableBodyError` at the
next hop, a fault in a later attempt … — every response that holds a connection after the call held that very
connection before it.  None of the responses created during the call (the intermediate responses of the retry /
redirect chain, which the caller never sees) keeps a connection: `urlopen` drains an intermediate response before it
does anything else that can fail, and a drain — successful or not — gives the connection back
(`U3.Pool.drainConn_unholds`, `U3.Pool.request_hold`).  The seeded defect C01-m3 (wait first, drain afterwards)
is exactly a `urlopen` for which this statement is false. -/
theorem C01_failed_call_holds_nothing (n : Nat) (block proxy : Bool) (hn : 0 < n) (ops : List Op) (rid : Nat) (rc : ReqCfg)
    (retries : Retry) (script : List Attempt) (e : Exc)
    (h : (step (run (init n block proxy) ops) (.request rid rc retries script)).2 = .result (.raised e)) :
    ∀ (r : Nat) (rs : Resp), (step (run (init n block proxy) ops) (.request rid rc retries script)).1.resps[r]? = some rs →
      rs.conn ≠ none → ∃ rs0 : Resp, (run (init n block proxy) ops).resps[r]? = some rs0 ∧ rs0.conn = rs.conn := by
  have hh := request_hold (A := fun _ _ => True) rid script _ rc retries (prov_reachable n block proxy ops)
    (C01_inv_reachable n block proxy hn ops) (fun _ _ => trivial)
  have e2 : (request (run (init n block proxy) ops) rid rc retries script).2 = .raised e := by
    have : (step (run (init n block proxy) ops) (.request rid rc retries script)).2
        = .result (request (run (init n block proxy) ops) rid rc retries script).2 := rfl
    rw [this] at h; injection h
  rw [e2] at hh
  intro r rs g hne
  rcases hh r rs g hne with q | q
  · cases q
  · exact q

example : (step (run (init 1 true) []) (.request 0 streamCfg (.count 2) [retry503 .invalidHeader, stream200])).2
    = .result (.raised (exc Gen.cU3InvalidHeader)) := rfl

/-- … and when the call returns a response, that response is the only one that may have started holding a
connection: every intermediate response of the chain has given its connection back -/
theorem C01_intermediate_responses_hold_nothing (n : Nat) (block proxy : Bool) (hn : 0 < n) (ops : List Op) (rid : Nat)
    (rc : ReqCfg) (retries : Retry) (script : List Attempt) (r0 : Nat)
    (h : (step (run (init n block proxy) ops) (.request rid rc retries script)).2 = .result (.resp r0)) :
    ∀ (r : Nat) (rs : Resp), (step (run (init n block proxy) ops) (.request rid rc retries script)).1.resps[r]? = some rs →
      rs.conn ≠ none → r = r0 ∨ ∃ rs0 : Resp, (run (init n block proxy) ops).resps[r]? = some rs0 ∧ rs0.conn = rs.conn := by
  have hh := request_hold (A := fun _ _ => True) rid script _ rc retries (prov_reachable n block proxy ops)
    (C01_inv_reachable n block proxy hn ops) (fun _ _ => trivial)
  have e2 : (request (run (init n block proxy) ops) rid rc retries script).2 = .resp r0 := by
    have : (step (run (init n block proxy) ops) (.request rid rc retries script)).2
        = .result (request (run (init n block proxy) ops) rid rc retries script).2 := rfl
    rw [this] at h; injection h
  rw [e2] at hh
  intro r rs g hne
  rcases hh r rs g hne with q | q
  · left; cases q; rfl
  · exact Or.inr q

example : (step (run (init 1 true) []) (.request 0 streamCfg (.count 2) [redirect302 .ok, stream200])).2
    = .result (.resp 1) := rfl

/-- consequence: a failing `urlopen` call on a pool on which no response holds a connection leaves a pool on
which no response holds a connection — the open pool offers exactly `n` slots again, whatever the failure
(every history before the call, every script, configuration and budget) -/
theorem C01_failed_call_quiescent (n : Nat) (block proxy : Bool) (hn : 0 < n) (ops : List Op) (rid : Nat) (rc : ReqCfg)
    (retries : Retry) (script : List Attempt) (e : Exc)
    (hq : held (run (init n block proxy) ops) = [])
    (h : (step (run (init n block proxy) ops) (.request rid rc retries script)).2 = .result (.raised e)) :
    held (step (run (init n block proxy) ops) (.request rid rc retries script)).1 = [] ∧
    ((step (run (init n block proxy) ops) (.request rid rc retries script)).1.closed = false →
      (step (run (init n block proxy) ops) (.request rid rc retries script)).1.queue.length = n) := by
  have hi := C01_inv_reachable n block proxy hn ops
  have key := C01_failed_call_holds_nothing n block proxy hn ops rid rc retries script e h
  have hold0 : ∀ rs0 ∈ (run (init n block proxy) ops).resps, rs0.conn = none := by
    intro rs0 hm
    simp only [held, List.filterMap_eq_nil_iff] at hq
    exact hq rs0 hm
  have hnew : held (step (run (init n block proxy) ops) (.request rid rc retries script)).1 = [] := by
    simp only [held, List.filterMap_eq_nil_iff]
    intro rs hm
    obtain ⟨r, hr, hget⟩ := List.mem_iff_getElem.mp hm
    cases hc : rs.conn with
    | none => rfl
    | some c =>
      have g : (step (run (init n block proxy) ops) (.request rid rc retries script)).1.resps[r]? = some rs := by
        rw [List.getElem?_eq_getElem hr, hget]
      obtain ⟨rs0, g0, e0⟩ := key r rs g (by rw [hc]; simp)
      have := hold0 rs0 (List.mem_of_getElem? g0)
      rw [e0, hc] at this; cases this
  refine ⟨hnew, ?_⟩
  intro hcl
  have h' := step_inv' (.request rid rc retries script) hi
  have k := step_keep (.request rid rc retries script) hi
  have := (C01_quiescent_of_inv h' hcl hnew).1
  rw [this, k.msz, (C01_config_const n block proxy hn ops).1]

example : held (run (init 1 true) []) = [] ∧
    (step (run (init 1 true) []) (.request 0 streamCfg (.count 2) [redirect302 .interrupt, stream200])).2
      = .result (.raised (exc Gen.cKeyboardInterrupt)) := ⟨rfl, rfl⟩

/-! ### `block=True`: never more than `n` connected connections -/

/-- the connections that have a socket -/
def connected (s : State) : List Nat :=
  (List.range s.conns.length).filter fun c =>
    match s.conns[c]? with
    | some cn => cn.sock.isSome
    | none => false

/-
Full statement (DESIGN Appendix E): (statement) C01_block_bound : block → number of open sockets ≤ n, always.
FALSE on this tree as stated (known finding `block-bound-exceeded:unread-response-after-release`): the reader of a
`Connection: close` / read-until-close response whose connection went back to the pool unread keeps the detached
socket open while the pool connects another one.  Proved, for EVERY history (new outcomes included): the number of
CONNECTIONS that have a socket never exceeds `n` on an open `block=True` pool — every connected connection is idle in
the queue or held by a response (`Inv.live`), those are pairwise distinct (`Inv.nodup`), and free slots + held
connections = `n` (`C01_block_slots_exact`).  The missing part is exactly the sockets referenced by a reader only.
-/
theorem C01_block_bound_partial (n : Nat) (proxy : Bool) (hn : 0 < n) (ops : List Op)
    (hc : (run (init n true proxy) ops).closed = false) :
    (connected (run (init n true proxy) ops)).length ≤ n := by
  have h := C01_inv_reachable n true proxy hn ops
  have hs := C01_block_slots_exact n proxy hn ops hc
  generalize run (init n true proxy) ops = s at h hs
  have nd : (connected s).Nodup := (List.filter_sublist (l := List.range s.conns.length)).nodup List.nodup_range
  have sub : connected s ⊆ owned s [] := by
    intro c hcm
    simp only [connected, List.mem_filter, List.mem_range] at hcm
    obtain ⟨_, hb⟩ := hcm
    cases hcn : s.conns[c]? with
    | none => simp [hcn] at hb
    | some cn =>
      simp only [hcn] at hb
      exact h.live c cn hcn (by intro hx; rw [hx] at hb; cases hb)
  have l1 := nd.length_le_of_subset sub
  have l2 : (owned s []).length ≤ s.queue.length + (held s).length := by
    simp only [owned, queued, List.length_append, List.nil_append]
    exact Nat.add_le_add_right (List.length_filterMap_le _ _) _
  omega

example : let s := run (init 1 true) [.request 0 streamCfg .off [stream200]]
    s.closed = false ∧ connected s = [0] := by decide

end U3.Props
