import U3.Lemmas.PoolConcInv
import U3.Lemmas.PoolConcClose
/-!
# C02 — concurrent requests never share a connection, exceed maxsize, or deadlock

Model: `U3.PoolConc` (small-step interleaving semantics of `_get_conn` / `_put_conn` / `close` /
`release_conn`, one step per access to shared state).  `run cfg progs σ` executes the schedule `σ`
(a list of thread indices, any length) on any number of threads `progs`.  All positive theorems
are proved by invariant induction over `runFrom` (`U3.Lemmas.PoolConcInv`: `Inv`, `InvB`, `InvM`,
`InvR`, preserved by every step of every thread) and hold for **every** configuration, every list
of thread programs and every schedule.
-/
namespace U3.Props
open U3 U3.PoolConc

/-! ## Exclusive use -/

/-- **Exclusive use.**  In every reachable configuration no connection id is held (in a request in
flight, in a `_put_conn` / drain step, or by a streaming response) by two threads, a thread never
holds the same connection twice, a queued connection is held by no thread, and the queue holds no
connection twice. -/
theorem C02_exclusive_use (cfg : Cfg) (progs : List (List Op)) (σ : List Nat) :
    let s := run cfg progs σ
    (∀ c, (holders s c).length ≤ 1) ∧
    (∀ c ∈ queueConns s.sh, holders s c = []) ∧
    (queueConns s.sh).Nodup ∧
    (∀ th ∈ s.threads, th.owned.Nodup) := by
  intro s
  have hi := (invAll_run cfg progs σ).ids
  refine ⟨?_, ?_, hi.qnodup, ?_⟩
  · intro c
    apply length_le_one_of_all_eq (holders_nodup s c)
    intro a ha b hb
    obtain ⟨tha, ga, hca⟩ := mem_holders.mp ha
    obtain ⟨thb, gb, hcb⟩ := mem_holders.mp hb
    by_cases e : a = b
    · exact e
    · exact absurd hcb (hi.disj a b tha thb ga gb e c hca)
  · intro c hc
    apply List.eq_nil_iff_forall_not_mem.mpr
    intro t ht
    obtain ⟨th, g, hcth⟩ := mem_holders.mp ht
    exact (hi.tlt t th g c hcth).2 hc
  · intro th hth
    obtain ⟨t, g⟩ := List.getElem?_of_mem hth
    exact hi.tnodup t th g

/-! ## `block=True` bounds the number of open sockets -/

/-- **Block bound.**  With `block=True` the number of simultaneously open connections never
exceeds `maxsize`: neither now (`openC`) nor at any earlier moment of the run (the ghost
high-water mark `maxOpen`), and the slots are never over-committed. -/
theorem C02_block_bound (cfg : Cfg) (progs : List (List Op)) (σ : List Nat)
    (hb : cfg.block = true) :
    let s := run cfg progs σ
    s.sh.maxOpen ≤ cfg.maxsize ∧ s.sh.openC.length ≤ cfg.maxsize ∧
    s.sh.queue.length + leases s ≤ cfg.maxsize := by
  intro s
  have hi := invAll_run cfg progs σ
  have hc : s.cfg = cfg := by simp [s, run, init]
  have hb' : s.cfg.block = true := by rw [hc]; exact hb
  rw [← hc]
  exact ⟨hi.mx hb', open_le hi.ids hi.cnt hb', hi.cnt.slots hb'⟩

/-- non-vacuity: a `block=True` pool of size 1 used by two threads does open one socket -/
example : (run ⟨1, true, false⟩ [[.req 0 .ok false], [.req 0 .ok false]]
    [0, 0, 0, 0, 0, 0, 0, 0, 1, 1, 1, 1, 1, 1, 1, 1]).sh.maxOpen = 1 := by decide

/-! ## Every request gets its own response -/

/-- **Own response.**  In every reachable configuration a thread that waits for a response waits
on a connection whose pending response (`wire`) carries that thread's own tag — (its index, its
request counter) — and no finished op has the result `wrongResp`: every `Res.ok` of a request is
the response to its own tag. -/
theorem C02_own_response (cfg : Cfg) (progs : List (List Op)) (σ : List Nat) :
    let s := run cfg progs σ
    (∀ (t : Nat) (th : Thread), s.threads[t]? = some th → ∀ c tag f l st,
        th.pc = .recv c tag f l st →
        wireGet s.sh.wire c = some tag ∧ tag = (t, th.sent - 1) ∧ 0 < th.sent) ∧
    (∀ rs ∈ results s, ∀ p ∈ rs, p.2 ≠ .wrongResp) := by
  intro s
  have hi := invAll_run cfg progs σ
  constructor
  · intro t th g c tag f l st hpc
    have h1 := hi.ids.recv t th g c tag f l st hpc
    have h2 := hi.ids.tag t th g c tag f l st hpc
    refine ⟨h1, ?_, by omega⟩
    rcases tag with ⟨a, b⟩
    simp at h2 ⊢
    omega
  · intro rs hrs p hp
    simp only [results, List.mem_map] at hrs
    obtain ⟨th, hth, rfl⟩ := hrs
    obtain ⟨t, g⟩ := List.getElem?_of_mem hth
    have := hi.res.good t th g p hp
    intro e
    simp [GoodRes, e] at this

/-! ## No lost slot, no deadlock (runs without `close`) -/

/-- **No lost slot.**  Without `close` ops a `block=True` pool conserves its slots under every
schedule: queue length + leases (checkouts in flight and unreleased streaming responses, summed
over all threads) = `maxsize`; and the pool is never closed behind the threads' back. -/
theorem C02_no_lost_slot (cfg : Cfg) (progs : List (List Op)) (σ : List Nat)
    (hc : NoClose progs) (hb : cfg.block = true) :
    let s := run cfg progs σ
    s.sh.queue.length + leases s = cfg.maxsize ∧ s.sh.poolRef ≠ none := by
  intro s
  have hn := invNC_run cfg hc σ
  have hcfg : s.cfg = cfg := by simp [s, run, init]
  have := hn.cons (by rw [hcfg]; exact hb)
  rw [hcfg] at this
  exact ⟨this, hn.pool⟩

/-- non-vacuity: two threads on a `block=True` pool of size 1, one of them mid-request -/
example : NoClose [[.req 0 .ok true, .release], [.req 1 .ok false]] ∧
    (let s := run ⟨1, true, false⟩ [[.req 0 .ok true, .release], [.req 1 .ok false]] [0, 0, 0, 1, 1]
     s.sh.queue.length = 0 ∧ leases s = 1) := by
  refine ⟨?_, by decide⟩
  intro p hp
  simp at hp
  rcases hp with rfl | rfl <;> simp

/-- non-vacuity with a connection pooled closed: after a `Connection: close` reply the queue of a
`block=True` pool of size 2 holds the closed connection object and a placeholder, thread 1 is
mid-request on a second object: 2 queued + 1 leased would be 3 — the count is 1 + 1 -/
example : NoClose [[.req 0 .okClose false, .req 0 .ok false], [.req 0 .ok false]] ∧
    (let s := run ⟨2, true, false⟩ [[.req 0 .okClose false, .req 0 .ok false], [.req 0 .ok false]]
       [0, 0, 0, 0, 0, 1, 1, 1, 1, 0, 0, 0]
     s.sh.queue = [some 0] ∧ s.sh.openC = [1] ∧ leases s = 1) := by
  refine ⟨?_, by decide⟩
  intro p hp
  simp at hp
  rcases hp with rfl | rfl <;> simp

/-- **Progress (no deadlock, no lost wake-up).**  Threads that never call `close` and release
every streaming response before their next request and before they end (`LeaseDiscipline`), on a
pool with `maxsize ≥ 1` (any `block` / `pool_timeout`): under every schedule, a configuration in
which some thread is not finished has an enabled thread.  In particular a thread blocked in
`get()` is always accompanied by a thread that can run (the one holding the slot). -/
theorem C02_progress (cfg : Cfg) (progs : List (List Op)) (σ : List Nat)
    (hd : LeaseDiscipline progs) (hN : 0 < cfg.maxsize)
    (hnd : allDone (run cfg progs σ) = false) : ∃ t, enabled (run cfg progs σ) t = true := by
  have hp := invP_run cfg hd σ
  have hcfg : (run cfg progs σ).cfg = cfg := by simp [run, init]
  exact progress hp (by rw [hcfg]; exact hN) hnd

/-- **All slots come back.**  Under the same discipline, when every thread is finished the queue
of a `block=True` pool is full again (`qsize() = maxsize`) and nothing is held. -/
theorem C02_quiescent_slots (cfg : Cfg) (progs : List (List Op)) (σ : List Nat)
    (hd : LeaseDiscipline progs) (hb : cfg.block = true)
    (hdone : allDone (run cfg progs σ) = true) :
    (run cfg progs σ).sh.queue.length = cfg.maxsize ∧ leases (run cfg progs σ) = 0 := by
  have hp := invP_run cfg hd σ
  have hz : leases (run cfg progs σ) = 0 := by
    apply sum_map_eq_zero
    intro th hmem
    obtain ⟨t, g⟩ := List.getElem?_of_mem hmem
    exact (hp.d t th g).slots_done (by simpa [allDone] using List.all_eq_true.mp hdone th hmem)
  have := (C02_no_lost_slot cfg progs σ hd.noClose hb).1
  simp only [hz] at this
  exact ⟨by simpa using this, hz⟩

/-- non-vacuity: the discipline holds for a streamed-and-released request next to a retried one
(the harness's program shapes), the pool has `maxsize = 1`, and the run is not finished -/
example : LeaseDiscipline [[.req 0 .ok true, .release], [.req 1 .ok false]] ∧
    allDone (run ⟨1, true, false⟩ [[.req 0 .ok true, .release], [.req 1 .ok false]]
      [0, 0, 0, 1, 1, 1]) = false := by
  refine ⟨?_, by decide⟩
  intro p hp
  simp at hp
  rcases hp with rfl | rfl <;> decide

/-- **No livelock.**  Every step of every thread — in any configuration, with or without
`close` — strictly decreases the measure `work` (`2 * qsize` + the steps the threads still have to
do): every schedule makes at most `work (init cfg progs)` effective steps. -/
theorem C02_step_decreases_work (s s' : State) (t : Nat) (h : step s t = some s') :
    work s' < work s := work_step h

/-- non-vacuity: a step that exists -/
example : ∃ s', step (init ⟨1, true, false⟩ [[.req 0 .ok false]]) 0 = some s' := ⟨_, rfl⟩

/-- **Every request eventually completes.**  Under the lease discipline and `maxsize ≥ 1`, from
every reachable configuration the run can be completed (progress + the decreasing measure: keep
choosing any enabled thread), and in the final configuration every op of every thread has got
exactly one result, in program order. -/
theorem C02_every_request_completes (cfg : Cfg) (progs : List (List Op)) (σ : List Nat)
    (hd : LeaseDiscipline progs) (hN : 0 < cfg.maxsize) :
    ∃ σ', allDone (runFrom (run cfg progs σ) σ') = true ∧
      (results (runFrom (run cfg progs σ) σ')).map (fun rs => rs.map Prod.fst) = progs := by
  have hp := invP_run cfg hd σ
  have hcfg : (run cfg progs σ).cfg = cfg := by simp [run, init]
  obtain ⟨σ', hσ'⟩ := exists_completion _ _ hp (by rw [hcfg]; exact hN) (Nat.le_refl _)
  refine ⟨σ', hσ', ?_⟩
  have hrun : runFrom (run cfg progs σ) σ' = run cfg progs (σ ++ σ') := by
    simp [run, runFrom, List.foldl_append]
  have hs := script_run cfg progs (σ ++ σ')
  rw [hrun] at hσ' ⊢
  refine Eq.trans ?_ hs
  simp only [results, List.map_map]
  apply List.map_congr_left
  intro th hth
  have : th.done = true := by simpa [allDone] using List.all_eq_true.mp hσ' th hth
  have hprog : th.prog = [] := by
    unfold Thread.done at this
    split at this
    · assumption
    · simp at this
  simp [Thread.script, hprog]

/-- the discipline is needed: a streaming response that is never released starves the other
thread of a `block=True`, `maxsize=1` pool for ever -/
theorem C02_progress_needs_release_witness :
    let s := run ⟨1, true, false⟩ [[.req 0 .ok true], [.req 0 .ok false]] [0, 0, 0, 0, 0, 1, 1, 1]
    stuck s = true ∧ allDone s = false ∧ ∀ σ, runFrom s σ = s := by
  refine ⟨by decide, by decide, ?_⟩
  exact runFrom_of_stuck (by decide)

/-! ## Connections pooled closed (`Connection: close` replies) -/

/-- **A dead pooled connection costs one item.**  In ANY configuration, a thread whose `get()` finds
a connection object `c` on top of the queue — open, closed by a `Connection: close` reply, or open
with the peer gone (`_get_conn`'s dropped-connection branch) — takes exactly that one item: the
rest of the queue is untouched whatever lies below, no socket is opened or closed and no
connection object is created by the checkout.  The thread's next steps stay on that SAME object and
take nothing more: if the peer had dropped the connection it is closed first (`conn.close()`), and
then — in either case — the request is written on it, after which it is open (reconnected if it
was closed). -/
theorem C02_closed_connection_checkout (s : State) (t : Nat) (th : Thread) (c : ConnId)
    (q : List (Option ConnId)) (f : Nat) (l : Outcome) (st : Bool)
    (hget : s.threads[t]? = some th) (hpc : th.pc = .getQ f l st) (hq : s.sh.queue = some c :: q) :
    ∃ s1, step s t = some s1 ∧ s1.sh.queue = q ∧ s1.sh.openC = s.sh.openC ∧
      s1.sh.nextId = s.sh.nextId ∧
      ∀ s2, step s1 t = some s2 → s2.sh.queue = q ∧ s2.sh.nextId = s.sh.nextId ∧
        if c ∈ s.sh.gone then
          c ∉ s2.sh.openC ∧ ∀ s3, step s2 t = some s3 →
            c ∈ s3.sh.openC ∧ s3.sh.queue = q ∧ s3.sh.nextId = s.sh.nextId
        else c ∈ s2.sh.openC := by
  have hts := tstep_getQ_conn (cfg := s.cfg) (tid := t) hpc hq
  let th1 : Thread :=
    { th with pc := if s.sh.gone.contains c then .dropClose c f l st else .send c f l st }
  let s1 : State := { s with sh := { s.sh with queue := q }, threads := s.threads.set t th1 }
  refine ⟨s1, ?_, rfl, rfl, rfl, ?_⟩
  · simp [step, hget, hts, th1, s1]
  · intro s2 h2
    have hget1 : s1.threads[t]? = some th1 := by simp [s1, getElem?_set_of_get hget]
    by_cases hg : c ∈ s.sh.gone
    · have hpc1 : th1.pc = .dropClose c f l st := by simp [th1, hg]
      obtain ⟨h3, h4, h5, th2, hget2, hpc2⟩ := step_dropClose hget1 hpc1 h2
      refine ⟨h4, h5, ?_⟩
      rw [if_pos hg]
      refine ⟨h3, ?_⟩
      intro s3 h6
      obtain ⟨h7, h8, h9⟩ := step_send_opens hget2 hpc2 h6
      exact ⟨h7, h8.trans h4, h9.trans h5⟩
    · have hpc1 : th1.pc = .send c f l st := by simp [th1, hg]
      obtain ⟨h3, h4, h5⟩ := step_send_opens hget1 hpc1 h2
      refine ⟨h4, h5, ?_⟩
      rw [if_neg hg]
      exact h3

/-- non-vacuity: after a request answered with `Connection: close` the pool (`maxsize = 2`) holds
the connection object 0 with its socket closed, on top of a placeholder; the thread's next request
is at `get()` -/
example :
    let s := run ⟨2, true, false⟩ [[.req 0 .okClose false, .req 0 .ok false]] (List.replicate 10 0)
    s.sh.queue = [some 0, none] ∧ s.sh.openC = [] ∧
      (s.threads.map (·.pc)) = [.getQ 0 .ok false] := by decide

/-- **A connection pooled closed is reused, not replaced.**  One thread, a request answered with
`Connection: close` followed by a keep-alive one (`block=True`, `maxsize = 2`): after the first
request the queue holds the connection object with no socket open; the second request checks out
that same object and reconnects it — one connection object in all (`nextId = 1`), never more than
one socket, and both slots are back in the queue at the end. -/
theorem C02_pooled_closed_connection_reused :
    let s1 := run ⟨2, true, false⟩ [[.req 0 .okClose false, .req 0 .ok false]] (List.replicate 8 0)
    let s2 := runFrom s1 (List.replicate 8 0)
    s1.sh.queue = [some 0, none] ∧ s1.sh.openC = [] ∧
    allDone s2 = true ∧ s2.sh.queue = [some 0, none] ∧ s2.sh.openC = [0] ∧ s2.sh.nextId = 1 ∧
      s2.sh.maxOpen = 1 ∧ results s2 = [[(.req 0 .okClose false, .ok), (.req 0 .ok false, .ok)]] := by
  decide

/-- **A connection dropped by its peer is closed, then reused.**  One thread, a keep-alive reply after
which the peer closes (`okDrop`), then a second request (`block=True`, `maxsize = 2`): the
connection is pooled with its socket open; the next checkout takes that one item, closes the
socket (`dropClose`), and the request reconnects the same object — one connection object in all,
never more than one socket, both slots back at the end. -/
theorem C02_dropped_connection_reused :
    let s1 := run ⟨2, true, false⟩ [[.req 0 .okDrop false, .req 0 .ok false]] (List.replicate 8 0)
    let s2 := runFrom s1 [0, 0, 0]
    let s3 := runFrom s2 [0]
    let s4 := runFrom s3 (List.replicate 5 0)
    s1.sh.queue = [some 0, none] ∧ s1.sh.openC = [0] ∧ s1.sh.gone = [0] ∧
    (s2.threads.map (·.pc)) = [.dropClose 0 0 .ok false] ∧ s2.sh.queue = [none] ∧ s2.sh.openC = [0] ∧
    (s3.threads.map (·.pc)) = [.send 0 0 .ok false] ∧ s3.sh.openC = [] ∧
    allDone s4 = true ∧ s4.sh.queue = [some 0, none] ∧ s4.sh.openC = [0] ∧ s4.sh.nextId = 1 ∧
      s4.sh.maxOpen = 1 ∧ s4.sh.gone = [] := by
  decide

/-- **`EmptyPoolError` only when the pool is exhausted.**  Threads that follow the lease discipline
(each holds at most one slot at a time, nobody calls `close`): under every schedule, a request can
end with `EmptyPoolError` only if there are more threads than slots — with at most `maxsize`
threads a `block=True` pool is never found empty, because no slot is ever lost. -/
theorem C02_empty_only_when_exhausted (cfg : Cfg) (progs : List (List Op)) (σ : List Nat)
    (hd : LeaseDiscipline progs) :
    ∀ rs ∈ results (run cfg progs σ), ∀ p ∈ rs, p.2 = .emptyPool → cfg.maxsize < progs.length := by
  intro rs hrs p hp hres
  simp only [results, List.mem_map] at hrs
  obtain ⟨th, hth, rfl⟩ := hrs
  obtain ⟨t, g⟩ := List.getElem?_of_mem hth
  have := invE_run cfg hd σ t th g p hp hres
  rw [threads_length_run] at this
  simpa [run, init] using this

/-- non-vacuity: two disciplined threads (one served with `Connection: close`) on a pool of size 1
with a `pool_timeout`: the second does get `EmptyPoolError` while the first holds the only slot -/
example : LeaseDiscipline [[.req 0 .okClose true, .release], [.req 0 .ok false]] ∧
    results (run ⟨1, true, true⟩ [[.req 0 .okClose true, .release], [.req 0 .ok false]]
      [0, 0, 0, 1, 1, 1]) = [[], [(.req 0 .ok false, .emptyPool)]] := by
  refine ⟨?_, by decide⟩
  intro p hp
  simp at hp
  rcases hp with rfl | rfl <;> decide

/-! ## Concurrent `close()` -/

/-- number of `close` ops in the thread programs -/
def closeCount (progs : List (List Op)) : Nat := (progs.map closesIn).sum

/-
The "never hangs" half of the property text is false of the code (`C02_close_strands_waiter_witness`,
`known_findings/C02.json`); the "no internal error" half is proved in full:
-/

/-- **Close race.**  Under every schedule, with any number of concurrent `close()` calls, on every
pool (`block` or not, any `maxsize`, any number of threads), every finished op has a result in
{`ok`, `closedPool`, `emptyPool`, `failed`}: never `FullPoolError`, never a foreign response, never
an internal error (`AttributeError`) — `_put_conn` reports the size of the queue object it found
full, not of `self.pool`, and a `close()` that finds the pool already swapped out returns. -/
theorem C02_close_race (cfg : Cfg) (progs : List (List Op)) (σ : List Nat) :
    ∀ rs ∈ results (run cfg progs σ), ∀ p ∈ rs,
      p.2 = .ok ∨ p.2 = .closedPool ∨ p.2 = .emptyPool ∨ p.2 = .failed := by
  intro rs hrs p hp
  have hi := invAll_run cfg progs σ
  simp only [results, List.mem_map] at hrs
  obtain ⟨th, hth, rfl⟩ := hrs
  obtain ⟨t, g⟩ := List.getElem?_of_mem hth
  exact hi.res.good t th g p hp

/-- the race is real: a racing `close()` on a `block=True` pool does produce `ClosedPoolError` -/
example :
    results (run ⟨1, true, true⟩ [[.req 0 .ok false], [.close]] [1, 1, 1, 1, 1, 0]) =
      [[(.req 0 .ok false, .closedPool)], [(.close, .ok)]] := by decide

/-- **Close race, `block=True`.**  A `block=True` pool raced by any number of `close()` calls: under
every schedule no `_put_conn` ever finds the queue full — the `FullPoolError` "that should never
happen" never happens, no connection is discarded, the "pool is full" warning is never reached —
and every finished op ended normally, with `ClosedPoolError`, `EmptyPoolError` or its scripted
failure. -/
theorem C02_close_race_block (cfg : Cfg) (progs : List (List Op)) (σ : List Nat)
    (hb : cfg.block = true) :
    (∀ th ∈ (run cfg progs σ).threads, ∀ i k, th.pc ≠ .fullClose i k ∧ th.pc ≠ .warn i k) ∧
    ∀ rs ∈ results (run cfg progs σ), ∀ p ∈ rs,
      p.2 = .ok ∨ p.2 = .closedPool ∨ p.2 = .emptyPool ∨ p.2 = .failed := by
  refine ⟨?_, C02_close_race cfg progs σ⟩
  intro th hth
  obtain ⟨t, g⟩ := List.getElem?_of_mem hth
  have hc : (run cfg progs σ).cfg = cfg := by simp [run, init]
  exact (invAll_run cfg progs σ).cnt.nofull (by rw [hc]; exact hb) t th g

/-- non-vacuity: two closers and a request on a `block=True` pool, the request loses the race -/
example :
    results (run ⟨1, true, true⟩ [[.req 0 .ok false], [.close], [.close]] [1, 2, 1, 1, 1, 0, 2]) =
      [[(.req 0 .ok false, .closedPool)], [(.close, .ok)], [(.close, .ok)]] := by decide

/-- **Close race, few threads.**  At most `maxsize` threads, each holding at most one lease at a
time (streaming responses released before the next request / the end; `close` ops allowed
anywhere), any `block`: under every schedule no `_put_conn` ever finds the queue full (no
connection is discarded, no "pool is full" warning), and every op ends `ok`, `closedPool`,
`emptyPool` or `failed`. -/
theorem C02_close_race_few_threads (cfg : Cfg) (progs : List (List Op)) (σ : List Nat)
    (h : FewThreads cfg progs) :
    (∀ th ∈ (run cfg progs σ).threads, ∀ i k, th.pc ≠ .fullClose i k ∧ th.pc ≠ .warn i k) ∧
    ∀ rs ∈ results (run cfg progs σ), ∀ p ∈ rs,
      p.2 = .ok ∨ p.2 = .closedPool ∨ p.2 = .emptyPool ∨ p.2 = .failed := by
  have hq := invQ_run h σ
  constructor
  · intro th hth
    obtain ⟨t, g⟩ := List.getElem?_of_mem hth
    exact hq.nofull t th g
  · exact C02_close_race cfg progs σ

/-- non-vacuity: two threads on a `block=False` pool of size 2, one of them closing the pool -/
example : FewThreads ⟨2, false, false⟩ [[.req 0 .ok true, .release, .close], [.req 1 .ok false]] := by
  refine ⟨by decide, ?_⟩
  intro p hp
  simp at hp
  rcases hp with rfl | rfl <;> decide

/-
Full statement (false: `C02_close_strands_waiter_witness`): with a concurrent `close()` no request
ever hangs.  Proved under the precise hypothesis that excludes the finding:
-/
/-- **Close race never hangs (partial).**  Unless the pool is `block=True` *without* `pool_timeout`,
no thread can ever be blocked — with any number of `close()` calls, under every schedule: a thread
that is not finished is enabled.  In general (any configuration) a thread that is not enabled is
finished or sits in a blocking `get()` without timeout on the empty queue. -/
theorem C02_close_never_hangs_partial (cfg : Cfg) (progs : List (List Op)) (σ : List Nat)
    (t : Nat) (th : Thread) (hget : (run cfg progs σ).threads[t]? = some th)
    (hen : enabled (run cfg progs σ) t = false) :
    th.done = true ∨
      ((∃ f l st, th.pc = .getQ f l st) ∧ (run cfg progs σ).sh.queue = [] ∧
        cfg.block = true ∧ cfg.timeout = false) := by
  have hc : (run cfg progs σ).cfg = cfg := by simp [run, init]
  have := not_enabled hget hen
  rw [hc] at this
  exact this

/-- non-vacuity: a finished thread is a thread that is not enabled -/
example : enabled (run ⟨1, true, true⟩ [[.close]] [0, 0, 0, 0, 0]) 0 = false := by decide

/-- **Results are the scripted ones.**  Under every schedule: `ClosedPoolError` only for a
request and only if some thread calls `close()`; `EmptyPoolError` only for a request on a
`block=True` pool with a `pool_timeout`; `MaxRetryError` (`failed`) only for a request whose last
attempt is scripted to fail; and a request that ends `ok` is one whose last attempt is scripted to
succeed (`ok`: keep-alive reply; `okClose`: with `Connection: close`; `okDrop`: keep-alive, then
the peer closes) — anything but `fail`. -/
theorem C02_results_as_scripted (cfg : Cfg) (progs : List (List Op)) (σ : List Nat) :
    ∀ rs ∈ results (run cfg progs σ), ∀ p ∈ rs,
      (p.2 = .closedPool → 1 ≤ closeCount progs ∧ ∃ f l st, p.1 = .req f l st) ∧
      (p.2 = .emptyPool → cfg.block = true ∧ cfg.timeout = true ∧ ∃ f l st, p.1 = .req f l st) ∧
      (p.2 = .failed → ∃ f st, p.1 = .req f .fail st) ∧
      (p.2 = .ok → ∀ f l st, p.1 = .req f l st → l ≠ .fail) := by
  intro rs hrs p hp
  have hi := invAll_run cfg progs σ
  simp only [results, List.mem_map] at hrs
  obtain ⟨th, hth, rfl⟩ := hrs
  obtain ⟨t, g⟩ := List.getElem?_of_mem hth
  obtain ⟨h1, h2, h3, h4⟩ := hi.scr.scr t th g p hp
  have hc : (run cfg progs σ).cfg = cfg := by simp [run, init]
  have hn : closeTotal (run cfg progs σ) = closeCount progs := by
    rw [run, closeTotal_runFrom, closeTotal_init]; rfl
  rw [hc] at h2
  rw [hn] at h1
  have hk : ∀ op : Op, op.kind = 0 → ∃ f l st, op = .req f l st := by
    intro op h; cases op <;> simp at h; exact ⟨_, _, _, rfl⟩
  exact ⟨fun h => ⟨(h1 h).1, hk _ (h1 h).2⟩, fun h => ⟨(h2 h).1, (h2 h).2.1, hk _ (h2 h).2.2⟩, h3, h4⟩

/-- **Without `close()` everything ends as scripted.**  No `close` op in the programs: under every
schedule a finished request ended `ok` (last attempt scripted `ok`), with `MaxRetryError` (last
attempt scripted `fail`) or — `block=True` with `pool_timeout` only — with `EmptyPoolError`;
`release_conn` always ends normally. -/
theorem C02_no_close_results (cfg : Cfg) (progs : List (List Op)) (σ : List Nat)
    (h0 : closeCount progs = 0) :
    ∀ rs ∈ results (run cfg progs σ), ∀ p ∈ rs,
      (p.2 = .ok ∧ ∀ f l st, p.1 = .req f l st → l ≠ .fail) ∨
      (p.2 = .failed ∧ ∃ f st, p.1 = .req f .fail st) ∨
      (p.2 = .emptyPool ∧ cfg.block = true ∧ cfg.timeout = true ∧ ∃ f l st, p.1 = .req f l st) := by
  intro rs hrs p hp
  obtain ⟨h1, h2, h3, h4⟩ := C02_results_as_scripted cfg progs σ rs hrs p hp
  rcases C02_close_race cfg progs σ rs hrs p hp with h | h | h | h
  · exact Or.inl ⟨h, h4 h⟩
  · have := (h1 h).1; omega
  · exact Or.inr (Or.inr ⟨h, h2 h⟩)
  · exact Or.inr (Or.inl ⟨h, h3 h⟩)

/-- non-vacuity: a retried request on a pool without closer ends `ok` -/
example : closeCount [[.req 1 .ok false]] = 0 ∧
    results (run ⟨1, true, false⟩ [[.req 1 .ok false]] (List.replicate 16 0)) =
      [[(.req 1 .ok false, .ok)]] := by decide

/-- **No step raises an internal error.**  From every reachable configuration, whatever `self.pool`
is by now, a step of thread `t` adds only results in {`ok`, `closedPool`, `emptyPool`, `failed`}:
in particular the step after `queue.Full` (`warn`: `pool.qsize()` on the queue object the thread
bound before `put`) and the swap of a second `close()` go through with `self.pool = None`. -/
theorem C02_close_race_step (cfg : Cfg) (progs : List (List Op)) (σ : List Nat) (t : Nat)
    (s' : State) (h : step (run cfg progs σ) t = some s') :
    ∃ th th', (run cfg progs σ).threads[t]? = some th ∧ s'.threads[t]? = some th' ∧
      ∀ p ∈ th'.results, p ∈ th.results ∨
        p.2 = .ok ∨ p.2 = .closedPool ∨ p.2 = .emptyPool ∨ p.2 = .failed := by
  have hi := invAll_run cfg progs σ
  obtain ⟨th, sh', th', hget, hts, rfl⟩ := step_some h
  refine ⟨th, th', hget, by simp [getElem?_set_of_get hget], ?_⟩
  intro p hp
  rcases tstep_results_mem hts (hi.ids.recv _ _ hget) (hi.ids.cont _ _ hget) p hp with
    h1 | h1 | h1 | h1 | h1 | ⟨-, hblock, i, k, hpc⟩
  · exact Or.inl h1
  · exact Or.inr (Or.inl h1)
  · exact Or.inr (Or.inr (Or.inl h1))
  · exact Or.inr (Or.inr (Or.inr (Or.inl h1)))
  · exact Or.inr (Or.inr (Or.inr (Or.inr h1)))
  · exact absurd hpc (hi.cnt.nofull hblock _ _ hget i k).1

/-- non-vacuity: the schedule of the repaired finding 2 reaches the `warn` step with
`self.pool = None`, and the step exists -/
example :
    let s := run ⟨1, false, false⟩ [[.req 0 .ok false], [.req 0 .ok false], [.close]]
      [0, 0, 0, 1, 1, 1, 1, 1, 1, 1, 1, 0, 0, 0, 0, 0, 0, 2, 2]
    s.sh.poolRef = none ∧ (s.threads.map (·.pc))[0]? = some (.warn (some 0) (.fin .ok)) ∧
      (step s 0).isSome = true := by decide

/-! ## The way in which the code (and therefore the model) violates the property text, and the
two repaired races on their old failing schedules -/

/-- **Finding 1 (hang).**  `block=True`, no `pool_timeout`, one request racing one `close()`:
the request passes both `self.pool` loads, `close()` swaps the attribute and drains the queue, and
the request's blocking `get()` on the old queue object can never return — the configuration is
stuck for ever (for every continuation of the schedule) with the request unfinished. -/
theorem C02_close_strands_waiter_witness :
    let s := run ⟨1, true, false⟩ [[.req 0 .ok false], [.close]] [0, 0, 1, 1, 1, 1, 1]
    stuck s = true ∧ allDone s = false ∧ s.sh.poolRef = none ∧
    (s.threads.map (·.pc)) = [.getQ 0 .ok false, .idle] ∧ ∀ σ, runFrom s σ = s := by
  refine ⟨by decide, by decide, by decide, by decide, ?_⟩
  exact runFrom_of_stuck (by decide)

/-- **Repaired finding 2 (was: internal error).**  `block=False`, `maxsize=1`, two requests and a
`close()`, on the schedule that used to raise: the second `_put_conn` finds the queue full,
`close()` sets `self.pool = None` (and takes the queued connection), the thread is at the "pool is
full" warning — whose argument is now `pool.qsize()` on the queue it found full — and the request
completes normally with its own response; before the repair (`self.pool.qsize()`) this schedule
ended with `AttributeError` out of `urlopen`. -/
theorem C02_close_race_full_warning_ok :
    let s := run ⟨1, false, false⟩ [[.req 0 .ok false], [.req 0 .ok false], [.close]]
      [0, 0, 0, 1, 1, 1, 1, 1, 1, 1, 1, 0, 0, 0, 0, 0, 0, 2, 2]
    s.sh.poolRef = none ∧ (s.threads.map (·.pc))[0]? = some (.warn (some 0) (.fin .ok)) ∧
    (results (runFrom s [0, 0]))[0]? = some [(.req 0 .ok false, .ok)] := by decide

/-- **Repaired double `close()` (was: internal error).**  Two concurrent `close()` calls on the
schedule that used to raise (`_close_pool_connections(None)`): the first swaps the queue out, the
second swaps `None` out, sees `old_pool is None` and returns; the first drains.  Both end
normally.  (Outside the property's quantifier — at most one closing thread — but it is what makes
`C02_close_race` hold for any number of closers.) -/
theorem C02_double_close_ok :
    results (run ⟨1, false, false⟩ [[.close], [.close]] [0, 1, 0, 1]) = [[], [(.close, .ok)]] ∧
    results (run ⟨1, false, false⟩ [[.close], [.close]] [0, 1, 0, 1, 0, 0]) =
      [[(.close, .ok)], [(.close, .ok)]] := by decide

/-! ## Dropping the closed pool closes everything -/

/-- **Drop closes all.**  In every reachable configuration, a socket still open after the pool
object has been dropped (`weakref.finalize` drains whatever is queued — also what racing
`_put_conn`s put into the old queue after `close()` drained it) belongs to a connection some
thread still holds (a request in flight or an unreleased streaming response).  Hence once every
thread holds nothing — in particular after `close()`, all threads done and every streamed response
released — no socket is open. -/
theorem C02_drop_closes_all (cfg : Cfg) (progs : List (List Op)) (σ : List Nat) :
    let s := run cfg progs σ
    (∀ c ∈ openAfterDrop s, ∃ (t : Nat) (th : Thread), s.threads[t]? = some th ∧ c ∈ th.owned) ∧
    ((∀ th ∈ s.threads, th.owned = []) → openAfterDrop s = []) := by
  intro s
  have hi := (invAll_run cfg progs σ).ids
  have h1 : ∀ c ∈ openAfterDrop s, ∃ (t : Nat) (th : Thread), s.threads[t]? = some th ∧ c ∈ th.owned := by
    intro c hc
    simp only [openAfterDrop, List.mem_filter, Bool.not_eq_true', List.contains_eq_mem,
      decide_eq_false_iff_not] at hc
    rcases hi.osub c hc.1 with h | h
    · exact absurd h hc.2
    · exact h
  refine ⟨h1, ?_⟩
  intro hall
  apply List.eq_nil_iff_forall_not_mem.mpr
  intro c hc
  obtain ⟨t, th, g, hcth⟩ := h1 c hc
  rw [hall th (List.mem_of_getElem? g)] at hcth
  simp at hcth

/-- non-vacuity: request racing `close()`; the late `_put_conn` leaves an open connection in the
old queue (`openC ≠ []`), all threads are done and hold nothing, and the drop closes it -/
example :
    let s := run ⟨1, false, false⟩ [[.req 0 .ok false], [.close]]
      [0, 0, 0, 0, 0, 0, 0, 1, 1, 1, 1, 1, 0]
    allDone s = true ∧ s.sh.poolRef = none ∧ s.sh.openC = [0] ∧
      (∀ th ∈ s.threads, th.owned = []) ∧ openAfterDrop s = [] := by decide

end U3.Props
