import U3.Lemmas.PoolConc
/-!
# C02 — concurrent requests never share a connection, exceed maxsize, or deadlock

Model: `U3.PoolConc` (small-step interleaving semantics of `_get_conn` / `_put_conn` / `close` /
`release_conn`, one step per access to shared state).  `run cfg progs σ` executes the schedule `σ`.
-/
namespace U3.Props
open U3 U3.PoolConc

/-! ## The two ways in which the code (and therefore the model) violates the property text -/

/-- **Finding 1 (hang).**  `block=True`, no `pool_timeout`, one request racing one `close()`:
the request passes both `self.pool` loads, `close()` swaps the attribute and drains the queue, and
the request's blocking `get()` on the old queue object can never return — the configuration is
stuck for ever (for every continuation of the schedule) with the request unfinished. -/
theorem C02_close_strands_waiter_witness :
    let s := run ⟨1, true, false⟩ [[.req 0 .ok false], [.close]] [0, 0, 1, 1, 1, 1, 1]
    stuck s = true ∧ allDone s = false ∧ s.sh.poolRef = none ∧
    (s.threads.map (·.pc)) = [.getQ 0 .ok false, .idle] ∧ ∀ σ, runFrom s σ = s := by
  refine ⟨by decide, by decide, by decide, by decide, ?_⟩
  exact runFrom_of_stuck (by decide)

/-- **Finding 2 (internal error).**  `block=False`, `maxsize=1`, two requests and a `close()`:
the second `_put_conn` finds the queue full, `close()` sets `self.pool = None`, and the argument
`self.pool.qsize()` of the "pool is full" warning raises `AttributeError` out of `urlopen`. -/
theorem C02_close_race_internal_error_witness :
    let s := run ⟨1, false, false⟩ [[.req 0 .ok false], [.req 0 .ok false], [.close]]
      [0, 0, 0, 1, 1, 1, 1, 1, 1, 1, 1, 0, 0, 0, 0, 0, 0, 2, 2, 0]
    (s.threads.map (·.results))[0]? = some [(.req 0 .ok false, .internalErr)] := by decide

end U3.Props
