import U3.Model.Multipart
import U3.Lemmas.Multipart
/-!
# C20 — multipart form encoding is structurally sound for any field content

All statements are about `U3.Multipart` (the executable model the driver `multipart` runs) and hold
for **all** strings / field lists.  `Str` = code points, `Bytes` = bytes; 34 = `"`, 13 = CR, 10 = LF,
58 = `:`.  `delim b = CRLF--b`, `FieldSafe f` = "the caller-written header text of `f` is benign"
(no `:` in a rendered header name, no CR in a rendered header name or value), `partOf f` = the part
the field specifies (UTF-8 of its header lines, its data bytes).
-/
namespace U3.Props
open U3 U3.Multipart

/-- the escape table read from the source covers `"`, CR, LF and never re-introduces them -/
theorem C20_escape_table_covers : tableSafe Gen.escapeTable = true := tableSafe_gen

/-- for ALL names and values: `format_multipart_header_param` yields `name="q"` where the quoted
text `q` contains no `"`, no CR and no LF — no value can terminate the parameter or the line -/
theorem C20_param_safe (name value : Str) :
    ∃ q, formatParam name value = name ++ [61, 34] ++ q ++ [34] ∧ 34 ∉ q ∧ 13 ∉ q ∧ 10 ∉ q :=
  ⟨escape value, rfl, escape_safe value⟩

/-- escaping only ever *adds* the three replacement texts: a character that is not `"`, CR, LF is
kept as it is (so every other byte of a name reaches the server unchanged) -/
theorem C20_param_keeps_other_chars (c : Nat) (h : c ≠ 34 ∧ c ≠ 13 ∧ c ≠ 10) (pre post : Str) :
    escape (pre ++ c :: post) = escape pre ++ c :: escape post := by
  have : escChar c = [c] := by
    unfold escChar
    have hl : Gen.escapeTable.lookup c = none := by
      obtain ⟨h1, h2, h3⟩ := h
      have e1 : (c == 10) = false := by simp [h3]
      have e2 : (c == 13) = false := by simp [h2]
      have e3 : (c == 34) = false := by simp [h1]
      simp [Gen.escapeTable, List.lookup, e1, e2, e3]
    simp [hl]
  simp [escape, this]

/-- on `%`-free text the escaping is injective, hence decodable: two different names / filenames are
never sent as the same parameter unless one of them already contains a literal `%` -/
theorem C20_param_injective_no_percent (a b : Str) (ha : 37 ∉ a) (hb : 37 ∉ b)
    (h : escape a = escape b) : a = b :=
  escape_injective_no_pct a b ha hb h

/-- WHATWG escaping is *not* injective (a literal `%22` and a quote collide); the property asks for
"the Content-Disposition the field specifies", i.e. the escaped form, which is what the round trip
below returns.  Recorded as a fact about the specification, not a defect. -/
theorem C20_escape_not_injective : escape [34] = escape [37, 50, 50] ∧ ([34] : Str) ≠ [37, 50, 50] := by
  decide

/-- whatever the name and the filename (and any CR/LF-free disposition type), the rendered
`Content-Disposition` line contains no CR and no LF; hence, once `CRLF` is appended, the first — and
only — line break is the one that ends it: a strict reader gets the line back whole. -/
theorem C20_header_lines_safe (cd : Option Str) (hcd : ∀ s, cd = some s → 13 ∉ s ∧ 10 ∉ s)
    (name : Str) (filename : Option Str) (rest : List Nat) :
    let line := headerLine (cdName, dispositionValue cd name filename)
    13 ∉ line ∧ 10 ∉ line ∧ cut crlf (line ++ crlf ++ rest) = some (line, rest) := by
  intro line
  have h13 : 13 ∉ line := by
    have := dispositionValue_safe cd name filename 13 (Or.inl rfl) (fun s h => (hcd s h).1)
    simp [line, headerLine, cdName, colonSp, this]
  have h10 : 10 ∉ line := by
    have := dispositionValue_safe cd name filename 10 (Or.inr rfl) (fun s h => (hcd s h).2)
    simp [line, headerLine, cdName, colonSp, this]
  exact ⟨h13, h10, cut_of_not_mem 13 [10] line rest (by simp) h13⟩

/-- the strict parameter parser reads the `Content-Disposition` value of any name / filename back as
exactly `form-data` with the parameters `name` (and `filename`) carrying the escaped text: no name or
filename can terminate a parameter, add one, or hide one -/
theorem C20_disposition_parses (name : Str) (filename : Option Str) (v : Bytes)
    (h : utf8 (dispositionValue none name filename) = some v) :
    ∃ en, utf8 (escape name) = some en ∧
      match filename with
      | none => parseDisposition v = some (formData, [(nameKey, en)])
      | some f => ∃ ef, utf8 (escape f) = some ef ∧
          parseDisposition v = some (formData, [(nameKey, en), (filenameKey, ef)]) := by
  obtain ⟨en, hen, hv⟩ := utf8_disposition name filename v h
  refine ⟨en, hen, ?_⟩
  have hn := paramOK_escaped nameKey (by decide) (by decide) name en hen
  cases filename with
  | none =>
    simp only at hv ⊢
    rw [hv]
    exact parseDisposition_spec formData (by decide) (by decide) _ (by simp) (by simpa using hn)
  | some f =>
    simp only at hv ⊢
    obtain ⟨ef, hef, hv⟩ := hv
    have hf := paramOK_escaped filenameKey (by decide) (by decide) f ef hef
    refine ⟨ef, hef, ?_⟩
    rw [hv]
    exact parseDisposition_spec formData (by decide) (by decide) _ (by simp) (by
      intro kv hkv
      simp at hkv
      rcases hkv with rfl | rfl
      · exact hn
      · exact hf)

/-- **Round trip, all field lists.**  If the encoder succeeds, the boundary contains no CR, the
caller-written header text is benign and the delimiter line `CRLF--boundary` does not occur inside
any part, then the strict reference parser reads the body back as exactly the parts the fields
specify: same number, same order, each with exactly its header lines (Content-Disposition,
Content-Type, …) and byte-identical data. -/
theorem C20_roundtrip (fs : List RequestField) (boundary : Str) (body : Bytes) (ct : Str)
    (henc : encodeMultipart fs boundary = .ok (body, ct))
    (hcr : 13 ∉ boundary)
    (hsafe : ∀ f ∈ fs, FieldSafe f)
    (hb : ∀ f ∈ fs, ∀ p, partOf f = some p → ¬ delim boundary <:+: partBytes p) :
    ∃ ps, allSome (fs.map partOf) = some ps ∧ ps.length = fs.length ∧
      parseMultipart boundary body = some ps := by
  obtain ⟨ps, hps, hparse⟩ := roundtrip_fields fs boundary body ct henc hcr hsafe hb
  exact ⟨ps, hps, by simpa using allSome_length _ _ hps, hparse⟩

/-- a field given as an old-style tuple is `FieldSafe` **whatever its name and filename** (only the
explicit content type — header text the caller wrote — and the `mimetypes` answer must be CR-free) -/
theorem C20_tuple_fields_safe (mt : Str → Option Str) (hmt : ∀ fn t, mt fn = some t → 13 ∉ t)
    (name : Str) (v : TupleValue) (hct : ∀ fn d ct, v = .file3 fn d (some ct) → 13 ∉ ct) :
    FieldSafe (fromTuples mt name v) :=
  fieldSafe_fromTuples mt hmt name v hct

/-- the header lines a tuple field specifies: `Content-Disposition` with the escaped parameters,
then `Content-Type` if one is given / guessed — nothing else -/
theorem C20_tuple_headers (mt : Str → Option Str) (name : Str) (v : TupleValue) :
    headerLines (fromTuples mt name v) =
      (cdName, dispositionValue none name v.filename) ::
        (match truthy (v.contentType mt) with | some c => [(ctName, c)] | none => []) :=
  headerLines_fromTuples mt name v

/-- **Round trip for tuple inputs with hostile names and filenames** (the public entry point,
explicit or random boundary): no hypothesis at all on names, filenames or data beyond "the delimiter
line does not occur in a part". -/
theorem C20_roundtrip_tuples (mt : Str → Option Str) (hmt : ∀ fn t, mt fn = some t → 13 ∉ t)
    (tuples : List (Str × TupleValue)) (boundary : Option Str) (rand : Bytes) (body : Bytes) (ct : Str)
    (hct : ∀ nv ∈ tuples, ∀ fn d c, nv.2 = .file3 fn d (some c) → 13 ∉ c)
    (hcr : ∀ b, boundary = some b → 13 ∉ b)
    (henc : encode mt (tuples.map fun nv => .tuple nv.1 nv.2) boundary rand = .ok (body, ct))
    (hb : ∀ nv ∈ tuples, ∀ p, partOf (fromTuples mt nv.1 nv.2) = some p →
            ¬ delim (boundary.getD (chooseBoundary rand)) <:+: partBytes p) :
    ∃ ps, allSome (tuples.map fun nv => partOf (fromTuples mt nv.1 nv.2)) = some ps ∧
      ps.length = tuples.length ∧
      parseMultipart (boundary.getD (chooseBoundary rand)) body = some ps := by
  unfold encode iterFieldObjects at henc
  have hcr' : 13 ∉ boundary.getD (chooseBoundary rand) := by
    cases boundary with
    | none => exact (chooseBoundary_safe rand).1
    | some b => exact hcr b rfl
  have := C20_roundtrip _ _ body ct henc hcr'
    (by
      intro f hf
      simp only [List.map_map, List.mem_map] at hf
      obtain ⟨nv, hnv, rfl⟩ := hf
      exact fieldSafe_fromTuples mt hmt nv.1 nv.2 (hct nv hnv))
    (by
      intro f hf
      simp only [List.map_map, List.mem_map] at hf
      obtain ⟨nv, hnv, rfl⟩ := hf
      exact hb nv hnv)
  simpa [List.map_map, Function.comp_def, fieldOf] using this

/-- the returned content type names exactly the boundary that delimits the body: the body opens
with `--boundary` and closes with `--boundary--CRLF` -/
theorem C20_content_type_names_boundary (fs : List RequestField) (boundary : Str) (body : Bytes) (ct : Str)
    (henc : encodeMultipart fs boundary = .ok (body, ct)) :
    ct = ctPrefix ++ boundary ∧
    (dashdash ++ boundary) <+: body ∧ (dashdash ++ boundary ++ dashdash ++ crlf) <:+ body := by
  unfold encodeMultipart at henc
  cases hl : latin1 boundary with
  | none => simp [hl] at henc
  | some b =>
    have hbe := latin1_eq _ _ hl
    subst hbe
    cases he : encodeFields b fs with
    | none => simp [hl, he] at henc
    | some x =>
      simp [hl, he] at henc
      obtain ⟨ps, _, hser⟩ := encodeFields_eq _ fs x he
      refine ⟨henc.2.symm, ?_, ?_⟩
      · rw [← henc.1]
        have : x ++ (dashdash ++ (b ++ (dashdash ++ crlf))) = serialize b ps := by
          rw [← hser]; simp
        rw [this]
        exact ⟨serTail b ps, rfl⟩
      · rw [← henc.1]
        exact ⟨x, by simp⟩

/-- the random boundary (`hexlify(os.urandom(16))`) is always acceptable: latin-1 encodable, no CR -/
theorem C20_random_boundary_ok (rand : Bytes) :
    13 ∉ chooseBoundary rand ∧ latin1 (chooseBoundary rand) = some (chooseBoundary rand) :=
  chooseBoundary_safe rand

/-- `request_encode_body` with no caller `Content-Type` sends the encoder's content type -/
theorem C20_request_content_type (ct : Str) : requestContentType none ct = ct := rfl

/-! ## non-vacuity -/

set_option maxRecDepth 8000 in
/-- hostile name `a"; ` CR LF `--B` CR LF and filename `"` CR LF `\`: encodes, the hypotheses of the
round trip hold, and the parse returns two parts -/
example :
    let mt : Str → Option Str := fun _ => none
    let tuples : List (Str × TupleValue) :=
      [([97, 34, 59, 32, 13, 10, 45, 45, 66, 13, 10], .plain (.str [13, 10, 45, 45, 13, 10, 233])),
       ([34, 13, 10], .file3 (some [34, 13, 10, 92]) (.bytes [0, 255, 13, 10]) (some [116, 47, 112]))]
    ∃ body ct, encode mt (tuples.map fun nv => .tuple nv.1 nv.2) (some [66]) [] = .ok (body, ct) ∧
      (∀ nv ∈ tuples, ∀ p, partOf (fromTuples mt nv.1 nv.2) = some p → ¬ delim [66] <:+: partBytes p) ∧
      (parseMultipart [66] body).map List.length = some 2 := by
  refine ⟨_, _, rfl, ?_, by decide⟩
  simp only [← Option.mem_def]
  decide

example : FieldSafe (fromTuples (fun _ => none) [34, 13, 10, 58] (.file2 (some [13, 10, 13, 10]) (.str []))) :=
  C20_tuple_fields_safe _ (by simp) _ _ (by simp)

/-- name `"` CR LF `;` and filename `é"`: the strict parameter parser returns exactly the two
parameters, and their texts are quote-free (stated without fixing the replacement texts) -/
example : ∃ v en ef, utf8 (dispositionValue none [34, 13, 10, 59] (some [233, 34])) = some v ∧
    parseDisposition v = some (formData, [(nameKey, en), (filenameKey, ef)]) ∧
    34 ∉ en ∧ 13 ∉ en ∧ 10 ∉ en ∧ 34 ∉ ef ∧ 59 ∈ en := by
  refine ⟨_, _, _, rfl, rfl, ?_⟩
  decide

end U3.Props
