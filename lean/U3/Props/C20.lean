import U3.Model.Multipart
namespace U3.Props
open U3 U3.Multipart
theorem C20_placeholder : (1:Nat) = 1 := rfl
end U3.Props
