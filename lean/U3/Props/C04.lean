import U3.Model.Retry
import U3.Lemmas.Retry
/-!
# C04 — retries respect every budget, spare non-idempotent requests, and terminate

All statements are about `U3.Retry.runAttempts cfg r m script` — one `urlopen(method, url,
retries=r)` call with its recursive calls, the network deciding the outcome of every attempt — for
**every** `Retry` value `r` (any counters, also negative / `False`), every method string, every
outcome script of any length, and both kinds of pool (`cfg.proxied`).  No statement is restricted:
the former finding `proxy-read-reset-relabelled-proxyerror` is repaired in the code
(`HTTPConnection.getresponse` keeps `has_connected_to_proxy` across the `close()` that `http.client`
performs on `ConnectionError`), `C04_nonidempotent_not_resent` holds for direct and proxied pools
alike, and the former negation witness is now the positive `C04_proxied_reset_not_resent`.
-/
namespace U3.Props
open U3 U3.Retry

/-! ## budgets -/

/-- attempts ≤ 1 + max(total, 0) whenever `total` is a number -/
theorem C04_attempts_le_total (cfg : Cfg) (r : Retry) (m : Str) (script : List Outcome) (n : Int)
    (ht : r.total = .num n) :
    (runAttempts cfg r m script).attempts.length ≤ n.toNat + 1 := by
  induction script generalizing r n with
  | nil => simp [runAttempts]
  | cons o rest ih =>
    cases run_cases cfg r m o rest with
    | returned st ra ho hw h => simp [h, Run.stop]
    | raised x hw hi h => simp [h, Run.stop]
    | again r' hw hi h =>
      obtain ⟨htot, hex, -, -, -, -⟩ := Retry.increment_ok hi
      rw [ht] at htot
      have hn : 0 ≤ n - 1 :=
        Retry.nonneg_of_not_exhausted hex (by simp [Retry.counters, htot, Count.dec])
      have := ih r' (n - 1) htot
      simp only [h, Run.cons, List.length_cons]
      omega

example : (runAttempts ⟨false⟩ (Retry.ofTotal (.num 2)) GET
    [.connectError .timeout, .connectError .refused, .connectError .timeout, .response 200 none]).attempts.length = 3 := by
  decide

/-- per category: the attempts charged to `connect` / `read` / `status` / `other` after which
another attempt was made never outnumber that counter (`False` pays for none).  `chargedTo` is the
code's classification; `C04_direct_classification` says it is the natural one on direct pools.
(A response with status 0 does not exist in HTTP; `increment` would not charge it.) -/
theorem C04_category_budgets (cfg : Cfg) (r : Retry) (m : Str) (script : List Outcome) (c : Cat) (b : Nat)
    (hb : (r.counter c).budget = some b) :
    ((runAttempts cfg r m script).retried.filter
        (fun a => decide (chargedTo cfg a.outcome = some c))).length ≤ b := by
  induction script generalizing r b with
  | nil => simp [runAttempts, Run.retried]
  | cons o rest ih =>
    cases run_cases cfg r m o rest with
    | returned st ra ho hw h => simp [h, retried_stop]
    | raised x hw hi h => simp [h, retried_stop _ _ (stopResult_ne_out r o x)]
    | again r' hw hi h =>
      obtain ⟨-, hex, -, hcnt, -, -⟩ := Retry.increment_ok hi
      rw [h, retried_cons _ _ _ (run_attempts_ne_nil cfg r' m rest)]
      have hc := hcnt c
      by_cases hcat : (eventOf cfg o).cat = some c
      · simp only [hcat, if_true] at hc
        have hmem := Retry.counter_mem r' c
        cases hrc : r.counter c with
        | none => simp [hrc, Count.budget] at hb
        | disabled =>
          rw [hrc] at hc
          have := Retry.nonneg_of_not_exhausted hex (n := -1) (by simpa [hc, Count.dec] using hmem)
          omega
        | num n =>
          rw [hrc] at hc hb
          simp only [Count.dec] at hc
          have hn : 0 ≤ n - 1 := Retry.nonneg_of_not_exhausted hex (by simpa [hc] using hmem)
          have := ih r' (n - 1).toNat (by simp [hc, Count.budget])
          simp only [chargedTo] at this
          simp only [Count.budget, Option.some.injEq] at hb
          simp only [List.filter_cons, chargedTo, hcat, decide_true, if_true, List.length_cons]
          omega
      · simp only [hcat, if_false] at hc
        have := ih r' b (by rw [hc]; exact hb)
        simpa [List.filter_cons, chargedTo, hcat] using this

example : (Retry.counter (Retry.ofTotal (.num 2)) .read).budget = none := by decide
example : (Retry.counter { Retry.default with read := .num 1 } .read).budget = some 1 := by decide

/-- on a direct pool the code charges every outcome to the counter the property names -/
theorem C04_direct_classification (o : Outcome) :
    chargedTo ⟨false⟩ o =
      match o with
      | .connectError _ => some .connect
      | .readError _ => some .read
      | .otherError => some .other
      | .response st _ => if st != 0 then some .status else none := by
  cases o with
  | connectError k => cases k <;> rfl
  | readError k => cases k <;> rfl
  | otherError => rfl
  | response st ra => rfl

/-- behind a proxy every kind of read error is charged to `read`, exactly as on a direct pool, and a
failure to reach the proxy is still a connect error (the former finding
`proxy-read-reset-relabelled-proxyerror`: reset / EOF used to be wrapped as `ProxyError` and
charged to `other`) -/
theorem C04_proxied_classification (o : Outcome) :
    chargedTo ⟨true⟩ o = chargedTo ⟨false⟩ o := by
  cases o with
  | connectError k => cases k <;> rfl
  | readError k => cases k <;> rfl
  | otherError => rfl
  | response st ra => rfl

/-- the four read errors behind a proxy, spelled out (positive counterpart of the former
`C04_proxied_reset_charged_other`) -/
theorem C04_proxied_reset_charged_read :
    chargedTo ⟨true⟩ (.readError .reset) = some .read ∧ chargedTo ⟨true⟩ (.readError .eof) = some .read ∧
    chargedTo ⟨true⟩ (.readError .timeout) = some .read ∧ chargedTo ⟨true⟩ (.readError .garbage) = some .read := by
  decide

/-! ## non-idempotent requests -/

/-- direct and proxied pools: a method outside `allowed_methods` is never sent again after an
attempt that ended in a read error or in a response — that attempt is the last one.  (Full
statement of Appendix E; until the repair of `proxy-read-reset-relabelled-proxyerror` it was
proved only under `cfg.proxied = false`.) -/
theorem C04_nonidempotent_not_resent (cfg : Cfg) (r : Retry) (m : Str)
    (script : List Outcome) (hm : r.isMethodRetryable m = false) (i : Nat) (a : Attempt)
    (hi : (runAttempts cfg r m script).attempts[i]? = some a) (ho : reachedServer a.outcome = true) :
    (runAttempts cfg r m script).attempts.length = i + 1 := by
  induction script generalizing r i with
  | nil => simp [runAttempts] at hi
  | cons o rest ih =>
    cases run_cases cfg r m o rest with
    | returned st ra ho' hw h =>
      rw [h] at hi ⊢
      cases i with
      | zero => simp [Run.stop]
      | succ j => simp [Run.stop] at hi
    | raised x hw hi' h =>
      rw [h] at hi ⊢
      cases i with
      | zero => simp [Run.stop]
      | succ j => simp [Run.stop] at hi
    | again r' hw hi' h =>
      obtain ⟨-, -, hsame, -, -, herr⟩ := Retry.increment_ok hi'
      rw [h] at hi ⊢
      cases i with
      | zero =>
        simp only [Run.cons, List.getElem?_cons_zero, Option.some.injEq] at hi
        subst hi
        exfalso
        cases o with
        | response st ra =>
          simp only [wants, Retry.isRetry, hm] at hw
          simp at hw
        | readError k =>
          have hcat : errCat (translate cfg (.readError k)) = .read := by
            cases cfg with | mk p => cases p <;> cases k <;> rfl
          obtain ⟨-, hx⟩ := herr _ rfl
          obtain ⟨mm, hmm, hret⟩ := hx hcat
          cases hmm
          simp [hm] at hret
        | connectError k => simp [reachedServer] at ho
        | otherError => simp [reachedServer] at ho
      | succ j =>
        simp only [Run.cons, List.getElem?_cons_succ] at hi
        have := ih r' (by rw [Retry.isMethodRetryable_congr hsame]; exact hm) j hi
        simp [Run.cons, this]

example : (Retry.ofTotal (.num 3)).isMethodRetryable POST = false := by decide

example : (runAttempts ⟨true⟩ (Retry.ofTotal (.num 3)) POST [.readError .reset, .response 200 none]).attempts[0]? =
    some ⟨.readError .reset, none⟩ := by decide

/-- the script of the former finding `proxy-read-reset-relabelled-proxyerror` (`Retry(3)`, POST,
first attempt reset — or EOF — while reading), now with the expected outcome: behind a proxy, as
on a direct pool, the request goes on the wire once and `ProtocolError` is re-raised -/
theorem C04_proxied_reset_not_resent :
    (Retry.ofTotal (.num 3)).isMethodRetryable POST = false ∧
    (runAttempts ⟨true⟩ (Retry.ofTotal (.num 3)) POST [.readError .reset, .response 200 none]).outcomes
      = [.readError .reset] ∧
    (runAttempts ⟨true⟩ (Retry.ofTotal (.num 3)) POST [.readError .reset, .response 200 none]).result
      = .reraised (.plain .protocol) ∧
    (runAttempts ⟨true⟩ (Retry.ofTotal (.num 3)) POST [.readError .eof, .response 200 none]).outcomes
      = [.readError .eof] ∧
    (runAttempts ⟨true⟩ (Retry.ofTotal (.num 3)) POST [.readError .eof, .response 200 none]).result
      = .reraised (.plain .protocol) ∧
    (runAttempts ⟨false⟩ (Retry.ofTotal (.num 3)) POST [.readError .reset, .response 200 none]).outcomes
      = [.readError .reset] ∧
    (runAttempts ⟨false⟩ (Retry.ofTotal (.num 3)) POST [.readError .reset, .response 200 none]).result
      = .reraised (.plain .protocol) := by
  decide

/-- second symptom of the former finding (`…/read-budget`): `Retry(read=0)` stops a GET from being
retried after a reset behind a proxy -/
theorem C04_proxied_reset_read_budget :
    (runAttempts ⟨true⟩ { Retry.default with read := .num 0 } GET [.readError .reset, .response 200 none]).outcomes
      = [.readError .reset] ∧
    (runAttempts ⟨true⟩ { Retry.default with read := .num 0 } GET [.readError .reset, .response 200 none]).result
      = .maxRetry (.error (.plain .protocol)) := by
  decide

/-! ## retries=False -/

/-- `total is False`: the first error is re-raised (the translated exception itself, not
`MaxRetryError`) after exactly one attempt, without sleeping -/
theorem C04_false_reraises (cfg : Cfg) (r : Retry) (m : Str) (o : Outcome) (rest : List Outcome)
    (ht : r.total = .disabled) (ho : o.isError = true) :
    runAttempts cfg r m (o :: rest) = ⟨[⟨o, none⟩], .reraised (translate cfg o)⟩ := by
  cases o with
  | response st ra => simp [Outcome.isError] at ho
  | connectError k => simp [runAttempts, Retry.increment, ht, Run.stop]
  | readError k => simp [runAttempts, Retry.increment, ht, Run.stop]
  | otherError => simp [runAttempts, Retry.increment, ht, Run.stop]

example : (Retry.fromInt .false).total = .disabled := by decide

/-! ## termination -/

/-- every attempt consumes one scripted outcome, and with a numeric `total` the loop ends by itself
(a result other than "script exhausted") within `max(total, 0) + 1` attempts however long the
script of failures is -/
theorem C04_terminates (cfg : Cfg) (r : Retry) (m : Str) (script : List Outcome) :
    (runAttempts cfg r m script).attempts.length ≤ script.length ∧
    (∀ n : Int, r.total = .num n → n.toNat + 1 ≤ script.length →
      (runAttempts cfg r m script).result ≠ .outOfScript) := by
  induction script generalizing r with
  | nil => exact ⟨by simp [runAttempts], by intro n _ h; simp at h⟩
  | cons o rest ih =>
    cases run_cases cfg r m o rest with
    | returned st ra ho hw h => simp [h, Run.stop]
    | raised x hw hi h =>
      simp only [h, Run.stop, List.length_cons, List.length_nil]
      exact ⟨by omega, fun _ _ _ => stopResult_ne_out r o x⟩
    | again r' hw hi h =>
      obtain ⟨htot, hex, -, -, -, -⟩ := Retry.increment_ok hi
      obtain ⟨ih1, ih2⟩ := ih r'
      refine ⟨by simp only [h, Run.cons, List.length_cons]; omega, ?_⟩
      intro n hn hlen
      rw [hn] at htot
      have h0 : 0 ≤ n - 1 :=
        Retry.nonneg_of_not_exhausted hex (by simp [Retry.counters, htot, Count.dec])
      simp only [h, Run.cons]
      exact ih2 (n - 1) htot (by simp only [List.length_cons] at hlen; omega)

/-! ## sleeps -/

/-- every `time.sleep` argument is a positive backoff `≤ backoff_max`, or it is the `Retry-After`
of the response just received and `respect_retry_after_header` is set; after an error it is always
the former -/
theorem C04_sleep_bounds (cfg : Cfg) (r : Retry) (m : Str) (script : List Outcome) (a : Attempt) (t : Int)
    (ha : a ∈ (runAttempts cfg r m script).attempts) (hs : a.sleep = some t) :
    (0 < t ∧ t ≤ r.backoffMax) ∨
    (r.respectRetryAfter = true ∧ ∃ st n, a.outcome = .response st (some n) ∧ n ≠ 0 ∧ t = ticks * n) := by
  induction script generalizing r with
  | nil => simp [runAttempts] at ha
  | cons o rest ih =>
    cases run_cases cfg r m o rest with
    | returned st ra ho hw h =>
      rw [h] at ha; simp only [Run.stop, List.mem_singleton] at ha; subst ha; simp at hs
    | raised x hw hi h =>
      rw [h] at ha; simp only [Run.stop, List.mem_singleton] at ha; subst ha; simp at hs
    | again r' hw hi h =>
      obtain ⟨-, -, hsame, -, -, -⟩ := Retry.increment_ok hi
      rw [h] at ha
      simp only [Run.cons, List.mem_cons] at ha
      rcases ha with rfl | ha
      · simp only at hs
        rcases sleep_bound hs with hb | ⟨hrr, rs, n, hresp, hra, hn, ht⟩
        · exact Or.inl (by rw [← hsame.backoffMax]; exact hb)
        · right
          refine ⟨by rw [← hsame.respectRetryAfter]; exact hrr, ?_⟩
          cases o with
          | response st ra =>
            simp only [respOf, Option.some.injEq] at hresp
            subst hresp
            simp only at hra
            subst hra
            exact ⟨st, n, rfl, hn, ht⟩
          | connectError k => simp [respOf] at hresp
          | readError k => simp [respOf] at hresp
          | otherError => simp [respOf] at hresp
      · have := ih r' ha
        rw [hsame.backoffMax, hsame.respectRetryAfter] at this
        exact this

example : ∃ a ∈ (runAttempts ⟨false⟩ { Retry.default with statusForcelist := [500], backoffFactor := 512 } GET
    [.response 503 (some 7), .response 500 none, .response 200 none]).attempts, a.sleep = some (ticks * 7) := by
  decide

/-! ## which statuses are retried -/

/-- a response is followed by another attempt only if the method is retryable and the status is in
`status_forcelist`, or it is one of the generated `RETRY_AFTER_STATUS_CODES` carrying a
`Retry-After` header while `respect_retry_after_header` is set -/
theorem C04_retry_after_gate (cfg : Cfg) (r : Retry) (m : Str) (script : List Outcome) (a : Attempt)
    (st : Nat) (ra : Option Nat)
    (ha : a ∈ (runAttempts cfg r m script).retried) (ho : a.outcome = .response st ra) :
    r.isMethodRetryable m = true ∧
    (st ∈ r.statusForcelist ∨
      (st ∈ Gen.retryAfterStatusCodes ∧ ra.isSome = true ∧ r.respectRetryAfter = true)) := by
  induction script generalizing r with
  | nil => simp [runAttempts, Run.retried] at ha
  | cons o rest ih =>
    cases run_cases cfg r m o rest with
    | returned st' ra' ho' hw h => rw [h, retried_stop _ _ (by simp)] at ha; simp at ha
    | raised x hw hi h => rw [h, retried_stop _ _ (stopResult_ne_out r o x)] at ha; simp at ha
    | again r' hw hi h =>
      obtain ⟨-, -, hsame, -, -, -⟩ := Retry.increment_ok hi
      rw [h, retried_cons _ _ _ (run_attempts_ne_nil cfg r' m rest)] at ha
      rcases List.mem_cons.1 ha with rfl | ha
      · simp only at ho
        subst ho
        simp only [wants] at hw
        obtain ⟨h1, h2⟩ := isRetry_true hw
        exact ⟨h1, h2.imp id fun ⟨a, b, c, _⟩ => ⟨a, b, c⟩⟩
      · have := ih r' ha
        rw [Retry.isMethodRetryable_congr hsame, hsame.statusForcelist, hsame.respectRetryAfter] at this
        exact this

/-- the generated table: only 413 / 429 / 503 can be retried on the strength of `Retry-After` -/
theorem C04_retry_after_codes : ∀ c ∈ Gen.retryAfterStatusCodes, c ∈ [413, 429, 503] := by decide

/-- the generated table: every default allowed method is idempotent (RFC 9110 §9.2.2) -/
theorem C04_default_methods_idempotent :
    ∀ x ∈ Gen.defaultAllowedMethods,
      x ∈ [[72, 69, 65, 68], [71, 69, 84], [80, 85, 84], [68, 69, 76, 69, 84, 69],
           [79, 80, 84, 73, 79, 78, 83], [84, 82, 65, 67, 69]] := by
  decide

/-- `Retry()` and `Retry.DEFAULT` use that table and therefore spare POST -/
theorem C04_default_policy :
    Retry.default.allowedMethods = some Gen.defaultAllowedMethods ∧
    Retry.DEFAULT.allowedMethods = some Gen.defaultAllowedMethods ∧
    Retry.default.isMethodRetryable POST = false ∧ Retry.DEFAULT.isMethodRetryable POST = false ∧
    Retry.default.respectRetryAfter = true ∧ Retry.default.statusForcelist = [] := by
  decide

/-! ## how exhaustion surfaces -/

/-- the last attempt explains the result: `MaxRetryError` carries the (translated) error of the last
attempt, or the `ResponseError` for the last response — and then `raise_on_status` is set; a returned
response is the last response; a re-raised error is the last attempt's error -/
theorem C04_exhaustion_surface (cfg : Cfg) (r : Retry) (m : Str) (script : List Outcome) :
    (∀ c, (runAttempts cfg r m script).result = .maxRetry c →
      ∃ a, (runAttempts cfg r m script).attempts.getLast? = some a ∧
        c = Retry.Event.reason (eventOf cfg a.outcome) ∧
        (a.outcome.isError = false → r.raiseOnStatus = true)) ∧
    (∀ st, (runAttempts cfg r m script).result = .response st →
      ∃ a ra, (runAttempts cfg r m script).attempts.getLast? = some a ∧ a.outcome = .response st ra) ∧
    (∀ e, (runAttempts cfg r m script).result = .reraised e →
      ∃ a, (runAttempts cfg r m script).attempts.getLast? = some a ∧ a.outcome.isError = true ∧
        e = translate cfg a.outcome) := by
  induction script generalizing r with
  | nil => simp [runAttempts]
  | cons o rest ih =>
    cases run_cases cfg r m o rest with
    | returned st ra ho hw h =>
      subst ho
      rw [h]
      refine ⟨by simp [Run.stop], ?_, by simp [Run.stop]⟩
      intro st' hst
      simp only [Run.stop, Result.response.injEq] at hst
      subst hst
      exact ⟨⟨.response st ra, none⟩, ra, by simp [Run.stop], rfl⟩
    | raised x hw hi h =>
      rw [h]
      simp only [Run.stop, List.getLast?_singleton, Option.some.injEq, exists_eq_left']
      rcases Retry.increment_error hi with rfl | ⟨e, he, rfl⟩
      · cases o with
        | response st ra =>
          simp only [stopResult]
          split
          · rename_i hros
            refine ⟨?_, by simp, by simp⟩
            intro c hc
            simp only [Result.maxRetry.injEq] at hc
            exact ⟨hc.symm, fun _ => hros⟩
          · refine ⟨by simp, ?_, by simp⟩
            intro st' hst
            simp only [Result.response.injEq] at hst
            exact ⟨_, ra, rfl, by rw [hst]⟩
        | connectError k =>
          simp only [stopResult]
          exact ⟨fun c hc => ⟨by simpa using hc.symm, by simp [Outcome.isError]⟩, by simp, by simp⟩
        | readError k =>
          simp only [stopResult]
          exact ⟨fun c hc => ⟨by simpa using hc.symm, by simp [Outcome.isError]⟩, by simp, by simp⟩
        | otherError =>
          simp only [stopResult]
          exact ⟨fun c hc => ⟨by simpa using hc.symm, by simp [Outcome.isError]⟩, by simp, by simp⟩
      · simp only [stopResult]
        refine ⟨by simp, by simp, ?_⟩
        intro e' he'
        simp only [Result.reraised.injEq] at he'
        subst he'
        cases o with
        | response st ra => simp [eventOf] at he
        | connectError k => simp only [eventOf, Event.error.injEq] at he; exact ⟨rfl, he.symm⟩
        | readError k => simp only [eventOf, Event.error.injEq] at he; exact ⟨rfl, he.symm⟩
        | otherError => simp only [eventOf, Event.error.injEq] at he; exact ⟨rfl, he.symm⟩
    | again r' hw hi h =>
      obtain ⟨-, -, hsame, -, -, -⟩ := Retry.increment_ok hi
      obtain ⟨ih1, ih2, ih3⟩ := ih r'
      have hlast : ∀ res, (runAttempts cfg r' m rest).result = res → res ≠ .outOfScript →
          (Run.cons o (r'.sleep (respOf o)) (runAttempts cfg r' m rest)).attempts.getLast?
            = (runAttempts cfg r' m rest).attempts.getLast? := by
        intro res hres hne
        have := run_attempts_ne_nil cfg r' m rest (by rw [hres]; exact hne)
        simp only [Run.cons]
        cases hl : (runAttempts cfg r' m rest).attempts with
        | nil => exact absurd hl this
        | cons x xs => simp [List.getLast?_cons_cons]
      rw [h]
      refine ⟨?_, ?_, ?_⟩
      · intro c hc
        simp only [Run.cons] at hc
        obtain ⟨a, ha, hc', hros⟩ := ih1 c hc
        exact ⟨a, by rw [hlast _ hc (by simp)]; exact ha, hc', by rw [← hsame.raiseOnStatus]; exact hros⟩
      · intro st hst
        simp only [Run.cons] at hst
        obtain ⟨a, ra, ha, ho⟩ := ih2 st hst
        exact ⟨a, ra, by rw [hlast _ hst (by simp)]; exact ha, ho⟩
      · intro e he
        simp only [Run.cons] at he
        obtain ⟨a, ha, h1, h2⟩ := ih3 e he
        exact ⟨a, by rw [hlast _ he (by simp)]; exact ha, h1, h2⟩

example : (runAttempts ⟨false⟩ { Retry.default with total := .num 1, statusForcelist := [500], raiseOnStatus := false } GET
    [.response 500 none, .response 500 none, .response 200 none]).result = .response 500 := by decide
example : (runAttempts ⟨false⟩ { Retry.default with total := .num 1, statusForcelist := [500] } GET
    [.response 500 none, .response 500 none, .response 200 none]).result = .maxRetry (.response (.specific 500)) := by
  decide
example : (runAttempts ⟨false⟩ { Retry.default with total := .num 0 } GET
    [.readError .timeout]).result = .maxRetry (.error (.plain .readTimeout)) := by decide

/-! ## the caller's object -/

/-- `increment` never hands back the object it was called on: the result is a new value whose history
is one entry longer, and the configuration fields are carried over unchanged.  (The model is
functional, so the caller's value cannot change; that the Python object's attributes are untouched is
checked field by field in the correspondence run.) -/
theorem C04_caller_retry_unchanged (r r' : Retry) (m : Option Str) (ev : Event)
    (h : r.increment m ev = .ok r') :
    r' ≠ r ∧ r'.history.length = r.history.length + 1 ∧ Retry.SameConfig r r' := by
  obtain ⟨-, -, hsame, -, ⟨e, hh⟩, -⟩ := Retry.increment_ok h
  have hl : r'.history.length = r.history.length + 1 := by simp [hh]
  refine ⟨?_, hl, hsame⟩
  intro heq
  rw [heq] at hl
  omega

example : ((Retry.ofTotal (.num 3)).increment (some GET) (.error (.plain .readTimeout))).toOption.isSome = true := by
  decide

end U3.Props
