import U3.Model.Retry
import U3.Lemmas.Retry
/-!
# C04 — retries respect every budget, spare non-idempotent requests, and terminate

All statements are about `U3.Retry.runAttempts cfg r redirect q i script` — one `urlopen(method,
url, body, retries=r, redirect=redirect)` call with its recursive calls (retries after errors,
status retries, and the pool-level redirect branch), the network deciding the outcome of every
attempt — for **every** `Retry` value `r` (any counters, also negative / `False`), both values of
`redirect`, every request `q` (method string, body or not), every attempt offset `i`, every outcome
script of any length (errors, replies, replies carrying a `Location`), and both kinds of pool
(`cfg.proxied`); `urlopen` is the entry with `Retry.from_int` in front.  No statement is restricted
(`C04_proxied_classification` excludes the one outcome that is *meant* to differ behind a proxy, a
failed TLS handshake with the proxy, and `C04_proxy_handshake_failure_is_other` states that case):
the former finding `proxy-read-reset-relabelled-proxyerror` is repaired in the code
(`HTTPConnection.getresponse` keeps `has_connected_to_proxy` across the `close()` that `http.client`
performs on `ConnectionError`), `C04_nonidempotent_not_resent` holds for direct and proxied pools
alike, and the former negation witness is now the positive `C04_proxied_reset_not_resent`.
-/
namespace U3.Props
open U3 U3.Retry

/-! ## budgets -/

/-- attempts ≤ 1 + max(total, 0) whenever `total` is a number -/
theorem C04_attempts_le_total (cfg : Cfg) (r : Retry) (rd : Bool) (q : Rq) (i : Nat)
    (script : List Outcome) (n : Int) (ht : r.total = .num n) :
    (runAttempts cfg r rd q i script).attempts.length ≤ n.toNat + 1 := by
  induction script generalizing r n q i with
  | nil => simp [runAttempts]
  | cons o rest ih =>
    cases run_cases cfg r rd q i o rest with
    | returned st ra ho hw h => simp [h, Run.stop]
    | raised x hw hi h => simp [h, Run.stop]
    | again r' hw hi h =>
      obtain ⟨htot, hex, -, -, -, -⟩ := Retry.increment_ok hi
      rw [ht] at htot
      have hn : 0 ≤ n - 1 :=
        Retry.nonneg_of_not_exhausted hex (by simp [Retry.counters, htot, Count.dec])
      have := ih r' (nextRq rd q i o) (i + 1) (n - 1) htot
      simp only [h, Run.cons, List.length_cons]
      omega

example : (runAttempts ⟨false⟩ (Retry.ofTotal (.num 2)) true ⟨GET, 0, false⟩ 0
    [.connectError .timeout, .connectError .refused, .connectError .timeout, .response 200 none]).attempts.length = 3 := by
  decide
/-- … redirect hops included: an error, a followed 302, a followed 303 use up `total = 2` -/
example : (runAttempts ⟨false⟩ (Retry.ofTotal (.num 2)) true ⟨GET, 0, false⟩ 0
    [.readError .reset, .located 302 none, .located 303 none, .response 200 none]).attempts.length = 3 := by
  decide

/-- per category: the attempts charged to `connect` / `read` / `status` / `other` / `redirect` after
which another attempt was made never outnumber that counter (`False` pays for none).  `chargedTo` is
the code's classification; `C04_direct_classification` says it is the natural one on direct pools.
(A response with status 0 does not exist in HTTP; `increment` would not charge it.)  For
`c = .redirect` this is C05's pool-level clause: redirect hops ≤ the redirect budget. -/
theorem C04_category_budgets (cfg : Cfg) (r : Retry) (rd : Bool) (q : Rq) (i : Nat) (script : List Outcome)
    (c : Cat) (b : Nat) (hb : (r.counter c).budget = some b) :
    ((runAttempts cfg r rd q i script).retried.filter
        (fun a => decide (chargedTo cfg a.outcome = some c))).length ≤ b := by
  induction script generalizing r b q i with
  | nil => simp [runAttempts, Run.retried]
  | cons o rest ih =>
    cases run_cases cfg r rd q i o rest with
    | returned st ra ho hw h => simp [h, retried_stop]
    | raised x hw hi h => simp [h, retried_stop _ _ _ (stopResult_ne_out r rd i o x)]
    | again r' hw hi h =>
      obtain ⟨-, hex, -, hcnt, -, -⟩ := Retry.increment_ok hi
      rw [h, retried_cons _ _ _ _ (run_attempts_ne_nil cfg r' rd _ _ rest)]
      obtain ⟨hc1, hc2⟩ := hcnt c
      by_cases hcat : (eventOf cfg o).cat = some c
      · have hc := hc1 hcat
        have hmem := Retry.counter_mem r' c
        cases hrc : r.counter c with
        | none => simp [hrc, Count.budget] at hb
        | disabled =>
          rw [hrc] at hc
          have := Retry.nonneg_of_not_exhausted hex (n := -1) (by simpa [hc, Count.dec] using hmem)
          omega
        | num n =>
          rw [hrc] at hc hb
          simp only [Count.dec] at hc
          have hn : 0 ≤ n - 1 := Retry.nonneg_of_not_exhausted hex (by simpa [hc] using hmem)
          have := ih r' (nextRq rd q i o) (i + 1) (n - 1).toNat (by simp [hc, Count.budget])
          simp only [chargedTo] at this
          simp only [Count.budget, Option.some.injEq] at hb
          simp only [List.filter_cons, chargedTo, hcat, decide_true, if_true, List.length_cons]
          omega
      · have := ih r' (nextRq rd q i o) (i + 1) b (by rw [hc2 hcat]; exact hb)
        simpa [List.filter_cons, chargedTo, hcat] using this

example : (Retry.counter (Retry.ofTotal (.num 2)) .read).budget = none := by decide
example : (Retry.counter { Retry.default with read := .num 1 } .read).budget = some 1 := by decide
example : (Retry.counter { Retry.default with redirect := .num 1 } .redirect).budget = some 1 := by decide

/-- on a direct pool the code charges every outcome to the counter the property names; a reply whose
status is a redirect status and that carries a `Location` is charged to `redirect` — whether the
redirect is followed or the same URL is asked again because the status is forcelisted -/
theorem C04_direct_classification (o : Outcome) :
    chargedTo ⟨false⟩ o =
      match o with
      | .connectError _ => some .connect
      | .handshakeError _ => some .read      -- TLS handshake with the origin itself: ReadTimeoutError / ProtocolError
      | .sendError _ => some .read
      | .readError _ => some .read
      | .otherError => some .other
      | .response st _ => if st != 0 then some .status else none
      | .located st _ =>
        if st ∈ Gen.Redirect.redirectStatuses then some .redirect
        else if st != 0 then some .status else none := by
  cases o with
  | connectError k => cases k <;> rfl
  | handshakeError k => cases k <;> rfl
  | sendError k => cases k <;> rfl
  | readError k => cases k <;> rfl
  | otherError => rfl
  | response st ra => rfl
  | located st ra =>
    by_cases h : st ∈ Gen.Redirect.redirectStatuses
    · simp [chargedTo, eventOf, respOf, Outcome.redirectLocation, h, Event.cat]
    · simp [chargedTo, eventOf, respOf, Outcome.redirectLocation, h, Event.cat]

/-- behind a proxy every kind of send / read error is charged to `read`, exactly as on a direct pool,
and a failure to reach the proxy is still a connect error (the former finding
`proxy-read-reset-relabelled-proxyerror`: reset / EOF used to be wrapped as `ProxyError` and
charged to `other`).  The one outcome that is classified differently is a failed TLS handshake with
the first hop: behind a proxy that hop is the proxy (`C04_proxy_handshake_failure_is_other`). -/
theorem C04_proxied_classification (o : Outcome) (hh : ∀ k, o ≠ .handshakeError k) :
    chargedTo ⟨true⟩ o = chargedTo ⟨false⟩ o := by
  cases o with
  | handshakeError k => exact absurd rfl (hh k)
  | connectError k => cases k <;> rfl
  | sendError k => cases k <;> rfl
  | readError k => cases k <;> rfl
  | otherError => rfl
  | response st ra => rfl
  | located st ra => rfl

example : ∀ k, Outcome.readError .reset ≠ .handshakeError k := by intro k; exact Outcome.noConfusion

/-- the TLS handshake with an HTTPS proxy fails (times out / is reset) after the proxy accepted the TCP
connection: `has_connected_to_proxy` is still `False`, so the error reaches `Retry.increment` as
`ProxyError(ReadTimeoutError)` resp. `ProxyError(ConnectionResetError)`; `_is_connection_error`
unwraps it and finds no `ConnectTimeoutError`, `_is_read_error` does not unwrap: it is charged to
`other` — never to `read` (the request has not been written), and `allowed_methods` is not consulted -/
theorem C04_proxy_handshake_failure_is_other (k : HandshakeKind) :
    chargedTo ⟨true⟩ (.handshakeError k) = some .other ∧
    (∃ c, translate ⟨true⟩ (.handshakeError k) = .proxy c) ∧
    (Outcome.handshakeError k).sent = false ∧
    ∀ rd, reachedServer rd (.handshakeError k) = false := by
  cases k <;> exact ⟨rfl, ⟨_, rfl⟩, rfl, fun _ => rfl⟩

/-- `C04_category_budgets` at `other` for the handshake with the proxy, spelled out (the scripts of
seeded C04-m7): `other=0` stops the first retry although `read=3` would pay for three; a POST is
retried on the `other` budget (it cannot have reached the server) -/
theorem C04_proxy_handshake_timeout_is_other :
    (runAttempts ⟨true⟩ { Retry.default with total := .num 5, read := .num 3, other := .num 0 } true ⟨GET, 0, false⟩ 0
      [.handshakeError .timeout, .response 200 none]).outcomes = [.handshakeError .timeout] ∧
    (runAttempts ⟨true⟩ { Retry.default with total := .num 5, read := .num 3, other := .num 0 } true ⟨GET, 0, false⟩ 0
      [.handshakeError .timeout, .response 200 none]).result = .maxRetry (.error (.proxy .readTimeout)) ∧
    (runAttempts ⟨true⟩ { Retry.default with read := .num 0 } true ⟨POST, 0, true⟩ 0
      [.handshakeError .timeout, .response 200 none]).result = .response 1 200 ∧
    ((runAttempts ⟨true⟩ { Retry.default with read := .num 0 } true ⟨POST, 0, true⟩ 0
      [.handshakeError .timeout, .response 200 none]).sent.map (·.outcome)) = [.response 200 none] := by
  decide

/-- the four read errors behind a proxy, spelled out (positive counterpart of the former
`C04_proxied_reset_charged_other`) -/
theorem C04_proxied_reset_charged_read :
    chargedTo ⟨true⟩ (.readError .reset) = some .read ∧ chargedTo ⟨true⟩ (.readError .eof) = some .read ∧
    chargedTo ⟨true⟩ (.readError .timeout) = some .read ∧ chargedTo ⟨true⟩ (.readError .garbage) = some .read := by
  decide

/-- C05 at pool level: the redirects `urlopen` follows never outnumber the `redirect` budget of the
policy in effect (and, being attempts, stay within `C04_attempts_le_total`) -/
theorem C04_followed_le_redirect_budget (cfg : Cfg) (r : Retry) (rd : Bool) (q : Rq) (i : Nat)
    (script : List Outcome) (b : Nat) (hb : r.redirect.budget = some b) :
    ((runAttempts cfg r rd q i script).retried.filter (fun a => follows rd a.outcome)).length ≤ b := by
  refine Nat.le_trans ?_ (C04_category_budgets cfg r rd q i script .redirect b hb)
  rw [← List.countP_eq_length_filter, ← List.countP_eq_length_filter]
  apply List.countP_mono_left
  intro a _ ha
  have hloc : a.outcome.redirectLocation = true := by
    simp only [follows, Bool.and_eq_true] at ha
    exact ha.2
  cases ho : a.outcome with
  | located st ra =>
    rw [ho] at hloc
    simp [chargedTo, eventOf, respOf, hloc, Event.cat]
  | response st ra => rw [ho] at hloc; simp [Outcome.redirectLocation] at hloc
  | connectError k => rw [ho] at hloc; simp [Outcome.redirectLocation] at hloc
  | handshakeError k => rw [ho] at hloc; simp [Outcome.redirectLocation] at hloc
  | sendError k => rw [ho] at hloc; simp [Outcome.redirectLocation] at hloc
  | readError k => rw [ho] at hloc; simp [Outcome.redirectLocation] at hloc
  | otherError => rw [ho] at hloc; simp [Outcome.redirectLocation] at hloc

example : ({ Retry.default with redirect := .num 1 } : Retry).redirect.budget = some 1 := by decide
example : ((runAttempts ⟨false⟩ { Retry.default with redirect := .num 1 } true ⟨GET, 0, false⟩ 0
    [.located 302 none, .located 302 none, .response 200 none]).retried.filter
      (fun a => follows true a.outcome)).length = 1 := by decide

/-! ## non-idempotent requests -/

/-- direct and proxied pools, with and without `redirect`: when the method an attempt was sent with
is outside `allowed_methods` and the attempt ended in a read error or in a reply that `urlopen` does
not follow as a redirect, that attempt is the last one — the request is never sent again.  (A
followed redirect is a new request by design: 301/302/307/308 keep the method, 303 turns it into
`GET`; the method of every attempt is recorded in the attempt.) -/
theorem C04_nonidempotent_not_resent (cfg : Cfg) (r : Retry) (rd : Bool) (q : Rq) (i : Nat)
    (script : List Outcome) (j : Nat) (a : Attempt)
    (hj : (runAttempts cfg r rd q i script).attempts[j]? = some a)
    (hm : r.isMethodRetryable a.rq.method = false) (ho : reachedServer rd a.outcome = true) :
    (runAttempts cfg r rd q i script).attempts.length = j + 1 := by
  induction script generalizing r j q i with
  | nil => simp [runAttempts] at hj
  | cons o rest ih =>
    cases run_cases cfg r rd q i o rest with
    | returned st ra ho' hw h =>
      rw [h] at hj ⊢
      cases j with
      | zero => simp [Run.stop]
      | succ j => simp [Run.stop] at hj
    | raised x hw hi' h =>
      rw [h] at hj ⊢
      cases j with
      | zero => simp [Run.stop]
      | succ j => simp [Run.stop] at hj
    | again r' hw hi' h =>
      obtain ⟨-, -, hsame, -, -, herr⟩ := Retry.increment_ok hi'
      rw [h] at hj ⊢
      cases j with
      | zero =>
        simp only [Run.cons, List.getElem?_cons_zero, Option.some.injEq] at hj
        subst hj
        exfalso
        simp only at hm ho
        have hreply : ∀ st ra, respOf o = some ⟨st, ra⟩ → follows rd o = false → False := by
          intro st ra hresp hf
          simp only [wants, hf, hresp, Bool.false_or, Retry.isRetry, hm] at hw
          simp at hw
        cases o with
        | response st ra => exact hreply st ra rfl (by simp [follows, Outcome.redirectLocation])
        | located st ra => exact hreply st ra rfl (by simpa [reachedServer] using ho)
        | readError k =>
          have hcat : errCat (translate cfg (.readError k)) = .read := by
            cases cfg with | mk p => cases p <;> cases k <;> rfl
          obtain ⟨-, hx⟩ := herr _ rfl
          obtain ⟨mm, hmm, hret⟩ := hx hcat
          simp only [nextRq, respOf, Option.some.injEq] at hmm
          subst hmm
          simp [hm] at hret
        | sendError k =>
          have hcat : errCat (translate cfg (.sendError k)) = .read := by
            cases cfg with | mk p => cases p <;> cases k <;> rfl
          obtain ⟨-, hx⟩ := herr _ rfl
          obtain ⟨mm, hmm, hret⟩ := hx hcat
          simp only [nextRq, respOf, Option.some.injEq] at hmm
          subst hmm
          simp [hm] at hret
        | connectError k => simp [reachedServer] at ho
        | handshakeError k => simp [reachedServer] at ho
        | otherError => simp [reachedServer] at ho
      | succ j =>
        simp only [Run.cons, List.getElem?_cons_succ] at hj
        have := ih r' (nextRq rd q i o) (i + 1) j hj (by rw [Retry.isMethodRetryable_congr hsame]; exact hm)
        simp [Run.cons, this]

example : (Retry.ofTotal (.num 3)).isMethodRetryable POST = false := by decide

example : (runAttempts ⟨true⟩ (Retry.ofTotal (.num 3)) true ⟨POST, 0, true⟩ 0
    [.readError .reset, .response 200 none]).attempts[0]? = some ⟨⟨POST, 0, true⟩, .readError .reset, none⟩ := by decide

/-- the script of the former finding `proxy-read-reset-relabelled-proxyerror` (`Retry(3)`, POST,
first attempt reset — or EOF — while reading), now with the expected outcome: behind a proxy, as
on a direct pool, the request goes on the wire once and `ProtocolError` is re-raised -/
theorem C04_proxied_reset_not_resent :
    (Retry.ofTotal (.num 3)).isMethodRetryable POST = false ∧
    (runAttempts ⟨true⟩ (Retry.ofTotal (.num 3)) true ⟨POST, 0, true⟩ 0 [.readError .reset, .response 200 none]).outcomes
      = [.readError .reset] ∧
    (runAttempts ⟨true⟩ (Retry.ofTotal (.num 3)) true ⟨POST, 0, true⟩ 0 [.readError .reset, .response 200 none]).result
      = .reraised (.plain .protocol) ∧
    (runAttempts ⟨true⟩ (Retry.ofTotal (.num 3)) true ⟨POST, 0, true⟩ 0 [.readError .eof, .response 200 none]).outcomes
      = [.readError .eof] ∧
    (runAttempts ⟨true⟩ (Retry.ofTotal (.num 3)) true ⟨POST, 0, true⟩ 0 [.readError .eof, .response 200 none]).result
      = .reraised (.plain .protocol) ∧
    (runAttempts ⟨false⟩ (Retry.ofTotal (.num 3)) true ⟨POST, 0, true⟩ 0 [.readError .reset, .response 200 none]).outcomes
      = [.readError .reset] ∧
    (runAttempts ⟨false⟩ (Retry.ofTotal (.num 3)) true ⟨POST, 0, true⟩ 0 [.readError .reset, .response 200 none]).result
      = .reraised (.plain .protocol) := by
  decide

/-- second symptom of the former finding (`…/read-budget`): `Retry(read=0)` stops a GET from being
retried after a reset behind a proxy -/
theorem C04_proxied_reset_read_budget :
    (runAttempts ⟨true⟩ { Retry.default with read := .num 0 } true ⟨GET, 0, false⟩ 0
      [.readError .reset, .response 200 none]).outcomes = [.readError .reset] ∧
    (runAttempts ⟨true⟩ { Retry.default with read := .num 0 } true ⟨GET, 0, false⟩ 0
      [.readError .reset, .response 200 none]).result = .maxRetry (.error (.plain .protocol)) := by
  decide

/-- a failure while the request is being written — `socket.timeout`, a reset or a broken pipe raised by
the socket's `send` once bytes have gone out — is a read error on every kind of pool (the request may
have reached the server): it is charged to `read`, never to `connect` -/
theorem C04_send_failure_charged_read (cfg : Cfg) (k : SendKind) :
    chargedTo cfg (.sendError k) = some .read ∧ translate cfg (.sendError k) = .plain .protocol := by
  cases cfg with | mk p => cases p <;> cases k <;> exact ⟨rfl, rfl⟩

/-- for every Retry configuration (any counters, `total=False` as well), pool kind and `redirect`
flag: when the method is outside `allowed_methods`, an attempt whose send failed is the only one —
the request is not put on the wire again, no sleep, and `ProtocolError` is re-raised (not
`MaxRetryError`).  (`C04_nonidempotent_not_resent` says the same for a send failure at any later
position of the script.) -/
theorem C04_send_failure_not_resent (cfg : Cfg) (r : Retry) (rd : Bool) (q : Rq) (i : Nat) (k : SendKind)
    (rest : List Outcome) (hm : r.isMethodRetryable q.method = false) :
    runAttempts cfg r rd q i (.sendError k :: rest) =
      ⟨[⟨q, .sendError k, none⟩], .reraised (.plain .protocol)⟩ := by
  have ht : translate cfg (.sendError k) = .plain .protocol := (C04_send_failure_charged_read cfg k).2
  simp only [runAttempts, onError, ht, Retry.increment]
  by_cases h : r.total = .disabled <;>
    simp [h, isConnectionError, isReadError, ErrClass.isConnectTimeout, hm, Run.stop]

example : (Retry.ofTotal (.num 3)).isMethodRetryable POST = false := by decide
/-- … while an idempotent method is retried on the `read` budget: `read=1, connect=3` allows one retry -/
example : (runAttempts ⟨false⟩ { Retry.default with connect := .num 3, read := .num 1 } true ⟨GET, 0, false⟩ 0
    [.sendError .timeout, .sendError .timeout, .response 200 none]).result =
      .maxRetry (.error (.plain .protocol)) := by decide

/-! ## retries=False -/

/-- `total is False`: the first error is re-raised (the translated exception itself, not
`MaxRetryError`) after exactly one attempt, without sleeping -/
theorem C04_false_reraises (cfg : Cfg) (r : Retry) (rd : Bool) (q : Rq) (i : Nat) (o : Outcome)
    (rest : List Outcome) (ht : r.total = .disabled) (ho : o.isError = true) :
    runAttempts cfg r rd q i (o :: rest) = ⟨[⟨q, o, none⟩], .reraised (translate cfg o)⟩ := by
  cases o with
  | response st ra => simp [Outcome.isError] at ho
  | located st ra => simp [Outcome.isError] at ho
  | connectError k => simp [runAttempts, onError, Retry.increment, ht, Run.stop]
  | handshakeError k => simp [runAttempts, onError, Retry.increment, ht, Run.stop]
  | sendError k => simp [runAttempts, onError, Retry.increment, ht, Run.stop]
  | readError k => simp [runAttempts, onError, Retry.increment, ht, Run.stop]
  | otherError => simp [runAttempts, onError, Retry.increment, ht, Run.stop]

example : (Retry.fromInt .false).total = .disabled := by decide

/-! ## termination -/

/-- every attempt consumes one scripted outcome, and with a numeric `total` the loop ends by itself
(a result other than "script exhausted") within `max(total, 0) + 1` attempts however long the
script of failures and redirects is -/
theorem C04_terminates (cfg : Cfg) (r : Retry) (rd : Bool) (q : Rq) (i : Nat) (script : List Outcome) :
    (runAttempts cfg r rd q i script).attempts.length ≤ script.length ∧
    (∀ n : Int, r.total = .num n → n.toNat + 1 ≤ script.length →
      (runAttempts cfg r rd q i script).result ≠ .outOfScript) := by
  induction script generalizing r q i with
  | nil => exact ⟨by simp [runAttempts], by intro n _ h; simp at h⟩
  | cons o rest ih =>
    cases run_cases cfg r rd q i o rest with
    | returned st ra ho hw h => simp [h, Run.stop]
    | raised x hw hi h =>
      simp only [h, Run.stop, List.length_cons, List.length_nil]
      exact ⟨by omega, fun _ _ _ => stopResult_ne_out r rd i o x⟩
    | again r' hw hi h =>
      obtain ⟨htot, hex, -, -, -, -⟩ := Retry.increment_ok hi
      obtain ⟨ih1, ih2⟩ := ih r' (nextRq rd q i o) (i + 1)
      refine ⟨by simp only [h, Run.cons, List.length_cons]; omega, ?_⟩
      intro n hn hlen
      rw [hn] at htot
      have h0 : 0 ≤ n - 1 :=
        Retry.nonneg_of_not_exhausted hex (by simp [Retry.counters, htot, Count.dec])
      simp only [h, Run.cons]
      exact ih2 (n - 1) htot (by simp only [List.length_cons] at hlen; omega)

/-- the attempts are the script, in order: the `j`-th attempt got the `j`-th scripted outcome -/
theorem C04_attempts_follow_script (cfg : Cfg) (r : Retry) (rd : Bool) (q : Rq) (i : Nat)
    (script : List Outcome) :
    (runAttempts cfg r rd q i script).outcomes =
      script.take (runAttempts cfg r rd q i script).attempts.length := by
  induction script generalizing r q i with
  | nil => simp [runAttempts, Run.outcomes]
  | cons o rest ih =>
    cases run_cases cfg r rd q i o rest with
    | returned st ra ho hw h => simp [h, Run.stop, Run.outcomes]
    | raised x hw hi h => simp [h, Run.stop, Run.outcomes]
    | again r' hw hi h =>
      have := ih r' (nextRq rd q i o) (i + 1)
      simp only [Run.outcomes] at this
      simp only [h, Run.cons, Run.outcomes, List.map_cons, List.length_cons, List.take_succ_cons, this]

/-! ## sleeps -/

/-- every `time.sleep` argument is a positive backoff `≤ backoff_max`, or it is the `Retry-After`
of the reply just received — and then `respect_retry_after_header` is set or the reply is a redirect
that `urlopen` follows (`sleep_for_retry` in the redirect branch); after an error it is always the
former -/
theorem C04_sleep_bounds (cfg : Cfg) (r : Retry) (rd : Bool) (q : Rq) (i : Nat) (script : List Outcome)
    (a : Attempt) (t : Int)
    (ha : a ∈ (runAttempts cfg r rd q i script).attempts) (hs : a.sleep = some t) :
    (0 < t ∧ t ≤ r.backoffMax) ∨
    ((r.respectRetryAfter = true ∨ follows rd a.outcome = true) ∧
      ∃ st n, respOf a.outcome = some ⟨st, some n⟩ ∧ n ≠ 0 ∧ t = ticks * n) := by
  induction script generalizing r q i with
  | nil => simp [runAttempts] at ha
  | cons o rest ih =>
    cases run_cases cfg r rd q i o rest with
    | returned st ra ho hw h =>
      rw [h] at ha; simp only [Run.stop, List.mem_singleton] at ha; subst ha; simp at hs
    | raised x hw hi h =>
      rw [h] at ha; simp only [Run.stop, List.mem_singleton] at ha; subst ha; simp at hs
    | again r' hw hi h =>
      obtain ⟨-, -, hsame, -, -, -⟩ := Retry.increment_ok hi
      rw [h] at ha
      simp only [Run.cons, List.mem_cons] at ha
      rcases ha with rfl | ha
      · simp only at hs
        have key : ∀ resp : Option Resp, r'.sleep resp = some t → respOf o = resp →
            (0 < t ∧ t ≤ r.backoffMax) ∨
            ((r.respectRetryAfter = true ∨ follows rd o = true) ∧
              ∃ st n, respOf o = some ⟨st, some n⟩ ∧ n ≠ 0 ∧ t = ticks * n) := by
          intro resp hsl hresp
          rcases sleep_bound hsl with hb | ⟨hrr, rs, n, hrs, hra, hn, ht⟩
          · exact Or.inl (by rw [← hsame.backoffMax]; exact hb)
          · right
            refine ⟨Or.inl (by rw [← hsame.respectRetryAfter]; exact hrr), rs.status, n, ?_, hn, ht⟩
            rw [hresp, hrs]
            cases rs with | mk s' ra' => simp only at hra; rw [hra]
        simp only [stepSleep] at hs
        obtain ⟨resp, hresp⟩ : ∃ resp, respOf o = resp := ⟨_, rfl⟩
        cases resp with
        | none => rw [hresp] at hs; exact key none hs hresp
        | some rs =>
          rw [hresp] at hs
          simp only at hs
          by_cases hf : follows rd o = true
          · simp only [hf, if_true] at hs
            right
            refine ⟨Or.inr hf, rs.status, ?_⟩
            show ∃ n, respOf o = some ⟨rs.status, some n⟩ ∧ n ≠ 0 ∧ t = ticks * n
            rw [hresp]
            unfold Retry.sleepForRetry at hs
            cases rs with
            | mk s' ra' =>
              cases ra' with
              | none => simp at hs
              | some n =>
                simp only at hs
                split at hs
                · rename_i h0
                  injection hs with hs
                  exact ⟨n, rfl, by simpa using h0, hs.symm⟩
                · cases hs
          · simp only [hf, Bool.false_eq_true, if_false] at hs
            exact key (some rs) hs hresp
      · have := ih r' (nextRq rd q i o) (i + 1) ha
        rw [hsame.backoffMax, hsame.respectRetryAfter] at this
        exact this

example : ∃ a ∈ (runAttempts ⟨false⟩ { Retry.default with statusForcelist := [500], backoffFactor := 512 } true
    ⟨GET, 0, false⟩ 0 [.response 503 (some 7), .response 500 none, .response 200 none]).attempts,
    a.sleep = some (ticks * 7) := by
  decide

/-! ## which replies are followed by another request -/

/-- a reply is followed by another attempt only as a redirect that `urlopen` follows (`redirect=True`,
a redirect status, a `Location`), or if the method is retryable and the status is in
`status_forcelist`, or it is one of the generated `RETRY_AFTER_STATUS_CODES` carrying a
`Retry-After` header while `respect_retry_after_header` is set -/
theorem C04_retry_after_gate (cfg : Cfg) (r : Retry) (rd : Bool) (q : Rq) (i : Nat) (script : List Outcome)
    (a : Attempt) (st : Nat) (ra : Option Nat)
    (ha : a ∈ (runAttempts cfg r rd q i script).retried) (ho : respOf a.outcome = some ⟨st, ra⟩) :
    follows rd a.outcome = true ∨
    (r.isMethodRetryable a.rq.method = true ∧
      (st ∈ r.statusForcelist ∨
        (st ∈ Gen.retryAfterStatusCodes ∧ ra.isSome = true ∧ r.respectRetryAfter = true))) := by
  induction script generalizing r q i with
  | nil => simp [runAttempts, Run.retried] at ha
  | cons o rest ih =>
    cases run_cases cfg r rd q i o rest with
    | returned st' ra' ho' hw h => rw [h, retried_stop _ _ _ (by simp)] at ha; simp at ha
    | raised x hw hi h => rw [h, retried_stop _ _ _ (stopResult_ne_out r rd i o x)] at ha; simp at ha
    | again r' hw hi h =>
      obtain ⟨-, -, hsame, -, -, -⟩ := Retry.increment_ok hi
      rw [h, retried_cons _ _ _ _ (run_attempts_ne_nil cfg r' rd _ _ rest)] at ha
      rcases List.mem_cons.1 ha with rfl | ha
      · simp only at ho ⊢
        by_cases hf : follows rd o = true
        · exact Or.inl hf
        · right
          simp only [wants, hf, ho, Bool.false_or] at hw
          obtain ⟨h1, h2⟩ := isRetry_true hw
          exact ⟨h1, h2.imp id fun ⟨a, b, c, _⟩ => ⟨a, b, c⟩⟩
      · have := ih r' (nextRq rd q i o) (i + 1) ha
        rw [Retry.isMethodRetryable_congr hsame, hsame.statusForcelist, hsame.respectRetryAfter] at this
        exact this

example : (⟨⟨GET, 0, false⟩, .response 500 none, none⟩ : Attempt) ∈
    (runAttempts ⟨false⟩ { Retry.default with statusForcelist := [500] } false ⟨GET, 0, false⟩ 0
      [.response 500 none, .response 200 none]).retried := by decide

/-- the generated table: only 413 / 429 / 503 can be retried on the strength of `Retry-After` -/
theorem C04_retry_after_codes : ∀ c ∈ Gen.retryAfterStatusCodes, c ∈ [413, 429, 503] := by decide

/-- the generated table: only 301 / 302 / 303 / 307 / 308 are redirects, and none of them is a
`Retry-After` status -/
theorem C04_redirect_statuses :
    (∀ c ∈ Gen.Redirect.redirectStatuses, c ∈ [301, 302, 303, 307, 308]) ∧
    (∀ c ∈ Gen.Redirect.redirectStatuses, c ∉ Gen.retryAfterStatusCodes) := by decide

/-- the generated table: every default allowed method is idempotent (RFC 9110 §9.2.2) -/
theorem C04_default_methods_idempotent :
    ∀ x ∈ Gen.defaultAllowedMethods,
      x ∈ [[72, 69, 65, 68], [71, 69, 84], [80, 85, 84], [68, 69, 76, 69, 84, 69],
           [79, 80, 84, 73, 79, 78, 83], [84, 82, 65, 67, 69]] := by
  decide

/-- `Retry()` and `Retry.DEFAULT` use that table and therefore spare POST -/
theorem C04_default_policy :
    Retry.default.allowedMethods = some Gen.defaultAllowedMethods ∧
    Retry.DEFAULT.allowedMethods = some Gen.defaultAllowedMethods ∧
    Retry.default.isMethodRetryable POST = false ∧ Retry.DEFAULT.isMethodRetryable POST = false ∧
    Retry.default.respectRetryAfter = true ∧ Retry.default.statusForcelist = [] := by
  decide

/-! ## redirect=False -/

/-- `redirect=False`, any policy (a `Retry` object with a redirect budget as well), any script: every
attempt asks for the caller's own request — no `Location` is ever requested, the method and body are
never rewritten, whatever errors were retried before — and a 3xx reply carrying a `Location` whose
status is not forcelisted ends the call: it is the last attempt and it is the response returned. -/
theorem C04_redirect_false_never_follows (cfg : Cfg) (r : Retry) (q : Rq) (i : Nat) (script : List Outcome) :
    (∀ a ∈ (runAttempts cfg r false q i script).attempts, a.rq = q) ∧
    (∀ j a st ra, (runAttempts cfg r false q i script).attempts[j]? = some a →
      a.outcome = .located st ra → st ∈ Gen.Redirect.redirectStatuses → st ∉ r.statusForcelist →
      (runAttempts cfg r false q i script).attempts.length = j + 1 ∧
      (runAttempts cfg r false q i script).result = .response (i + j) st) := by
  induction script generalizing r q i with
  | nil => simp [runAttempts]
  | cons o rest ih =>
    have hnf : follows false o = false := by simp [follows]
    cases run_cases cfg r false q i o rest with
    | returned st ra ho hw h =>
      rw [h]
      refine ⟨by simp [Run.stop], ?_⟩
      intro j a st' ra' hj hout _ _
      cases j with
      | zero =>
        simp only [Run.stop, List.getElem?_cons_zero, Option.some.injEq] at hj
        subst hj
        simp only at hout
        subst hout
        simp only [respOf, Option.some.injEq, Resp.mk.injEq] at ho
        simp [Run.stop, ho.1]
      | succ j => simp [Run.stop] at hj
    | raised x hw hi h =>
      rw [h]
      refine ⟨by simp [Run.stop], ?_⟩
      intro j a st' ra' hj hout hred hnforce
      cases j with
      | zero =>
        simp only [Run.stop, List.getElem?_cons_zero, Option.some.injEq] at hj
        subst hj
        simp only at hout
        subst hout
        exfalso
        simp only [wants, hnf, respOf, Bool.false_or] at hw
        rcases (isRetry_true hw).2 with hfl | ⟨hra, -⟩
        · exact hnforce hfl
        · exact C04_redirect_statuses.2 _ hred hra
      | succ j => simp [Run.stop] at hj
    | again r' hw hi h =>
      obtain ⟨-, -, hsame, -, -, -⟩ := Retry.increment_ok hi
      have hq : nextRq false q i o = q := by
        simp only [nextRq, hnf]
        split <;> simp
      rw [hq] at h
      obtain ⟨ih1, ih2⟩ := ih r' q (i + 1)
      rw [h]
      refine ⟨?_, ?_⟩
      · intro a ha
        simp only [Run.cons, List.mem_cons] at ha
        rcases ha with rfl | ha
        · rfl
        · exact ih1 a ha
      · intro j a st' ra' hj hout hred hnforce
        cases j with
        | zero =>
          simp only [Run.cons, List.getElem?_cons_zero, Option.some.injEq] at hj
          subst hj
          simp only at hout
          subst hout
          exfalso
          simp only [wants, hnf, respOf, Bool.false_or] at hw
          rcases (isRetry_true hw).2 with hfl | ⟨hra, -⟩
          · exact hnforce hfl
          · exact C04_redirect_statuses.2 _ hred hra
        | succ j =>
          simp only [Run.cons, List.getElem?_cons_succ] at hj
          obtain ⟨hl, hres⟩ := ih2 j a st' ra' hj hout hred (by rw [hsame.statusForcelist]; exact hnforce)
          refine ⟨by simp [Run.cons, hl], ?_⟩
          simp only [Run.cons, hres]
          congr 1
          omega

/-- the family of the seeded defect: a read error that is retried, then a 302 — with a `Retry` object
that *has* redirect budget and `redirect=False` the 302 is handed back after two requests -/
example : (runAttempts ⟨false⟩ { Retry.default with redirect := .num 5 } false ⟨GET, 0, false⟩ 0
    [.readError .reset, .located 302 none, .response 200 none]).attempts[1]? =
      some ⟨⟨GET, 0, false⟩, .located 302 none, none⟩ := by decide
example : (runAttempts ⟨false⟩ { Retry.default with redirect := .num 5 } false ⟨GET, 0, false⟩ 0
    [.readError .reset, .located 302 none, .response 200 none]).result = .response 1 302 := by decide
/-- … while `redirect=True` does follow it (so the theorem is about the flag, not the policy) -/
example : (runAttempts ⟨false⟩ { Retry.default with redirect := .num 5 } true ⟨GET, 0, false⟩ 0
    [.readError .reset, .located 302 none, .response 200 none]).result = .response 2 200 := by decide

/-- the same through the entry point, for every way of giving the policy (`None`, `False`, an int,
a `Retry`; any pool default): with `redirect=False` every attempt is the caller's request -/
theorem C04_urlopen_redirect_false (cfg : Cfg) (dflt arg : Arg) (m : Str) (body : Bool) (script : List Outcome) :
    ∀ a ∈ (urlopen cfg dflt arg false m body script).attempts, a.rq = ⟨m, 0, body⟩ := by
  unfold urlopen
  exact (C04_redirect_false_never_follows cfg _ _ 0 script).1

/-- what a followed redirect asks for: consecutive attempts are linked by `nextRq` — the same request
again after an error or a status retry; after a followed redirect the `Location` of that reply, with
the method and body kept (301/302/307/308) or turned into a body-less `GET` (303) -/
theorem C04_request_chain (cfg : Cfg) (r : Retry) (rd : Bool) (q : Rq) (i : Nat) (script : List Outcome)
    (j : Nat) (a b : Attempt)
    (ha : (runAttempts cfg r rd q i script).attempts[j]? = some a)
    (hb : (runAttempts cfg r rd q i script).attempts[j + 1]? = some b) :
    b.rq = nextRq rd a.rq (i + j) a.outcome := by
  induction script generalizing r q i j with
  | nil => simp [runAttempts] at ha
  | cons o rest ih =>
    cases run_cases cfg r rd q i o rest with
    | returned st ra ho hw h => rw [h] at hb; simp [Run.stop] at hb
    | raised x hw hi h => rw [h] at hb; simp [Run.stop] at hb
    | again r' hw hi h =>
      rw [h] at ha hb
      simp only [Run.cons, List.getElem?_cons_succ] at hb
      cases j with
      | zero =>
        simp only [Run.cons, List.getElem?_cons_zero, Option.some.injEq] at ha
        subst ha
        exact run_head_rq cfg r' rd _ _ rest b hb
      | succ j =>
        simp only [Run.cons, List.getElem?_cons_succ] at ha
        have := ih r' (nextRq rd q i o) (i + 1) j ha hb
        rw [this]
        congr 1
        omega

/-- a followed 303 turns the follow-up into a body-less `GET` for the new location; every other
followed redirect keeps method and body -/
theorem C04_redirect_rewrite (q : Rq) (i st : Nat) (ra : Option Nat)
    (h : st ∈ Gen.Redirect.redirectStatuses) :
    nextRq true q i (.located st ra) =
      if st = 303 then ⟨strGET, i + 1, false⟩ else ⟨q.method, i + 1, q.body⟩ := by
  have hf : follows true (.located st ra) = true := by
    simp [follows, Outcome.redirectLocation, h]
  simp only [nextRq, respOf, hf, if_true, redirected]
  by_cases h3 : st = 303 <;> simp [h3]

example : (303 : Nat) ∈ Gen.Redirect.redirectStatuses := by decide
example : (runAttempts ⟨false⟩ Retry.default true ⟨POST, 0, true⟩ 0
    [.located 303 none, .response 200 none]).attempts[1]? =
      some ⟨⟨strGET, 1, false⟩, .response 200 none, none⟩ := by decide
example : (runAttempts ⟨false⟩ Retry.default true ⟨POST, 0, true⟩ 0
    [.located 307 none, .response 200 none]).attempts[1]? =
      some ⟨⟨POST, 1, true⟩, .response 200 none, none⟩ := by decide

/-! ## how exhaustion surfaces, and which response the caller gets -/

/-- the last attempt explains the result: `MaxRetryError` carries the (translated) error of the last
attempt, or the `ResponseError` for the last reply — and then `raise_on_redirect` is set (the reply
was a redirect `urlopen` wanted to follow) resp. `raise_on_status` is set (status retry); a returned
response is the last reply; a re-raised error is the last attempt's error -/
theorem C04_exhaustion_surface (cfg : Cfg) (r : Retry) (rd : Bool) (q : Rq) (i : Nat) (script : List Outcome) :
    (∀ c, (runAttempts cfg r rd q i script).result = .maxRetry c →
      ∃ a, (runAttempts cfg r rd q i script).attempts.getLast? = some a ∧
        c = Retry.Event.reason (eventOf cfg a.outcome) ∧
        (a.outcome.isError = false →
          if follows rd a.outcome then r.raiseOnRedirect = true else r.raiseOnStatus = true)) ∧
    (∀ k st, (runAttempts cfg r rd q i script).result = .response k st →
      ∃ a ra, (runAttempts cfg r rd q i script).attempts.getLast? = some a ∧
        respOf a.outcome = some ⟨st, ra⟩) ∧
    (∀ e, (runAttempts cfg r rd q i script).result = .reraised e →
      ∃ a, (runAttempts cfg r rd q i script).attempts.getLast? = some a ∧ a.outcome.isError = true ∧
        e = translate cfg a.outcome) := by
  induction script generalizing r q i with
  | nil => simp [runAttempts]
  | cons o rest ih =>
    cases run_cases cfg r rd q i o rest with
    | returned st ra ho hw h =>
      rw [h]
      refine ⟨by simp [Run.stop], ?_, by simp [Run.stop]⟩
      intro k st' hst
      simp only [Run.stop, Result.response.injEq] at hst
      obtain ⟨-, rfl⟩ := hst
      exact ⟨⟨q, o, none⟩, ra, by simp [Run.stop], ho⟩
    | raised x hw hi h =>
      rw [h]
      simp only [Run.stop, List.getLast?_singleton, Option.some.injEq, exists_eq_left']
      have hisErr : o.isError = false → ∃ rs, respOf o = some rs := by
        cases o <;> simp [Outcome.isError, respOf]
      rcases Retry.increment_error hi with rfl | ⟨e, he, rfl⟩
      · simp only [stopResult]
        cases hresp : respOf o with
        | none =>
          refine ⟨?_, by simp, by simp⟩
          intro c hc
          simp only [Result.maxRetry.injEq] at hc
          refine ⟨hc.symm, fun hne => ?_⟩
          obtain ⟨rs, hrs⟩ := hisErr hne
          simp [hresp] at hrs
        | some rs =>
          simp only
          by_cases hcond : (if follows rd o = true then r.raiseOnRedirect else r.raiseOnStatus) = true
          · simp only [hcond, if_true]
            refine ⟨?_, by simp, by simp⟩
            intro c hc
            simp only [Result.maxRetry.injEq] at hc
            refine ⟨hc.symm, fun _ => ?_⟩
            by_cases hf : follows rd o = true
            · simpa [hf] using hcond
            · simpa [hf] using hcond
          · simp only [hcond]
            refine ⟨by simp, ?_, by simp⟩
            intro k st' hst
            cases hst
            exact ⟨_, rs.retryAfter, rfl, hresp⟩
      · simp only [stopResult]
        refine ⟨by simp, by simp, ?_⟩
        intro e' he'
        simp only [Result.reraised.injEq] at he'
        subst he'
        cases o with
        | response st ra => simp [eventOf, respOf] at he; split at he <;> cases he
        | located st ra => simp [eventOf, respOf] at he; split at he <;> cases he
        | connectError k => simp only [eventOf, respOf, Event.error.injEq] at he; exact ⟨rfl, he.symm⟩
        | handshakeError k => simp only [eventOf, respOf, Event.error.injEq] at he; exact ⟨rfl, he.symm⟩
        | sendError k => simp only [eventOf, respOf, Event.error.injEq] at he; exact ⟨rfl, he.symm⟩
        | readError k => simp only [eventOf, respOf, Event.error.injEq] at he; exact ⟨rfl, he.symm⟩
        | otherError => simp only [eventOf, respOf, Event.error.injEq] at he; exact ⟨rfl, he.symm⟩
    | again r' hw hi h =>
      obtain ⟨-, -, hsame, -, -, -⟩ := Retry.increment_ok hi
      have hror := Retry.increment_raiseOnRedirect hi
      obtain ⟨ih1, ih2, ih3⟩ := ih r' (nextRq rd q i o) (i + 1)
      have hlast : ∀ res, (runAttempts cfg r' rd (nextRq rd q i o) (i + 1) rest).result = res →
          res ≠ .outOfScript →
          (Run.cons q o (stepSleep rd r' o) (runAttempts cfg r' rd (nextRq rd q i o) (i + 1) rest)).attempts.getLast?
            = (runAttempts cfg r' rd (nextRq rd q i o) (i + 1) rest).attempts.getLast? := by
        intro res hres hne
        have := run_attempts_ne_nil cfg r' rd (nextRq rd q i o) (i + 1) rest (by rw [hres]; exact hne)
        simp only [Run.cons]
        cases hl : (runAttempts cfg r' rd (nextRq rd q i o) (i + 1) rest).attempts with
        | nil => exact absurd hl this
        | cons x xs => simp [List.getLast?_cons_cons]
      rw [h]
      refine ⟨?_, ?_, ?_⟩
      · intro c hc
        simp only [Run.cons] at hc
        obtain ⟨a, ha, hc', hros⟩ := ih1 c hc
        refine ⟨a, by rw [hlast _ hc (by simp)]; exact ha, hc', fun hne => ?_⟩
        have := hros hne
        split at this
        · rename_i hf; simp only [hf, if_true]; exact hror this
        · rename_i hf; simp only [hf]; rw [← hsame.raiseOnStatus]; exact this
      · intro k st hst
        simp only [Run.cons] at hst
        obtain ⟨a, ra, ha, ho⟩ := ih2 k st hst
        exact ⟨a, ra, by rw [hlast _ hst (by simp)]; exact ha, ho⟩
      · intro e he
        simp only [Run.cons] at he
        obtain ⟨a, ha, h1, h2⟩ := ih3 e he
        exact ⟨a, by rw [hlast _ he (by simp)]; exact ha, h1, h2⟩

example : (runAttempts ⟨false⟩ { Retry.default with total := .num 1, statusForcelist := [500], raiseOnStatus := false }
    true ⟨GET, 0, false⟩ 0 [.response 500 none, .response 500 none, .response 200 none]).result = .response 1 500 := by
  decide
example : (runAttempts ⟨false⟩ { Retry.default with total := .num 1, statusForcelist := [500] } true ⟨GET, 0, false⟩ 0
    [.response 500 none, .response 500 none, .response 200 none]).result = .maxRetry (.response (.specific 500)) := by
  decide
example : (runAttempts ⟨false⟩ { Retry.default with total := .num 0 } true ⟨GET, 0, false⟩ 0
    [.readError .timeout]).result = .maxRetry (.error (.plain .readTimeout)) := by decide
example : (runAttempts ⟨false⟩ { Retry.default with redirect := .num 1 } true ⟨GET, 0, false⟩ 0
    [.located 302 none, .located 302 none]).result = .maxRetry (.response .tooManyRedirects) := by decide
example : (runAttempts ⟨false⟩ { Retry.default with redirect := .num 1, raiseOnRedirect := false } true ⟨GET, 0, false⟩ 0
    [.located 302 none, .located 302 none]).result = .response 1 302 := by decide

/-- the response `urlopen` returns is the reply to the LAST attempt — the response object of attempt
`i + (number of attempts − 1)`, i.e. the script entry at index `number of attempts − 1`, untouched —
whether it is returned as a normal result or on exhaustion with `raise_on_status=False` /
`raise_on_redirect=False` -/
theorem C04_returned_is_last_reply (cfg : Cfg) (r : Retry) (rd : Bool) (q : Rq) (i : Nat)
    (script : List Outcome) (k st : Nat) (h : (runAttempts cfg r rd q i script).result = .response k st) :
    k + 1 = i + (runAttempts cfg r rd q i script).attempts.length ∧
    ∃ o ra, script[(runAttempts cfg r rd q i script).attempts.length - 1]? = some o ∧
      respOf o = some ⟨st, ra⟩ := by
  induction script generalizing r q i with
  | nil => simp [runAttempts] at h
  | cons o rest ih =>
    cases run_cases cfg r rd q i o rest with
    | returned st' ra ho hw hr =>
      rw [hr] at h ⊢
      simp only [Run.stop, Result.response.injEq] at h
      obtain ⟨rfl, rfl⟩ := h
      exact ⟨by simp [Run.stop], o, ra, by simp [Run.stop], ho⟩
    | raised x hw hi hr =>
      rw [hr] at h ⊢
      simp only [Run.stop] at h ⊢
      cases x with
      | reraise e => simp [stopResult] at h
      | maxRetry c =>
        simp only [stopResult] at h
        cases hresp : respOf o with
        | none => simp [hresp] at h
        | some rs =>
          simp only [hresp] at h
          by_cases hcond : (if follows rd o = true then r.raiseOnRedirect else r.raiseOnStatus) = true
          · simp [hcond] at h
          · simp only [hcond] at h
            cases h
            exact ⟨by simp, o, rs.retryAfter, by simp, hresp⟩
    | again r' hw hi hr =>
      rw [hr] at h ⊢
      simp only [Run.cons] at h ⊢
      obtain ⟨h1, o', ra, h2, h3⟩ := ih r' (nextRq rd q i o) (i + 1) h
      have hne := run_attempts_ne_nil cfg r' rd (nextRq rd q i o) (i + 1) rest (by rw [h]; simp)
      have hpos : 0 < (runAttempts cfg r' rd (nextRq rd q i o) (i + 1) rest).attempts.length :=
        List.length_pos_iff.2 hne
      refine ⟨by simp only [List.length_cons]; omega, o', ra, ?_, h3⟩
      simp only [List.length_cons, Nat.add_sub_cancel]
      obtain ⟨n, hn⟩ := Nat.exists_eq_succ_of_ne_zero (by omega : (runAttempts cfg r' rd (nextRq rd q i o) (i + 1) rest).attempts.length ≠ 0)
      rw [hn] at h2 ⊢
      simpa using h2

/-- at the entry point (`i = 0`): the index of the returned reply in the script is the number of
attempts − 1 -/
theorem C04_urlopen_returns_last_reply (cfg : Cfg) (dflt arg : Arg) (rd : Bool) (m : Str) (body : Bool)
    (script : List Outcome) (k st : Nat)
    (h : (urlopen cfg dflt arg rd m body script).result = .response k st) :
    k + 1 = (urlopen cfg dflt arg rd m body script).attempts.length ∧
    ∃ o ra, script[k]? = some o ∧ respOf o = some ⟨st, ra⟩ := by
  unfold urlopen at h ⊢
  obtain ⟨h1, o, ra, h2, h3⟩ := C04_returned_is_last_reply cfg _ rd _ 0 script k st h
  refine ⟨by omega, o, ra, ?_, h3⟩
  have : k = (runAttempts cfg (policyOf dflt arg rd) rd ⟨m, 0, body⟩ 0 script).attempts.length - 1 := by omega
  rw [this]
  exact h2

example : (urlopen ⟨false⟩ .none (.retry { Retry.default with total := .num 2, statusForcelist := [503], raiseOnStatus := false })
    true GET false [.response 503 none, .response 503 none, .response 503 none, .response 200 none]).result =
      .response 2 503 := by decide

/-! ## the caller's object -/

/-- `increment` never hands back the object it was called on: the result is a new value whose history
is one entry longer, and the configuration fields are carried over unchanged.  (The model is
functional, so the caller's value cannot change; that the Python object's attributes are untouched is
checked field by field in the correspondence run.) -/
theorem C04_caller_retry_unchanged (r r' : Retry) (m : Option Str) (ev : Event)
    (h : r.increment m ev = .ok r') :
    r' ≠ r ∧ r'.history.length = r.history.length + 1 ∧ Retry.SameConfig r r' := by
  obtain ⟨-, -, hsame, -, ⟨e, hh⟩, -⟩ := Retry.increment_ok h
  have hl : r'.history.length = r.history.length + 1 := by simp [hh]
  refine ⟨?_, hl, hsame⟩
  intro heq
  rw [heq] at hl
  omega

example : ((Retry.ofTotal (.num 3)).increment (some GET) (.error (.plain .readTimeout))).toOption.isSome = true := by
  decide

end U3.Props
