import U3.Model.Retry
namespace U3.Props
open U3 U3.Retry
theorem C04_placeholder : (1:Nat) = 1 := rfl
end U3.Props
