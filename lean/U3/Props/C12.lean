import U3.Lemmas.Resp
import U3.Lemmas.RespIO
import U3.Lemmas.RespRead
import U3.Lemmas.RespRead1
import U3.Lemmas.RespInst
import U3.Lemmas.RespZstd
import U3.Lemmas.RespGzip
import U3.Lemmas.RespGzipEnc
import U3.Lemmas.RespDeflate
import U3.Lemmas.RespMulti
import U3.Lemmas.RespChunked
import U3.Lemmas.RespCalls
import U3.Lemmas.RespReadChunked
import U3.Lemmas.RespIter
import U3.Lemmas.RespWitness
import U3.Lemmas.RespDrain
import U3.Lemmas.RespDrainWitness
/-!
# C12 — every way of reading a response yields the same bytes

Proved here (all inputs, no size bounds).  Building blocks: BytesQueueBuffer is FIFO; every
byte-step `decompressobj` obeys the streaming law; `BufferedReader.read(n)` is exact for every
segmentation; for ANY body source obeying `RawReadSpec` / `RawReadAllSpec` / `RawRead1Spec` and ANY
content decoder obeying the `StreamLaw` (or none): `read(n)` returns exactly the next `min n |rest|`
bytes, `read()` everything that is left (buffered bytes first), `read1(n)` a non-empty prefix of at
most `n` bytes, reads after the end are empty, `.data` is the same bytes, `stream` / `read_chunked` /
iteration never yield an empty piece.

Sources: `http.client` satisfies the source specs on every well-framed Content-Length or
close-delimited body (`C12_raw_read_exact`) and on every well-framed chunked body — any chunk
vector, size-line spelling, extension, trailer — through its own chunk reader
(`C12_raw_read_exact_chunked`, `C12_chunked_wellframed`), for every segmentation.

Decoders: `GzipDecoder` (multi-member, trailing garbage), `DeflateDecoder` (raw fallback with
replay), `ZstdDecoder` (multi-frame), `MultiDecoder` obey the `StreamLaw` for EVERY byte-step
`decompressobj` (`C12_gzip_multimember`, `C12_deflate_fallback`, `C12_zstd_multiframe`,
`C12_multidecoder_order`, `C12_decoders_stream_law`).

Interleavings: `C12_concat_partial` / `C12_concat_raw_partial` (read family, any source / decoder),
`C12_concat_api_partial` / `C12_concat_api_raw_partial` (whole API incl. `readinto`, `stream`,
iteration on non-chunked bodies), `C12_read_chunked_concat` / `C12_iter_chunked_concat` (urllib3's own
chunk parser), and the headline **`C12_concat`** for `http.client` sources with urllib3's decoders in
the reading of DESIGN §6:

  -- theorem C12_concat (hl : StreamLaw D G) (hw : wellFramed w payloadRaw) :
  --   concat (runCalls d w calls).outputs ++ finalRead d (runCalls d w calls).state = d.all payloadRaw

Not covered (see notes/C12.md "Still open"): switching between `http.client`'s and urllib3's chunk
parser in the middle of a chunked body (outside the quantified domain); compressed-block formats of
the real C libraries (covered by the law + oracle, DESIGN §5).

The two defects that refuted `C12_concat` (`read()` skipping the decoded buffer, a zstd frame
boundary on a feed boundary) are repaired in the code; the model follows the repaired code and the
former negation witnesses are now the positive `…_ok` theorems on the same inputs.
-/
namespace U3.Props
open U3 U3.Resp U3.Resp.Witness

/-- `bytesqueue_fifo`: `get(n)` returns exactly the first `min n size` bytes of everything put so
far and keeps the rest in order; `put` appends at the end -/
theorem C12_bytesqueue_fifo (q : BQ) (n : Nat) (d : Bytes) (q' : BQ) (h : bqGet q n = some (d, q')) :
    d = (bqAll q).take n ∧ bqAll q' = (bqAll q).drop n ∧ d ++ bqAll q' = bqAll q ∧
    ∀ x, bqAll (bqPut q' x) = bqAll q' ++ x := by
  obtain ⟨h1, h2⟩ := bqGet_spec q n d q' h
  refine ⟨h1, h2, ?_, fun x => bqPut_all q' x⟩
  rw [h1, h2, List.take_append_drop]

example : bqGet [[1, 2], [], [3, 4, 5]] 3 = some ([1, 2, 3], [[4, 5]]) := by decide

/-- `get` fails (RuntimeError) only on an empty deque with `n > 0`; `get_all` returns everything -/
theorem C12_bytesqueue_total (q : BQ) (n : Nat) (h : q ≠ [] ∨ n = 0) :
    (bqGet q n).isSome ∧ (bqGetAll q).1 = bqAll q ∧ (bqGetAll q).2 = [] :=
  ⟨bqGet_isSome q n h, rfl, rfl⟩

/-- the **streaming law** holds for every byte-step `decompressobj` (in particular the stored-block
gzip / zlib / raw-deflate and raw-block zstd instances): feeding `a ++ b` is feeding `a`, then — if
the member has not ended inside `a` — feeding `b`; after the end the rest is `unused_data` -/
theorem C12_rawobj_stream_law {ρ : Type} (O : RawObj ρ) (s : ρ) (a b : Bytes) :
    feedLoop O s (a ++ b) [] =
      match feedLoop O s a [] with
      | .error e => .error e
      | .ok (s', o, rest) =>
        if rest = [] then (feedLoop O s' b []).map (fun r => (r.1, o ++ r.2.1, r.2.2))
        else .ok (s', o, rest ++ b) :=
  feedLoop_append O s a b

/-- `BufferedReader.read(n)` returns exactly the next `min n available` bytes, whatever the network
segmentation -/
theorem C12_fp_read_exact (f : Fp) (n : Nat) :
    (fpRead f n).1 = f.content.take n ∧ (fpRead f n).2.content = f.content.drop n :=
  ⟨(fpRead_spec f n).1, (fpRead_spec f n).2.1⟩

/-- the read(n) invariant: for ANY body source whose `_raw_read` is exact on a well-framed body
(`RawReadSpec`) and ANY decoder obeying the streaming law, the inner loop of `read(amt)` keeps
`buffered ++ what the decoder still owes for the raw bytes still to come` constant, never raises,
and stops only with `amt` bytes buffered or the raw body exhausted -/
theorem C12_read_n_invariant {σ δ : Type} (S : Src σ) (D : Dec δ) (cfg : Cfg δ)
    {rem : σ → Bytes} {I : σ → Option Int → Prop} {G : δ → Bytes → Bytes → Prop}
    (hR : RawReadSpec S cfg rem I) (hD : StreamLaw D G) (a : Nat) (ha : 0 < a)
    (fuel : Nat) (r : R σ δ) (data : Bytes) (d : δ) (p : Bytes)
    (hI : I r.fp r.lengthRemaining) (hd : r.decoder = some d) (hG : G d (rem r.fp) p)
    (hf : (rem r.fp).length + (if data = [] then 0 else 1) < fuel) (hdata : data = [] → rem r.fp = []) :
    ∃ r' d' p', readLoop S D cfg a true false fuel r data = (.ok (), r') ∧
      r'.decoder = some d' ∧ G d' (rem r'.fp) p' ∧
      bqAll r'.buf ++ p' = bqAll r.buf ++ p ∧ I r'.fp r'.lengthRemaining ∧
      (bqLen r'.buf < a → rem r'.fp = []) :=
  readLoop_inv S D cfg hR hD a ha fuel r data d p hI hd hG hf hdata

/-- buffer level of `C12_read_n_exact`: what `read(n)` finally hands out of the decoded buffer is
exactly `min n buffered` bytes — at most `n`, fewer only when the buffer is exhausted -/
theorem C12_read_n_exact_buffer (q : BQ) (n : Nat) (d : Bytes) (q' : BQ) (h : bqGet q n = some (d, q')) :
    d.length = min n (bqLen q) ∧ (d.length < n → bqAll q' = []) := by
  obtain ⟨h1, h2⟩ := bqGet_spec q n d q' h
  rw [bqLen_eq]
  constructor
  · rw [h1, List.length_take]
  · intro hlt
    rw [h2]
    rw [h1, List.length_take] at hlt
    exact List.drop_eq_nil_of_le (by omega)

/-- **`C12_read_n_exact`** (full): with `rest` = the decoded payload still to be delivered
(`Inv`: framing invariant and `buffered ++ owed = rest`), `read(n)` (`n > 0`, decoding on) never
raises and returns exactly the first `n` bytes of `rest` — at most `n` bytes, and fewer only when
that is everything that was left — and re-establishes the invariant for the remainder.  For ANY
source obeying `RawReadSpec` and ANY decoder obeying the `StreamLaw` (or no decoder). -/
theorem C12_read_n_exact {σ δ : Type} (S : Src σ) (D : Dec δ) (cfg : Cfg δ)
    {rem : σ → Bytes} {I : σ → Option Int → Prop} {G : δ → Bytes → Bytes → Prop}
    (hR : RawReadSpec S cfg rem I) (hD : StreamLaw D G) (n : Nat) (hn : 0 < n)
    (r : R σ δ) (rest : Bytes) (dco : Option Bool) (hdc : dco.getD cfg.decodeDefault = true)
    (hinv : Inv cfg rem I G r rest) (hfuel : (rem r.fp).length + 1 < cfg.fuel) :
    ∃ out r', read S D cfg r (some n) dco = (.ok out, r') ∧ out = rest.take n ∧
      out.length ≤ n ∧ (out.length < n → out = rest) ∧ Inv cfg rem I G r' (rest.drop n) := by
  obtain ⟨r', h1, h2, _⟩ := read_n_spec S D cfg hR hD n hn r rest dco hdc hinv hfuel
  refine ⟨rest.take n, r', h1, rfl, by rw [List.length_take]; omega, ?_, h2⟩
  intro hlt
  rw [List.length_take] at hlt
  exact List.take_of_length_le (by omega)

/-- `read()` (no amount, decoding on) never raises and returns everything that is left — the bytes
already decoded and waiting in the buffer first (the repaired defect), then what the decoder still
owes — and leaves nothing behind -/
theorem C12_read_all_exact {σ δ : Type} (S : Src σ) (D : Dec δ) (cfg : Cfg δ)
    {rem : σ → Bytes} {I : σ → Option Int → Prop} {G : δ → Bytes → Bytes → Prop}
    (hA : RawReadAllSpec S cfg rem I) (hD : StreamLaw D G)
    (r : R σ δ) (rest : Bytes) (dco : Option Bool) (cache : Bool)
    (hdc : dco.getD cfg.decodeDefault = true) (hinv : Inv cfg rem I G r rest) :
    ∃ r', read S D cfg r none dco cache = (.ok rest, r') ∧ Inv cfg rem I G r' [] ∧ rem r'.fp = [] := by
  obtain ⟨r', h1, h2, h3, _⟩ := read_all_spec S D cfg hA hD r rest dco cache hdc hinv
  exact ⟨r', h1, h2, h3⟩

/-- **`C12_concat`, `read` / `read1` family** (partial: see the header): for every list of calls
`read()`, `read(0)`, `read(n)` (= `readinto(n)`), `read1()`, `read1(n)` in any interleaving, with
decoding on: no call raises, there is one piece per call, and the concatenation of the pieces
followed by a final `read()` is the decoded payload — nothing lost, duplicated or reordered.
(Generic in source and decoder; the hypotheses are discharged for `http.client` on all three
framings and for urllib3's decoders, see `C12_concat`; the generators are members in
`C12_concat_api_partial`.) -/
theorem C12_concat_partial {σ δ : Type} (S : Src σ) (D : Dec δ) (cfg : Cfg δ)
    {rem : σ → Bytes} {I : σ → Option Int → Prop} {G : δ → Bytes → Bytes → Prop}
    (hR : RawReadSpec S cfg rem I) (hA : RawReadAllSpec S cfg rem I) (hR1 : RawRead1Spec S cfg rem I)
    (hD : StreamLaw D G) (dco : Option Bool) (hdc : dco.getD cfg.decodeDefault = true)
    (calls : List RCall) (r : R σ δ) (payload : Bytes)
    (hinv : Inv cfg rem I G r payload) (hfuel : (rem r.fp).length + 1 < cfg.fuel) :
    ∃ outs r' last r'', callSeq S D cfg dco calls r = (.ok outs, r') ∧ outs.length = calls.length ∧
      read S D cfg r' none dco = (.ok last, r'') ∧ outs.flatten ++ last = payload := by
  obtain ⟨outs, r', rest', h1, hinv', hcat, hlen, _⟩ :=
    callSeq_concat S D cfg hR hA hR1 hD dco hdc calls r payload hinv hfuel
  obtain ⟨r'', h2, _⟩ := read_all_spec S D cfg hA hD r' rest' dco false hdc hinv'
  exact ⟨outs, r', rest', r'', h1, hlen, h2, hcat⟩

/-- **`C12_concat`, decoding off** (partial in the same sense): with `decode_content=False` from
the start the same calls hand out the transfer-decoded *raw* payload — pieces ++ final `read()` are
the raw body bytes, whatever the `Content-Encoding` -/
theorem C12_concat_raw_partial {σ δ : Type} (S : Src σ) (D : Dec δ) (cfg : Cfg δ)
    {rem : σ → Bytes} {I : σ → Option Int → Prop}
    (hR : RawReadSpec S cfg rem I) (hA : RawReadAllSpec S cfg rem I) (hR1 : RawRead1Spec S cfg rem I)
    (dco : Option Bool) (hdc : dco.getD cfg.decodeDefault = false)
    (calls : List RCall) (r : R σ δ) (raw : Bytes) (hinv : RawInv rem I r raw) :
    ∃ outs r' last r'', callSeq S D cfg dco calls r = (.ok outs, r') ∧ outs.length = calls.length ∧
      read S D cfg r' none dco = (.ok last, r'') ∧ outs.flatten ++ last = raw := by
  obtain ⟨outs, r', raw', h1, hinv', hcat, hlen⟩ :=
    callSeq_concat_raw S D cfg hR hA hR1 dco hdc calls r raw hinv
  obtain ⟨last, r'', raw'', h2, _, h3, h4⟩ :=
    runRCall_raw S D cfg hR hA hR1 dco hdc (.read none) r' raw' hinv'
  refine ⟨outs, r', last, r'', h1, hlen, h2, ?_⟩
  rw [← hcat, ← h3, h4 rfl, List.append_nil]

/-- **`C12_read1_exact`**: `read1(n)` / `read1()` (decoding on) never raises and returns a prefix of
what is left — at most `n` bytes, and empty only when nothing is left (`read1(0)` excepted) — and
re-establishes the invariant for the remainder -/
theorem C12_read1_exact {σ δ : Type} (S : Src σ) (D : Dec δ) (cfg : Cfg δ)
    {rem : σ → Bytes} {I : σ → Option Int → Prop} {G : δ → Bytes → Bytes → Prop}
    (hR1 : RawRead1Spec S cfg rem I) (hD : StreamLaw D G) (amt : Option Nat)
    (r : R σ δ) (rest : Bytes) (dco : Option Bool) (hdc : dco.getD cfg.decodeDefault = true)
    (hinv : Inv cfg rem I G r rest) (hfuel : (rem r.fp).length + 1 < cfg.fuel) :
    ∃ out r' rest', read1 S D cfg r amt dco = (.ok out, r') ∧ out ++ rest' = rest ∧
      Inv cfg rem I G r' rest' ∧ (∀ n, amt = some n → out.length ≤ n) ∧
      (amt ≠ some 0 → out = [] → rest = []) := by
  obtain ⟨out, r', rest', h1, h2, h3, _, h5, h6⟩ := read1_spec S D cfg hR1 hD amt r rest dco hdc hinv hfuel
  exact ⟨out, r', rest', h1, h3, h2, h5, h6⟩

/-- **`C12_after_end_empty`**: once everything has been delivered, `read(n)`, `read(0)` and
`read()` return b"" (and keep doing so) -/
theorem C12_after_end_empty {σ δ : Type} (S : Src σ) (D : Dec δ) (cfg : Cfg δ)
    {rem : σ → Bytes} {I : σ → Option Int → Prop} {G : δ → Bytes → Bytes → Prop}
    (hR : RawReadSpec S cfg rem I) (hA : RawReadAllSpec S cfg rem I) (hD : StreamLaw D G)
    (amt : Option Nat) (r : R σ δ) (dco : Option Bool) (hdc : dco.getD cfg.decodeDefault = true)
    (hinv : Inv cfg rem I G r []) (hfuel : (rem r.fp).length + 1 < cfg.fuel) :
    ∃ r', read S D cfg r amt dco = (.ok [], r') ∧ Inv cfg rem I G r' [] := by
  obtain ⟨out, r', rest', h1, h2, h3, _⟩ := read_any_spec S D cfg hR hA hD amt r [] dco hdc hinv hfuel
  have ho : out = [] := (List.append_eq_nil_iff.mp h3).1
  have hr : rest' = [] := (List.append_eq_nil_iff.mp h3).2
  subst ho hr
  exact ⟨r', h1, h2⟩

/-- **`C12_preload_eq`**: `.data` (which is what preloading stores) is exactly the bytes the read
calls would have delivered, and asking again returns the same bytes -/
theorem C12_preload_eq {σ δ : Type} (S : Src σ) (D : Dec δ) (cfg : Cfg δ)
    {rem : σ → Bytes} {I : σ → Option Int → Prop} {G : δ → Bytes → Bytes → Prop}
    (hA : RawReadAllSpec S cfg rem I) (hD : StreamLaw D G)
    (r : R σ δ) (payload : Bytes) (hdc : cfg.decodeDefault = true) (hb : r.body = none)
    (hinv : Inv cfg rem I G r payload) :
    ∃ r', data S D cfg r = (.ok payload, r') ∧ (data S D cfg r').1 = .ok payload :=
  data_spec S D cfg hA hD r payload hdc hb hinv

/-- **`C12_stream_nonempty`**: `stream(amt)`, `read_chunked(amt)` and iteration never yield an empty
piece — for every response state, source, decoder and amount, also when they end in an exception -/
theorem C12_stream_nonempty {σ δ : Type} (S : Src σ) (D : Dec δ) (cfg : Cfg δ) (r : R σ δ)
    (amt : Option Nat) (dco : Option Bool) (dc : Bool) :
    (∀ x ∈ (stream S D cfg r amt dco).1.1, x ≠ []) ∧
    (∀ x ∈ (readChunked S D cfg r amt dc).1.1, x ≠ []) ∧
    (∀ x ∈ (iter S D cfg r).1.1, x ≠ []) :=
  ⟨stream_nonempty S D cfg r amt dco, readChunked_nonempty S D cfg r amt dc, iter_nonempty S D cfg r⟩

/-- **`C12_stream_concat`** (the general form of the repaired `stream(None)` spin): on a
non-chunked body `stream(amt)` (`amt ≠ 0`, decoding on), started at ANY point of the body — also
after partial `read(n)` / `read1(n)` calls that left decoded bytes in the buffer — terminates,
never raises, yields no empty piece, and its pieces concatenate to exactly what was left.
Source laws beyond the read specs: a `_raw_read` at the end of the body closes the file
(`ClosesN`, `ClosesAll`), a closed file has nothing left (`ClosedNil`). -/
theorem C12_stream_concat {σ δ : Type} (S : Src σ) (D : Dec δ) (cfg : Cfg δ)
    {rem : σ → Bytes} {I : σ → Option Int → Prop} {G : δ → Bytes → Bytes → Prop}
    (hR : RawReadSpec S cfg rem I) (hA : RawReadAllSpec S cfg rem I) (hD : StreamLaw D G)
    (hCN : ClosesN S cfg rem I) (hCA : ClosesAll S cfg I) (hZ : ClosedNil S rem I)
    (amt : Option Nat) (hamt : amt ≠ some 0) (dco : Option Bool) (hdc : dco.getD cfg.decodeDefault = true)
    (hnc : cfg.chunked = false) (r : R σ δ) (rest : Bytes) (hinv : Inv cfg rem I G r rest)
    (hfuelS : 2 * rest.length + 1 < cfg.fuel) (hfuel : (rem r.fp).length + 1 < cfg.fuel) :
    ∃ ps r', stream S D cfg r amt dco = ((ps, none), r') ∧ ps.flatten = rest ∧ (∀ x ∈ ps, x ≠ []) ∧
      Inv cfg rem I G r' [] := by
  obtain ⟨ps, r', h1, h2, h3⟩ := streamLoop_concat S D cfg hR hA hD hCN hCA hZ amt hamt dco hdc cfg.fuel r rest []
    hinv (by split <;> omega) hfuel
  have hs : stream S D cfg r amt dco = ((ps, none), r') := by
    unfold stream
    simp only [hnc, Bool.false_eq_true, if_false]
    simpa using h1
  refine ⟨ps, r', hs, h2, ?_, h3⟩
  have := stream_nonempty S D cfg r amt dco
  rw [hs] at this
  exact this

/-- **`C12_iter_concat`**: iterating over a non-chunked response (`__iter__` = `stream(65536)`
re-split on `\n`), started at any point of the body: terminates, never raises, yields no empty line
piece, and the pieces concatenate to exactly what was left (the re-splitting loses, duplicates and
reorders nothing: `flatten (iterSplit ps []) = flatten ps`) -/
theorem C12_iter_concat {σ δ : Type} (S : Src σ) (D : Dec δ) (cfg : Cfg δ)
    {rem : σ → Bytes} {I : σ → Option Int → Prop} {G : δ → Bytes → Bytes → Prop}
    (hR : RawReadSpec S cfg rem I) (hA : RawReadAllSpec S cfg rem I) (hD : StreamLaw D G)
    (hCN : ClosesN S cfg rem I) (hCA : ClosesAll S cfg I) (hZ : ClosedNil S rem I)
    (hnc : cfg.chunked = false) (r : R σ δ) (rest : Bytes) (hinv : Inv cfg rem I G r rest)
    (hfuelS : 2 * rest.length + 1 < cfg.fuel) (hfuel : (rem r.fp).length + 1 < cfg.fuel) :
    ∃ lines r', iter S D cfg r = ((lines, none), r') ∧ lines.flatten = rest ∧ (∀ x ∈ lines, x ≠ []) ∧
      Inv cfg rem I G r' [] := by
  obtain ⟨lines, r', h1, h2, h3⟩ := iter_concat S D cfg hR hA hD hCN hCA hZ hnc r rest hinv hfuelS hfuel
  refine ⟨lines, r', h1, h2, ?_, h3⟩
  have := iter_nonempty S D cfg r
  rw [h1] at this
  exact this

/-- the source hypotheses hold for `http.client` on every well-framed Content-Length or
close-delimited body (`HI`: not HEAD, not chunked, the promised bytes are there, `length_remaining`
in step), whatever the network segmentation: `_raw_read(n)` returns exactly the next
`min n |rest|` raw bytes, `_raw_read()` all of them, `_raw_read(n, read1=True)` a non-empty prefix of
at most `n` bytes (empty only at the end), none of them raises; a `_raw_read` at the end of the body
closes the file and a closed file has nothing left (the laws `stream` needs) -/
theorem C12_raw_read_exact {δ : Type} (cfg : Cfg δ) :
    RawReadSpec (δ := δ) hSrc cfg hRem HI ∧ RawReadAllSpec (δ := δ) hSrc cfg hRem HI ∧
    RawRead1Spec (δ := δ) hSrc cfg hRem HI ∧
    ClosesN (δ := δ) hSrc cfg hRem HI ∧ ClosesAll (δ := δ) hSrc cfg HI ∧ ClosedNil hSrc hRem HI :=
  ⟨hSrc_rawReadSpec cfg, hSrc_rawReadAllSpec cfg, hSrc_rawRead1Spec cfg,
   hSrc_closesN cfg, hSrc_closesAll cfg, hSrc_closedNil⟩

/-- **`zstd_multiframe`** (full, after the repair): `ZstdDecoder` obeys the streaming law for EVERY
byte-step `decompressobj` — feeding `a ++ b` is feeding `a` then `b`, wherever the frame boundaries
fall relative to the feed boundaries, and `flush` succeeds at the end of a whole number of frames -/
theorem C12_zstd_multiframe {ρ : Type} (O : RawObj ρ) : StreamLaw (zsDec O) (ZsG O) :=
  zsDec_streamLaw O

/-- **`gzip_multimember`** (full): `GzipDecoder` (first member / further members / trailing garbage
swallowed) obeys the streaming law for EVERY byte-step `decompressobj`: with `GzG g raw p` = "the
byte-wise member state machine `gzRun` is defined on `raw` and yields `p`" — any number of members,
a member boundary anywhere relative to the feed boundaries, an unfinished last member, trailing
garbage after the first member that fails before producing output — feeding any prefix delivers a
prefix of `p` and leaves a state that owes the rest; `flush` holds nothing back.  (Where `gzRun` is
undefined the real decoder raises or is genuinely split-dependent: garbage that decodes some bytes
and then fails loses the output of the failing call only.) -/
theorem C12_gzip_multimember {ρ : Type} (O : RawObj ρ) : StreamLaw (gzDec O) (GzG O) :=
  gzDec_streamLaw O

/-- **`deflate_fallback`** (full): `DeflateDecoder` (try zlib; on an error before the first output
switch to raw deflate and replay everything seen so far) obeys the streaming law for EVERY pair of
byte-step `decompressobj`s, wherever the feed boundaries fall relative to the point where the zlib
attempt fails -/
theorem C12_deflate_fallback {ρ : Type} (Oz Or : RawObj ρ) : StreamLaw (dfDec Oz Or) (DfG Oz Or) :=
  dfDec_streamLaw Oz Or

/-- **`multidecoder_order`** (full): a `MultiDecoder` over decoders obeying the streaming law obeys
it too — the codings are undone in reverse header order (`ChainG`: the last decoder sees the raw
bytes, the first delivers the payload), `flush` of the first decoder suffices at the end -/
theorem C12_multidecoder_order {δ : Type} (D : Dec δ) (G : δ → Bytes → Bytes → Prop)
    (hD : StreamLaw D G) : StreamLaw (multiDec D) (MultiG G) :=
  multiDec_streamLaw hD

/-- the decoder family the driver runs (`_get_decoder`: gzip / x-gzip, deflate, zstd and comma
lists of them over the stored-block / raw-block `decompressobj`s) obeys the streaming law -/
theorem C12_decoders_stream_law : StreamLaw cdDec CDGall := cdDec_streamLaw

/-- **`C12_concat` for `http.client` sources and urllib3's decoders** (no hypotheses left on source
or decoder): on every well-framed Content-Length or close-delimited response (`Inv … payload`: the
framing invariant `HI` and "buffer ++ what the decoder owes for the raw bytes to come = payload",
with `CDGall` = the byte-wise semantics of gzip incl. multi-member / deflate incl. raw fallback /
zstd incl. multi-frame / stacked codings), for every network segmentation and every interleaving of
`read()`, `read(0)`, `read(n)` (= `readinto(n)`), `read1()`, `read1(n)` with decoding on: no call
raises, one piece per call, pieces ++ final `read()` = decoded payload.
Still missing for the full `C12_concat`: see notes/C12.md "Still open". -/
theorem C12_concat_http_partial (cfg : Cfg CD) (dco : Option Bool) (hdc : dco.getD cfg.decodeDefault = true)
    (calls : List RCall) (r : R H CD) (payload : Bytes)
    (hinv : Inv cfg hRem HI CDGall r payload) (hfuel : (hRem r.fp).length + 1 < cfg.fuel) :
    ∃ outs r' last r'', callSeq hSrc cdDec cfg dco calls r = (.ok outs, r') ∧ outs.length = calls.length ∧
      read hSrc cdDec cfg r' none dco = (.ok last, r'') ∧ outs.flatten ++ last = payload :=
  C12_concat_partial hSrc cdDec cfg (hSrc_rawReadSpec cfg) (hSrc_rawReadAllSpec cfg) (hSrc_rawRead1Spec cfg)
    cdDec_streamLaw dco hdc calls r payload hinv hfuel

/-! non-vacuity of the decoder relations: two gzip members "hello" + "hello" followed by garbage;
a zlib stream and a raw-deflate stream (fallback with replay) of "hi"; the stack
`Content-Encoding: deflate, zstd` = zstd(raw-deflate("hi")) -/

example : GzG gzipO (Gz.new gzipO) (gzipHello ++ gzipHello ++ [0, 1, 2]) (lit "hellohello") :=
  GzG_of_gzOk gzipO _ _ _ rfl (by decide +kernel)

example : DfG zlibO rawO (Df.new zlibO) [0x78, 0x01, 1, 2, 0, 253, 255, 104, 105, 0x01, 0x3b, 0x00, 0xd2] (lit "hi") :=
  DfG_of_dfOk zlibO rawO _ _ _ (by decide +kernel)

example : DfG zlibO rawO (Df.new zlibO) [1, 2, 0, 253, 255, 104, 105] (lit "hi") :=
  DfG_of_dfOk zlibO rawO _ _ _ (by decide +kernel)

example : CDGall (.multi [.deflate (Df.new zlibO), .zstd (ZObj.fresh zstdObj)])
    [40, 181, 47, 253, 32, 7, 57, 0, 0, 1, 2, 0, 253, 255, 104, 105] (lit "hi") :=
  ⟨by simp, [1, 2, 0, 253, 255, 104, 105],
    ⟨_, rfl, ZsG_of_zsOk zstdObj _ _ _ rfl (by decide +kernel)⟩,
    DfG_of_dfOk zlibO rawO _ _ _ (by decide +kernel)⟩

/-- the `Content-Encoding: gzip`, `Content-Length: 28` response "hello" satisfies `Inv` with the
decoder `_init_decoder` installs, for the segmentation 3 -/
example : Inv cfgGzipHello hRem HI CDGall
    ({ fp := hBegin ⟨[], wireGzipHello, 3⟩ none (some (lit "28")) false 200 false,
       lengthRemaining := some 28, conn := true } : R H CD) (lit "hello") := by
  generalize hh : hBegin ⟨[], wireGzipHello, 3⟩ none (some (lit "28")) false 200 false = h
  have hfacts : h.head = false ∧ h.chunked = false ∧ h.closed = false ∧ h.length = some 28 ∧
      h.fp.map (·.content) = some gzipHello := by
    subst hh; decide +kernel
  obtain ⟨h1, h2, h3, h4, h5⟩ := hfacts
  obtain ⟨f, hf, hc⟩ : ∃ f, h.fp = some f ∧ f.content = gzipHello := by
    cases hf : h.fp with
    | none => rw [hf] at h5; cases h5
    | some f => rw [hf] at h5; exact ⟨f, rfl, by simpa using h5⟩
  have hrem : hRem h = gzipHello := by
    simp only [hRem, hf, h4, hc]; decide
  refine ⟨⟨⟨h1, h2, fun g hg => ⟨h3, fun l hl => ?_⟩⟩, Or.inl ?_⟩, lit "hello", ?_, rfl⟩
  · rw [hf] at hg; cases hg; rw [h4] at hl; cases hl; rw [hc]; decide
  · show some (28 : Int) = some ((hRem h).length : Int); rw [hrem]; decide
  · show CDGall (.one (.gzip (Gz.new gzipO))) (hRem h) (lit "hello")
    rw [hrem]
    exact GzG_of_gzOk gzipO _ _ _ rfl (by decide +kernel)

/-- **`C12_raw_read_exact`, chunked framing**: the source hypotheses hold for `http.client`'s own
chunk reader (`_read_chunked(amt)`, `_read1_chunked(n)`, `_get_chunk_left`, `_read_next_chunk_size`,
`_read_and_discard_trailer`) on every well-framed chunked body (`CI`: chunked, not HEAD, the
one-shot reference reader `refBody` accepts the bytes that are or will be there; `cRem` = what it
returns), for every network segmentation and every position inside the body (at a size line,
inside a chunk, before the CRLF that ends a chunk): `_raw_read(n)` = the next `min n |rest|` raw
bytes — across any number of chunk boundaries —, `_raw_read()` = all of them,
`_raw_read(n, read1=True)` = a non-empty prefix of at most `n` bytes within the current chunk; none
raises; and the closing laws `stream` needs -/
theorem C12_raw_read_exact_chunked {δ : Type} (cfg : Cfg δ) :
    RawReadSpec (δ := δ) hSrc cfg cRem CI ∧ RawReadAllSpec (δ := δ) hSrc cfg cRem CI ∧
    RawRead1Spec (δ := δ) hSrc cfg cRem CI ∧
    ClosesN (δ := δ) hSrc cfg cRem CI ∧ ClosesAll (δ := δ) hSrc cfg CI ∧ ClosedNil hSrc cRem CI :=
  ⟨hSrc_rawReadSpec_chunked cfg, hSrc_rawReadAllSpec_chunked cfg, hSrc_rawRead1Spec_chunked cfg,
   hSrc_closesN_chunked cfg, hSrc_closesAll_chunked cfg, hSrc_closedNil_chunked⟩

/-- **`C12_chunked_wellframed`**: what "well framed" covers and what the raw body then is — a
response whose wire holds ANY chunk vector (non-empty chunks of any sizes), each size line in ANY
spelling `http.client` accepts for that size (`SizeLineOk`: `int(line.split(b";")[0], 16)`, so hex in
either case, leading zeros, surrounding blanks, with or without chunk extensions), any two bytes
after each chunk, a last-chunk line, and anything after it (trailers, blank line, pipelined bytes)
satisfies `CI`, and its raw body `cRem` is the concatenation of the chunk data.  The usual
spellings `b"%x\r\n" % n` and `b"%x;" % n + ext + b"\r\n"` are size lines for `n`. -/
theorem C12_chunked_wellframed (h : H) (f : Fp) (cs : List WChunk) (last after : Bytes)
    (hh : h.head = false) (hc : h.chunked = true) (hcl : h.closed = false) (hf : h.fp = some f)
    (hl : h.chunkLeft = none) (hcont : f.content = encChunks cs last after)
    (hcs : ∀ c ∈ cs, c.ok) (hlast : SizeLineOk last 0) :
    CI h none ∧ cRem h = (cs.map WChunk.data).flatten ∧
    (∀ n, SizeLineOk (hexDigits n ++ crlf) n) ∧
    (∀ n ext, LF ∉ ext → SizeLineOk (hexDigits n ++ 59 :: (ext ++ crlf)) n) := by
  obtain ⟨h1, h2⟩ := CInv_of_encoded h f cs last after hh hc hcl hf hl hcont hcs hlast
  exact ⟨⟨h1, rfl⟩, h2, sizeLineOk_hex, sizeLineOk_hex_ext⟩

example : (⟨lit "5;x=y\r\n", lit "hello", crlf⟩ : WChunk).ok := by
  refine ⟨⟨⟨lit "5;x=y\r", by decide, by decide⟩, by decide⟩, by decide, by decide⟩

example : SizeLineOk (lit "0\r\n") 0 := ⟨⟨lit "0\r", by decide, by decide⟩, by decide⟩

/-- **`C12_concat` for chunked `http.client` sources and urllib3's decoders**: on every well-framed
chunked response (`Inv … cRem CI CDGall … payload`), for every network segmentation and every
interleaving of `read()`, `read(0)`, `read(n)` (= `readinto(n)`), `read1()`, `read1(n)` with
decoding on: no call raises, one piece per call, pieces ++ final `read()` = decoded payload -/
theorem C12_concat_http_chunked_partial (cfg : Cfg CD) (dco : Option Bool) (hdc : dco.getD cfg.decodeDefault = true)
    (calls : List RCall) (r : R H CD) (payload : Bytes)
    (hinv : Inv cfg cRem CI CDGall r payload) (hfuel : (cRem r.fp).length + 1 < cfg.fuel) :
    ∃ outs r' last r'', callSeq hSrc cdDec cfg dco calls r = (.ok outs, r') ∧ outs.length = calls.length ∧
      read hSrc cdDec cfg r' none dco = (.ok last, r'') ∧ outs.flatten ++ last = payload :=
  C12_concat_partial hSrc cdDec cfg (hSrc_rawReadSpec_chunked cfg) (hSrc_rawReadAllSpec_chunked cfg)
    (hSrc_rawRead1Spec_chunked cfg) cdDec_streamLaw dco hdc calls r payload hinv hfuel

/-- … and with decoding off: the pieces are the de-chunked raw body, whatever the `Content-Encoding` -/
theorem C12_concat_raw_http_chunked_partial (cfg : Cfg CD) (dco : Option Bool) (hdc : dco.getD cfg.decodeDefault = false)
    (calls : List RCall) (r : R H CD) (raw : Bytes) (hinv : RawInv cRem CI r raw) :
    ∃ outs r' last r'', callSeq hSrc cdDec cfg dco calls r = (.ok outs, r') ∧ outs.length = calls.length ∧
      read hSrc cdDec cfg r' none dco = (.ok last, r'') ∧ outs.flatten ++ last = raw :=
  C12_concat_raw_partial hSrc cdDec cfg (hSrc_rawReadSpec_chunked cfg) (hSrc_rawReadAllSpec_chunked cfg)
    (hSrc_rawRead1Spec_chunked cfg) dco hdc calls r raw hinv

/-- non-vacuity: the chunked gzip response `wireChunkedGzipHello` (three chunks of 10 / 10 / 8
bytes, one with a chunk extension, a trailer) satisfies `Inv` for segmentation 3 … -/
example : Inv cfgGzipChunked cRem CI CDGall
    ({ fp := hBegin ⟨[], wireChunkedGzipHello, 3⟩ (some (lit "chunked")) none false 200 false,
       lengthRemaining := none, conn := true } : R H CD) (lit "hello") := by
  generalize hh : hBegin ⟨[], wireChunkedGzipHello, 3⟩ (some (lit "chunked")) none false 200 false = h
  have hfacts : h.head = false ∧ h.chunked = true ∧ h.closed = false ∧ h.chunkLeft = none ∧
      h.fp.map (·.content) = some chunkedGzipHello := by
    subst hh; decide +kernel
  obtain ⟨h1, h2, h3, h4, h5⟩ := hfacts
  obtain ⟨f, hf, hc⟩ : ∃ f, h.fp = some f ∧ f.content = chunkedGzipHello := by
    cases hf : h.fp with
    | none => rw [hf] at h5; cases h5
    | some f => rw [hf] at h5; exact ⟨f, rfl, by simpa using h5⟩
  have href : refBody none chunkedGzipHello = some gzipHello := by decide +kernel
  have hrem : cRem h = gzipHello := by simp [cRem, hf, h4, hc, href]
  refine ⟨⟨⟨h1, h2, fun g hg => ⟨h3, ?_⟩⟩, rfl⟩, lit "hello", ?_, rfl⟩
  · rw [hf] at hg; cases hg; rw [h4, hc, href]; rfl
  · show CDGall (.one (.gzip (Gz.new gzipO))) (cRem h) (lit "hello")
    rw [hrem]
    exact GzG_of_gzOk gzipO _ _ _ rfl (by decide +kernel)

/-- … on which the model computes what the theorems say: `read(2)`, `read1()`, `read(0)`, `read()` -/
example : out (callSeq hSrc cdDec cfgGzipChunked (some true)
      [.read (some 2), .read1 none, .read (some 0), .read none]
      ({ fp := hBegin ⟨[], wireChunkedGzipHello, 3⟩ (some (lit "chunked")) none false 200 false,
         lengthRemaining := none, conn := true } : R H CD)) = some [lit "he", lit "l", [], lit "lo"] := by
  decide +kernel

/-- **`C12_concat` over the whole API** (non-chunked bodies; partial only in the framing): for every
list of calls over `read()`, `read(0)`, `read(n)`, `read1()`, `read1(n)`, `readinto(k)` (which has no
`decode_content` parameter and uses the response default), `stream(n)` / `stream(None)` and
iteration — the generators run to completion — in ANY interleaving, with decoding on: no call
raises, every call returns its list of pieces, and all pieces in order followed by a final `read()`
are the decoded payload.  (`stream(0)` is excluded: it never terminates, by design of `read(0)`.  A
generator abandoned half-way on a non-chunked body is a sequence of `read(amt)` calls.) -/
theorem C12_concat_api_partial {σ δ : Type} (S : Src σ) (D : Dec δ) (cfg : Cfg δ)
    {rem : σ → Bytes} {I : σ → Option Int → Prop} {G : δ → Bytes → Bytes → Prop}
    (hR : RawReadSpec S cfg rem I) (hA : RawReadAllSpec S cfg rem I) (hR1 : RawRead1Spec S cfg rem I)
    (hD : StreamLaw D G) (hCN : ClosesN S cfg rem I) (hCA : ClosesAll S cfg I) (hZ : ClosedNil S rem I)
    (dco : Option Bool) (hdc : dco.getD cfg.decodeDefault = true) (hdef : cfg.decodeDefault = true)
    (hnc : cfg.chunked = false) (calls : List Call) (hcs : ∀ c ∈ calls, c ≠ .stream (some 0))
    (r : R σ δ) (payload : Bytes) (hinv : Inv cfg rem I G r payload)
    (hfuelS : 2 * payload.length + 1 < cfg.fuel) (hfuel : (rem r.fp).length + 1 < cfg.fuel) :
    ∃ pss r' last r'', callSeqG S D cfg dco calls r = ((pss, none), r') ∧ pss.length = calls.length ∧
      read S D cfg r' none dco = (.ok last, r'') ∧ pss.flatten.flatten ++ last = payload := by
  obtain ⟨pss, r', rest', h1, hinv', hcat, hlen⟩ :=
    callSeqG_concat S D cfg hR hA hR1 hD hCN hCA hZ dco hdc hdef hnc calls r payload hcs hinv hfuelS hfuel
  obtain ⟨r'', h2, _⟩ := read_all_spec S D cfg hA hD r' rest' dco false hdc hinv'
  exact ⟨pss, r', rest', r'', h1, hlen, h2, hcat⟩

/-- … and with decoding off from the start (`RawInv`; iteration always decodes and is not a member;
`readinto` follows the response default, hence `cfg.decodeDefault = false`): all pieces in order
followed by a final `read()` are the transfer-decoded raw payload -/
theorem C12_concat_api_raw_partial {σ δ : Type} (S : Src σ) (D : Dec δ) (cfg : Cfg δ)
    {rem : σ → Bytes} {I : σ → Option Int → Prop}
    (hR : RawReadSpec S cfg rem I) (hA : RawReadAllSpec S cfg rem I) (hR1 : RawRead1Spec S cfg rem I)
    (hCN : ClosesN S cfg rem I) (hCA : ClosesAll S cfg I) (hZ : ClosedNil S rem I)
    (dco : Option Bool) (hdc : dco.getD cfg.decodeDefault = false) (hdef : cfg.decodeDefault = false)
    (hnc : cfg.chunked = false) (calls : List Call) (hcs : ∀ c ∈ calls, c ≠ .stream (some 0) ∧ c ≠ .iter)
    (r : R σ δ) (raw : Bytes) (hinv : RawInv rem I r raw) (hfuelS : 2 * raw.length + 1 < cfg.fuel) :
    ∃ pss r' last r'', callSeqG S D cfg dco calls r = ((pss, none), r') ∧ pss.length = calls.length ∧
      read S D cfg r' none dco = (.ok last, r'') ∧ pss.flatten.flatten ++ last = raw := by
  obtain ⟨pss, r', raw', h1, hinv', hcat, hlen⟩ :=
    callSeqG_concat_raw S D cfg hR hA hR1 hCN hCA hZ dco hdc hdef hnc calls r raw hcs hinv hfuelS
  obtain ⟨r'', h2, _⟩ := read_raw_none S D cfg hA dco hdc r' raw' hinv'
  exact ⟨pss, r', raw', r'', h1, hlen, h2, hcat⟩

/-- how `Inv` starts: on a response nothing has been read from (no decoder installed yet, empty
buffer) the invariant says exactly "the framing is intact and the decoder `_init_decoder` will
install (`cfg.newDecoder`, none for identity) makes `payload` of the raw body" -/
theorem C12_inv_at_start {σ δ : Type} (cfg : Cfg δ) {rem : σ → Bytes} {I : σ → Option Int → Prop}
    {G : δ → Bytes → Bytes → Prop} (r : R σ δ) (payload : Bytes)
    (hdec : r.decoder = none) (hbuf : r.buf = []) :
    Inv cfg rem I G r payload ↔
      (I r.fp r.lengthRemaining ∧ Owes G cfg.newDecoder (rem r.fp) payload) := by
  constructor
  · rintro ⟨hI, p, hO, hp⟩
    rw [hbuf] at hp
    have : p = payload := by simpa [bqAll] using hp
    subst this
    refine ⟨hI, ?_⟩
    rw [hdec] at hO
    exact hO
  · rintro ⟨hI, hO⟩
    refine ⟨hI, payload, ?_, by rw [hbuf]; rfl⟩
    rw [hdec]
    exact hO

/-- … evaluated on the two-frame zstd response: `readinto(1)`, `read(0)`, `stream(1)`, iteration, `read1()` -/
example :
    (callSeqG hSrc cdDec cfgZstdAA (some true) [.readinto 1, .read (some 0), .stream (some 1), .iter, .read1 none]
      ({ fp := hBegin ⟨[], wireZstdAA, 3⟩ none (some (lit "20")) false 200 false,
         lengthRemaining := some 20, conn := true } : R H CD)).1 =
      ([[lit "a"], [[]], [lit "a"], [], [[]]], none) := by
  decide +kernel

/-- **`C12_read_chunked_concat`**: `read_chunked(amt)` / `stream(amt)` (`amt ≠ 0`, decoding on) run
by urllib3's own chunk parser from the start of a well-framed chunked body — ANY chunk vector,
size-line spelling, chunk extensions, trailers (`CI` / `cRem`: the same reference reader as for
`http.client`), any decoder obeying the `StreamLaw`, any segmentation, `amt` smaller or larger than
the chunks: terminates, never raises, yields no empty piece, the pieces concatenate to the decoded
payload, the file ends up closed and the response at its end (`Inv … []`: every later `read` /
`read1` returns b"", `C12_after_end_empty`) -/
theorem C12_read_chunked_concat {δ : Type} (D : Dec δ) (cfg : Cfg δ) {G : δ → Bytes → Bytes → Prop}
    (hD : StreamLaw D G) (amt : Option Nat) (hamt : amt ≠ some 0)
    (hch : cfg.chunked = true) (hhd : cfg.head = false) (r : R H δ) (payload : Bytes)
    (hinv : Inv cfg cRem CI G r payload) (hfr : Fresh r)
    (hfuel : ∀ f, r.fp.fp = some f → f.content.length < cfg.fuel) :
    ∃ ps r', readChunked hSrc D cfg r amt true = ((ps, none), r') ∧
      stream hSrc D cfg r amt (some true) = ((ps, none), r') ∧
      ps.flatten = payload ∧ (∀ x ∈ ps, x ≠ []) ∧ Inv cfg cRem CI G r' [] ∧ hSrc.isclosed r'.fp = true := by
  obtain ⟨ps, r', h1, h2, h3, h4⟩ := readChunked_on D cfg hD amt hamt hch hhd r payload hinv hfr hfuel
  refine ⟨ps, r', h1, by simp [stream, hch, h1], h2, ?_, h3, h4⟩
  have := readChunked_nonempty hSrc D cfg r amt true
  rw [h1] at this
  exact this

/-- … with `decode_content=False`: the pieces concatenate to the de-chunked raw body -/
theorem C12_read_chunked_raw_concat {δ : Type} (D : Dec δ) (cfg : Cfg δ)
    (amt : Option Nat) (hamt : amt ≠ some 0) (hch : cfg.chunked = true) (hhd : cfg.head = false)
    (r : R H δ) (raw : Bytes) (hinv : RawInv cRem CI r raw) (hfr : Fresh r)
    (hfuel : ∀ f, r.fp.fp = some f → f.content.length < cfg.fuel) :
    ∃ ps r', readChunked hSrc D cfg r amt false = ((ps, none), r') ∧
      stream hSrc D cfg r amt (some false) = ((ps, none), r') ∧ ps.flatten = raw ∧ (∀ x ∈ ps, x ≠ []) := by
  obtain ⟨ps, r', h1, h2, _⟩ := readChunked_raw D cfg amt hamt hch hhd r raw hinv hfr hfuel
  refine ⟨ps, r', h1, by simp [stream, hch, h1], h2, ?_⟩
  have := readChunked_nonempty hSrc D cfg r amt false
  rw [h1] at this
  exact this

/-- **`C12_iter_chunked_concat`**: iteration over a well-framed chunked response from the start:
terminates, never raises, no empty line piece, the pieces concatenate to the decoded payload -/
theorem C12_iter_chunked_concat {δ : Type} (D : Dec δ) (cfg : Cfg δ) {G : δ → Bytes → Bytes → Prop}
    (hD : StreamLaw D G) (hch : cfg.chunked = true) (hhd : cfg.head = false) (r : R H δ) (payload : Bytes)
    (hinv : Inv cfg cRem CI G r payload) (hfr : Fresh r)
    (hfuel : ∀ f, r.fp.fp = some f → f.content.length < cfg.fuel) :
    ∃ lines r', iter hSrc D cfg r = ((lines, none), r') ∧ lines.flatten = payload ∧ (∀ x ∈ lines, x ≠ []) ∧
      Inv cfg cRem CI G r' [] := by
  obtain ⟨ps, r', h1, h2, h3, _⟩ := readChunked_on D cfg hD (some 65536) (by simp) hch hhd r payload hinv hfr hfuel
  have hs : stream hSrc D cfg r (some 65536) (some true) = ((ps, none), r') := by simp [stream, hch, h1]
  have hi : iter hSrc D cfg r = ((iterSplit ps [], none), r') := by unfold iter; rw [hs]
  refine ⟨iterSplit ps [], r', hi, by rw [iterSplit_flatten, h2]; rfl, ?_, h3⟩
  have := iter_nonempty hSrc D cfg r
  rw [hi] at this
  exact this

/-- **`C12_gzip_stored_family`**: for EVERY list of payloads (each at most 65535 bytes), the
stored-block gzip stream `gzStream ps` (one member per payload: header, final stored block, CRC-32,
ISIZE — what `zlib` produces at level 0 for short inputs) stands in the relation `GzG` / `CDGall`
to the concatenated payload: the hypothesis `Inv` of the theorems above is met by real gzip bytes for
all payloads and member counts, not only by evaluated examples -/
theorem C12_gzip_stored_family (ps : List Bytes) (hps : ∀ p ∈ ps, p.length ≤ 65535 ∧ ∀ b ∈ p, b < 256) :
    GzG gzipO (Gz.new gzipO) (gzStream ps) ps.flatten ∧
    CDGall (.one (.gzip (Gz.new gzipO))) (gzStream ps) ps.flatten :=
  ⟨GzG_gzStream ps hps, GzG_gzStream ps hps⟩

/-- … so a fresh `Content-Encoding: gzip` response whose *chunked* body carries `gzStream ps` in ANY
chunk vector (any size-line spellings, extensions, trailers) satisfies `Inv` for the payload
`ps.flatten` — every hypothesis of `C12_concat` (b) is discharged for all payloads and chunkings -/
theorem C12_inv_gzip_chunked (cfg : Cfg CD) (hnd : cfg.newDecoder = some (.one (.gzip (Gz.new gzipO))))
    (r : R H CD) (f : Fp) (cs : List WChunk) (last after : Bytes) (ps : List Bytes)
    (hdec : r.decoder = none) (hbuf : r.buf = []) (hlr : r.lengthRemaining = none) (hcl0 : r.chunkLeft = none)
    (hh : r.fp.head = false) (hc : r.fp.chunked = true) (hcl : r.fp.closed = false) (hf : r.fp.fp = some f)
    (hl : r.fp.chunkLeft = none) (hcont : f.content = encChunks cs last after)
    (hcs : ∀ c ∈ cs, c.ok) (hlast : SizeLineOk last 0)
    (hdata : (cs.map WChunk.data).flatten = gzStream ps)
    (hps : ∀ p ∈ ps, p.length ≤ 65535 ∧ ∀ b ∈ p, b < 256) :
    Inv cfg cRem CI CDGall r ps.flatten ∧ Fresh r := by
  obtain ⟨h1, h2⟩ := CInv_of_encoded r.fp f cs last after hh hc hcl hf hl hcont hcs hlast
  refine ⟨(C12_inv_at_start cfg r ps.flatten hdec hbuf).mpr ⟨⟨h1, hlr⟩, ?_⟩, ⟨by rw [hbuf]; rfl, hcl0, hl⟩⟩
  rw [hnd, h2, hdata]
  exact GzG_gzStream ps hps

/-- … and likewise with a `Content-Length` (or, with `length = none`, close-delimited) framing -/
theorem C12_inv_gzip_length (cfg : Cfg CD) (hnd : cfg.newDecoder = some (.one (.gzip (Gz.new gzipO))))
    (r : R H CD) (f : Fp) (ps : List Bytes)
    (hdec : r.decoder = none) (hbuf : r.buf = [])
    (hh : r.fp.head = false) (hc : r.fp.chunked = false) (hcl : r.fp.closed = false) (hf : r.fp.fp = some f)
    (hcont : f.content = gzStream ps)
    (hlen : (r.fp.length = some (gzStream ps).length ∧ r.lengthRemaining = some ((gzStream ps).length : Int)) ∨
            (r.fp.length = none ∧ r.lengthRemaining = none))
    (hps : ∀ p ∈ ps, p.length ≤ 65535 ∧ ∀ b ∈ p, b < 256) :
    Inv cfg hRem HI CDGall r ps.flatten := by
  have hrem : hRem r.fp = gzStream ps := by
    rcases hlen with ⟨h1, _⟩ | ⟨h1, _⟩
    · simp [hRem, hf, h1, hcont]
    · simp [hRem, hf, h1, hcont]
  refine (C12_inv_at_start cfg r ps.flatten hdec hbuf).mpr ⟨⟨⟨hh, hc, fun g hg => ⟨hcl, fun l hl => ?_⟩⟩, ?_⟩, ?_⟩
  · rw [hf] at hg; cases hg
    rcases hlen with ⟨h1, _⟩ | ⟨h1, _⟩
    · rw [h1] at hl; cases hl; rw [hcont]; exact Nat.le_refl _
    · rw [h1] at hl; cases hl
  · rcases hlen with ⟨_, h2⟩ | ⟨h1, h2⟩
    · left; rw [h2, hrem]
    · right; exact ⟨h2, Or.inr h1⟩
  · rw [hnd, hrem]
    exact GzG_gzStream ps hps

example : ∀ p ∈ [lit "hello", [], lit "!"], p.length ≤ 65535 ∧ ∀ b ∈ p, b < 256 := by decide

/-- **`C12_concat`** — the headline, for responses read through `http.client` (`hSrc`) with
urllib3's decoders (`cdDec`), decoding on, in the reading of DESIGN §6 "Interpretation":

(a) *Content-Length / close-delimited framing* (`Inv … hRem HI …`): EVERY interleaving of
`read()`, `read(0)`, `read(n)`, `read1()`, `read1(n)`, `readinto(k)`, `stream(n)`, `stream(None)` and
iteration: no call raises and all pieces in order, followed by a final `read()`, are the payload.

(b) *chunked framing* (`Inv … cRem CI …`): every interleaving of the `read` / `read1` family
(through `http.client`'s chunk reader); and, from the start of the body (`Fresh`), each whole-body
consumer `read_chunked(amt)` = `stream(amt)` (`amt ≠ 0`) and iteration (urllib3's own chunk parser):
the pieces are the payload and every `read` / `read1` call afterwards returns b"".  (Switching
between the two chunk parsers in mid-body is outside the quantified domain, DESIGN §6.)

`payload` is tied to the wire by `Inv` (`C12_inv_at_start`): `CDGall` = byte-wise semantics of gzip
incl. multi-member and trailing garbage / deflate incl. raw fallback / zstd incl. multi-frame /
stacked codings over the stored-block / raw-block `decompressobj`s; `HI` / `CI` = intact framing for
any body, any chunk vector, size-line spelling, extension, trailer (`C12_chunked_wellframed`), any
network segmentation.  The fuel hypotheses only say that the model's loop bounds exceed the sizes
involved (the driver uses 64·|wire| + 100000).  Decoding off: `C12_concat_api_raw_partial`,
`C12_concat_raw_http_chunked_partial`, `C12_read_chunked_raw_concat`. -/
theorem C12_concat (cfg : Cfg CD) (r : R H CD) (payload : Bytes) (hdef : cfg.decodeDefault = true)
    (hhd : cfg.head = false) :
    (cfg.chunked = false → Inv cfg hRem HI CDGall r payload →
      2 * payload.length + 1 < cfg.fuel → (hRem r.fp).length + 1 < cfg.fuel →
      ∀ calls : List Call, (∀ c ∈ calls, c ≠ .stream (some 0)) →
        ∃ pss r' last r'', callSeqG hSrc cdDec cfg (some true) calls r = ((pss, none), r') ∧
          pss.length = calls.length ∧ read hSrc cdDec cfg r' none (some true) = (.ok last, r'') ∧
          pss.flatten.flatten ++ last = payload) ∧
    (cfg.chunked = true → Inv cfg cRem CI CDGall r payload →
      (cRem r.fp).length + 1 < cfg.fuel → (∀ f, r.fp.fp = some f → f.content.length < cfg.fuel) →
      (∀ calls : List RCall,
        ∃ outs r' last r'', callSeq hSrc cdDec cfg (some true) calls r = (.ok outs, r') ∧
          outs.length = calls.length ∧ read hSrc cdDec cfg r' none (some true) = (.ok last, r'') ∧
          outs.flatten ++ last = payload) ∧
      (Fresh r → ∀ amt : Option Nat, amt ≠ some 0 →
        ∃ ps lines r', readChunked hSrc cdDec cfg r amt true = ((ps, none), r') ∧
          stream hSrc cdDec cfg r amt (some true) = ((ps, none), r') ∧ ps.flatten = payload ∧
          (iter hSrc cdDec cfg r).1 = (lines, none) ∧ lines.flatten = payload ∧
          ∀ tail : List RCall, ∃ outs r'', callSeq hSrc cdDec cfg (some true) tail r' = (.ok outs, r'') ∧
            outs.length = tail.length ∧ outs.flatten = [])) := by
  have hdc : (some true : Option Bool).getD cfg.decodeDefault = true := rfl
  refine ⟨fun hnc hinv hfS hf calls hcs => ?_, fun hch hinv hf hfc => ⟨fun calls => ?_, fun hfr amt hamt => ?_⟩⟩
  · exact C12_concat_api_partial hSrc cdDec cfg (hSrc_rawReadSpec cfg) (hSrc_rawReadAllSpec cfg)
      (hSrc_rawRead1Spec cfg) cdDec_streamLaw (hSrc_closesN cfg) (hSrc_closesAll cfg) hSrc_closedNil
      (some true) hdc hdef hnc calls hcs r payload hinv hfS hf
  · exact C12_concat_http_chunked_partial cfg (some true) hdc calls r payload hinv hf
  · obtain ⟨ps, r', h1, h2, h3, _, h5, h6⟩ :=
      C12_read_chunked_concat cdDec cfg cdDec_streamLaw amt hamt hch hhd r payload hinv hfr hfc
    obtain ⟨lines, ri, i1, i2, _⟩ :=
      C12_iter_chunked_concat cdDec cfg cdDec_streamLaw hch hhd r payload hinv hfr hfc
    refine ⟨ps, lines, r', h1, h2, h3, by rw [i1], i2, fun tail => ?_⟩
    have hrem : cRem r'.fp = [] := hSrc_closedNil_chunked r'.fp r'.lengthRemaining h5.framing h6
    obtain ⟨outs, r'', rest', e1, _, e3, e4, _⟩ :=
      callSeq_concat hSrc cdDec cfg (hSrc_rawReadSpec_chunked cfg) (hSrc_rawReadAllSpec_chunked cfg)
        (hSrc_rawRead1Spec_chunked cfg) cdDec_streamLaw (some true) hdc tail r' [] h5
        (by rw [hrem]; simp only [List.length_nil]; omega)
    exact ⟨outs, r'', e1, e4, (List.append_eq_nil_iff.mp e3).1⟩

/-- non-vacuity: the chunked gzip response is `Fresh`, and `stream(7)` / `read_chunked(None)` /
iteration on it yield "hello" -/
example : Fresh
    ({ fp := hBegin ⟨[], wireChunkedGzipHello, 3⟩ (some (lit "chunked")) none false 200 false,
       lengthRemaining := none, conn := true } : R H CD) := ⟨rfl, rfl, by decide +kernel⟩

example :
    let r0 : R H CD := { fp := hBegin ⟨[], wireChunkedGzipHello, 3⟩ (some (lit "chunked")) none false 200 false,
                         lengthRemaining := none, conn := true }
    let cfg : Cfg CD := cfgGzipChunked
    (stream hSrc cdDec cfg r0 (some 7) (some true)).1 = ([lit "he", lit "llo"], none) ∧
    (readChunked hSrc cdDec cfg r0 none true).1 = ([lit "hello"], none) ∧
    (iter hSrc cdDec cfg r0).1 = ([lit "hello"], none) := by
  decide +kernel

/-! non-vacuity of the hypotheses of the theorems above: the `Content-Length: 20`,
`Content-Encoding: zstd` response carrying two frames "a" + "a", any segmentation `seg` -/

example : StreamLaw cdDec CDG := cdDec_streamLaw_zstd

example : Inv cfgZstdAA hRem HI CDG
    ({ fp := hBegin ⟨[], wireZstdAA, 3⟩ none (some (lit "20")) false 200 false,
       lengthRemaining := some 20, conn := true } : R H CD) (lit "aa") := by
  generalize hh : hBegin ⟨[], wireZstdAA, 3⟩ none (some (lit "20")) false 200 false = h
  have hfacts : h.head = false ∧ h.chunked = false ∧ h.closed = false ∧ h.length = some 20 ∧
      h.fp.map (·.content) = some (zstdFrameA ++ zstdFrameA) := by
    subst hh; decide +kernel
  obtain ⟨h1, h2, h3, h4, h5⟩ := hfacts
  obtain ⟨f, hf, hc⟩ : ∃ f, h.fp = some f ∧ f.content = zstdFrameA ++ zstdFrameA := by
    cases hf : h.fp with
    | none => rw [hf] at h5; cases h5
    | some f => rw [hf] at h5; exact ⟨f, rfl, by simpa using h5⟩
  have hrem : hRem h = zstdFrameA ++ zstdFrameA := by
    simp only [hRem, hf, h4, hc]; decide
  refine ⟨⟨⟨h1, h2, fun g hg => ⟨h3, fun l hl => ?_⟩⟩, Or.inl ?_⟩, lit "aa", ?_, rfl⟩
  · rw [hf] at hg; cases hg; rw [h4] at hl; cases hl; rw [hc]; decide
  · show some (20 : Int) = some ((hRem h).length : Int); rw [hrem]; decide
  · show CDG (.one (.zstd (ZObj.fresh zstdObj))) (hRem h) (lit "aa")
    rw [hrem]
    exact ZsG_of_zsOk zstdObj _ _ _ rfl (by decide +kernel)

/-- the same response satisfies `RawInv` (decoding off): what is left is the raw body -/
example : RawInv hRem HI
    ({ fp := hBegin ⟨[], wireZstdAA, 3⟩ none (some (lit "20")) false 200 false,
       lengthRemaining := some 20, conn := true } : R H CD) (zstdFrameA ++ zstdFrameA) := by
  generalize hh : hBegin ⟨[], wireZstdAA, 3⟩ none (some (lit "20")) false 200 false = h
  have hfacts : h.head = false ∧ h.chunked = false ∧ h.closed = false ∧ h.length = some 20 ∧
      h.fp.map (·.content) = some (zstdFrameA ++ zstdFrameA) := by
    subst hh; decide +kernel
  obtain ⟨h1, h2, h3, h4, h5⟩ := hfacts
  obtain ⟨f, hf, hc⟩ : ∃ f, h.fp = some f ∧ f.content = zstdFrameA ++ zstdFrameA := by
    cases hf : h.fp with
    | none => rw [hf] at h5; cases h5
    | some f => rw [hf] at h5; exact ⟨f, rfl, by simpa using h5⟩
  have hrem : hRem h = zstdFrameA ++ zstdFrameA := by
    simp only [hRem, hf, h4, hc]; decide
  refine ⟨⟨⟨h1, h2, fun g hg => ⟨h3, fun l hl => ?_⟩⟩, Or.inl ?_⟩, rfl, rfl, hrem⟩
  · rw [hf] at hg; cases hg; rw [h4] at hl; cases hl; rw [hc]; decide
  · show some (20 : Int) = some ((hRem h).length : Int); rw [hrem]; decide

/-- … on which the model computes what the theorems say: `read(1)`, `read(0)`, `read1()`, `read()` -/
example : out (callSeq hSrc cdDec cfgZstdAA (some true) [.read (some 1), .read (some 0), .read1 none, .read none]
      ({ fp := hBegin ⟨[], wireZstdAA, 3⟩ none (some (lit "20")) false 200 false,
         lengthRemaining := some 20, conn := true } : R H CD)) = some [lit "a", [], lit "a", []] := by
  decide +kernel

/-- … and `stream(None)` / `stream(1)` after a partial `read(1)` on it -/
example :
    let r0 : R H CD := { fp := hBegin ⟨[], wireZstdAA, 3⟩ none (some (lit "20")) false 200 false,
                         lengthRemaining := some 20, conn := true }
    let s1 := read hSrc cdDec cfgZstdAA r0 (some 1) (some true)
    (stream hSrc cdDec cfgZstdAA s1.2 none (some true)).1 = ([lit "a"], none) ∧
    (stream hSrc cdDec cfgZstdAA r0 (some 1) (some true)).1 = ([lit "a", lit "a"], none) := by
  decide +kernel

/-- **`C12_drain_leaves_nothing`**: `drain_conn()` (= `read()` with the result thrown away and
urllib3 / socket errors swallowed) called at ANY point of a well-framed body — also with decoded
bytes waiting in the buffer after partial reads — returns without an exception and leaves the
response at its end: every later call of the `read` / `read1` family, in any interleaving, returns
b"".  For ANY source obeying the read specs and ANY decoder obeying the streaming law (or none). -/
theorem C12_drain_leaves_nothing {σ δ : Type} (S : Src σ) (D : Dec δ) (cfg : Cfg δ)
    {rem : σ → Bytes} {I : σ → Option Int → Prop} {G : δ → Bytes → Bytes → Prop}
    (hR : RawReadSpec S cfg rem I) (hA : RawReadAllSpec S cfg rem I) (hR1 : RawRead1Spec S cfg rem I)
    (hD : StreamLaw D G) (hdef : cfg.decodeDefault = true)
    (dco : Option Bool) (hdc : dco.getD cfg.decodeDefault = true)
    (r : R σ δ) (rest : Bytes) (hinv : Inv cfg rem I G r rest) (hfuel : 1 < cfg.fuel) :
    ∃ r', drainConn S D cfg r = (.ok (), r') ∧ Inv cfg rem I G r' [] ∧
      ∀ tail : List RCall, ∃ outs r'', callSeq S D cfg dco tail r' = (.ok outs, r'') ∧
        outs.length = tail.length ∧ outs.flatten = [] := by
  obtain ⟨r', h1, hinv', hrem⟩ := drainConn_spec S D cfg hA hD hdef r rest hinv
  refine ⟨r', h1, hinv', fun tail => ?_⟩
  obtain ⟨outs, r'', rest', e1, _, e3, e4, _⟩ :=
    callSeq_concat S D cfg hR hA hR1 hD dco hdc tail r' [] hinv' (by rw [hrem]; simpa using hfuel)
  exact ⟨outs, r'', e1, e4, (List.append_eq_nil_iff.mp e3).1⟩

/-- … and with `decode_content=False` throughout (`RawInv`: nothing decoded so far) -/
theorem C12_drain_leaves_nothing_raw {σ δ : Type} (S : Src σ) (D : Dec δ) (cfg : Cfg δ)
    {rem : σ → Bytes} {I : σ → Option Int → Prop}
    (hR : RawReadSpec S cfg rem I) (hA : RawReadAllSpec S cfg rem I) (hR1 : RawRead1Spec S cfg rem I)
    (hdef : cfg.decodeDefault = false) (dco : Option Bool) (hdc : dco.getD cfg.decodeDefault = false)
    (r : R σ δ) (raw : Bytes) (hinv : RawInv rem I r raw) :
    ∃ r', drainConn S D cfg r = (.ok (), r') ∧ RawInv rem I r' [] ∧
      ∀ tail : List RCall, ∃ outs r'', callSeq S D cfg dco tail r' = (.ok outs, r'') ∧
        outs.length = tail.length ∧ outs.flatten = [] := by
  obtain ⟨r', h1, hinv'⟩ := drainConn_spec_raw S D cfg hA hdef r raw hinv
  refine ⟨r', h1, hinv', fun tail => ?_⟩
  obtain ⟨outs, r'', raw', e1, _, e3, e4⟩ := callSeq_concat_raw S D cfg hR hA hR1 dco hdc tail r' [] hinv'
  exact ⟨outs, r'', e1, e4, (List.append_eq_nil_iff.mp e3).1⟩

/-- **`C12_drain_after_calls`** — `drain_conn()` after any interleaving, for responses read through
`http.client` with urllib3's decoders, decoding on (the domain of `C12_concat`):
(a) Content-Length / close-delimited framing: after EVERY interleaving of `read()`, `read(0)`,
`read(n)`, `read1()`, `read1(n)`, `readinto(k)`, `stream(n)`, `stream(None)` and iteration;
(b) chunked framing: after every interleaving of the `read` / `read1` family (`drain_conn` is `read()`:
`http.client`'s chunk reader);
`drain_conn()` returns without an exception and every later `read` / `read1` call returns b"". -/
theorem C12_drain_after_calls (cfg : Cfg CD) (r : R H CD) (payload : Bytes) (hdef : cfg.decodeDefault = true) :
    (cfg.chunked = false → Inv cfg hRem HI CDGall r payload →
      2 * payload.length + 1 < cfg.fuel → (hRem r.fp).length + 1 < cfg.fuel →
      ∀ calls : List Call, (∀ c ∈ calls, c ≠ .stream (some 0)) →
        ∃ pss r' r'', callSeqG hSrc cdDec cfg (some true) calls r = ((pss, none), r') ∧
          drainConn hSrc cdDec cfg r' = (.ok (), r'') ∧
          ∀ tail : List RCall, ∃ outs r3, callSeq hSrc cdDec cfg (some true) tail r'' = (.ok outs, r3) ∧
            outs.length = tail.length ∧ outs.flatten = []) ∧
    (Inv cfg cRem CI CDGall r payload → (cRem r.fp).length + 1 < cfg.fuel →
      ∀ calls : List RCall,
        ∃ outs r' r'', callSeq hSrc cdDec cfg (some true) calls r = (.ok outs, r') ∧
          drainConn hSrc cdDec cfg r' = (.ok (), r'') ∧
          ∀ tail : List RCall, ∃ outs' r3, callSeq hSrc cdDec cfg (some true) tail r'' = (.ok outs', r3) ∧
            outs'.length = tail.length ∧ outs'.flatten = []) := by
  have hdc : (some true : Option Bool).getD cfg.decodeDefault = true := rfl
  refine ⟨fun hnc hinv hfS hf calls hcs => ?_, fun hinv hf calls => ?_⟩
  · obtain ⟨pss, r', rest', h1, hinv', _, _⟩ :=
      callSeqG_concat hSrc cdDec cfg (hSrc_rawReadSpec cfg) (hSrc_rawReadAllSpec cfg) (hSrc_rawRead1Spec cfg)
        cdDec_streamLaw (hSrc_closesN cfg) (hSrc_closesAll cfg) hSrc_closedNil (some true) hdc hdef hnc
        calls r payload hcs hinv hfS hf
    obtain ⟨r'', h2, _, h3⟩ := C12_drain_leaves_nothing hSrc cdDec cfg (hSrc_rawReadSpec cfg)
      (hSrc_rawReadAllSpec cfg) (hSrc_rawRead1Spec cfg) cdDec_streamLaw hdef (some true) hdc r' rest' hinv' (by omega)
    exact ⟨pss, r', r'', h1, h2, h3⟩
  · obtain ⟨outs, r', rest', h1, hinv', _, _, _⟩ :=
      callSeq_concat hSrc cdDec cfg (hSrc_rawReadSpec_chunked cfg) (hSrc_rawReadAllSpec_chunked cfg)
        (hSrc_rawRead1Spec_chunked cfg) cdDec_streamLaw (some true) hdc calls r payload hinv hf
    obtain ⟨r'', h2, _, h3⟩ := C12_drain_leaves_nothing hSrc cdDec cfg (hSrc_rawReadSpec_chunked cfg)
      (hSrc_rawReadAllSpec_chunked cfg) (hSrc_rawRead1Spec_chunked cfg) cdDec_streamLaw hdef (some true) hdc
      r' rest' hinv' (by omega)
    exact ⟨outs, r', r'', h1, h2, h3⟩

/-- non-vacuity (hypotheses: the gzip response "hello" with a Content-Length and in chunks), and what
the model computes: `read(2)`, `drain_conn()`, then `read(5)` / `read1()` / `read()` return b"" -/
example : Inv cfgGzipHello hRem HI CDGall respGzipHello (lit "hello") := inv_gzipHello
example : Inv cfgGzipChunked cRem CI CDGall respChunkedGzipHello (lit "hello") := inv_chunkedGzipHello
example : RawInv hRem HI respGzipHello gzipHello := rawInv_gzipHello

example :
    let s1 := read hSrc cdDec cfgGzipChunked respChunkedGzipHello (some 2) (some true)
    let s2 := drainConn hSrc cdDec cfgGzipChunked s1.2
    out s1 = some (lit "he") ∧ err s2 = none ∧
    out (callSeq hSrc cdDec cfgGzipChunked (some true) [.read (some 5), .read1 none, .read none] s2.2) =
      some [[], [], []] := by
  decide +kernel

/-- the chunk-parser round trip `dechunk (enchunk cs) = cs`: urllib3's `read_chunked` loop
(`_update_chunk_length` + `_handle_chunk`) over any segmentation returns exactly the chunks -/
theorem C12_dechunk_enchunk {δ : Type} (D : Dec δ) (cs : List Bytes) (hne : ∀ c ∈ cs, c ≠ [])
    (fuel : Nat) (hfuel : cs.length < fuel) (r : R H δ) (f : Fp) (tail : Bytes)
    (hf : r.fp.fp = some f) (hc : f.content = enchunk cs ++ tail) (hl : r.chunkLeft = none)
    (hd : r.hasDecoded = false) :
    ∃ f', rcLoop hSrc D none false fuel r [] =
        ((cs, .ok ()), { r with fp := { r.fp with fp := some f' }, chunkLeft := some 0 }) ∧
      f'.content = crlf ++ tail := by
  obtain ⟨f', h1, h2, _⟩ := rcLoop_enchunk D cs hne fuel hfuel r f tail [] hf hc hl hd
  exact ⟨f', by simpa using h1, h2⟩

example : ∀ c ∈ [lit "hi", lit "!"], c ≠ ([] : Bytes) := by decide

/-! ### the repaired defects, on the concrete inputs that used to be the negation witnesses -/

/-- `read()` after a partial `read(2)` on a gzip body "hello": the byte already decoded and waiting
in the buffer ("l") comes first — `read()` returns "llo" and leaves the buffer empty
(before the repair it returned "lo": finding `read-all-skips-decoded-buffer`) -/
theorem C12_read_all_after_partial_ok :
    let r0 := respOf wireGzipHello 0 (some (lit "28")) false (some 28)
    let s1 := read hSrc cdDec cfgGzip r0 (some 2) (some true)
    let s2 := read hSrc cdDec cfgGzip s1.2 none (some true)
    out s1 = some (lit "he") ∧ bqAll s1.2.buf = lit "l" ∧ out s2 = some (lit "llo") ∧ bqLen s2.2.buf = 0 := by
  decide +kernel

/-- … and `stream(None)` after that partial read terminates after one piece holding the whole rest
(before the repair it used up any amount of fuel: finding `stream-none-spins-on-decoded-buffer`) -/
theorem C12_stream_none_after_partial_ok :
    let r0 := respOf wireGzipHello 0 (some (lit "28")) false (some 28)
    let s1 := read hSrc cdDec cfgGzip r0 (some 2) (some true)
    (stream hSrc cdDec (cfgOf (some (lit "gzip")) none 40) s1.2 none (some true)).1 = ([lit "llo"], none) := by
  decide +kernel

/-- zstd: two frames decode to "aa" whether they are fed as one input or frame by frame, and the
decoder ends at `eof` (flush succeeds) (before the repair the second `decompress` raised: finding
`zstd-frame-boundary-on-feed-boundary:DecodeError`) -/
theorem C12_zstd_multiframe_on_boundary_ok :
    let s1 := zsDecompress zstdObj (ZObj.fresh zstdObj) zstdFrameA
    let s2 := zsDecompress zstdObj s1.2 zstdFrameA
    outD (zsDecompress zstdObj (ZObj.fresh zstdObj) (zstdFrameA ++ zstdFrameA)) = some (lit "aa") ∧
    outD s1 = some (lit "a") ∧ outD s2 = some (lit "a") ∧ outD (zsFlush zstdObj s2.2) = some [] := by
  decide +kernel

end U3.Props
