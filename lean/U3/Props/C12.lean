import U3.Lemmas.Resp
import U3.Lemmas.RespIO
import U3.Lemmas.RespWitness
/-!
# C12 — every way of reading a response yields the same bytes

Proved here (all inputs, no size bounds): BytesQueueBuffer is FIFO; every byte-step
`decompressobj` obeys the streaming law; `BufferedReader.read(n)` is exact for every segmentation;
the inner loop of `read(n)` preserves `buffered ++ still-owed = payload` for ANY source and decoder
obeying their laws; urllib3's own chunk parser undoes the chunked encoding for every chunk vector.

`C12_concat` at full strength is **false** of the code as it is (the model follows the code): the
`…_false…` theorems are kernel-evaluated counter-examples.  See notes/C12.md for the statements
that remain `_partial`.

  -- full statement (not provable: refuted by C12_concat_false_read_all, C12_zstd_multiframe_false_on_boundary)
  -- theorem C12_concat (hl : StreamLaw D G) (hw : wellFramed w payloadRaw) :
  --   concat (runCalls d w calls).outputs ++ finalRead d (runCalls d w calls).state = d.all payloadRaw
-/
namespace U3.Props
open U3 U3.Resp U3.Resp.Witness

/-- `bytesqueue_fifo`: `get(n)` returns exactly the first `min n size` bytes of everything put so
far and keeps the rest in order; `put` appends at the end -/
theorem C12_bytesqueue_fifo (q : BQ) (n : Nat) (d : Bytes) (q' : BQ) (h : bqGet q n = some (d, q')) :
    d = (bqAll q).take n ∧ bqAll q' = (bqAll q).drop n ∧ d ++ bqAll q' = bqAll q ∧
    ∀ x, bqAll (bqPut q' x) = bqAll q' ++ x := by
  obtain ⟨h1, h2⟩ := bqGet_spec q n d q' h
  refine ⟨h1, h2, ?_, fun x => bqPut_all q' x⟩
  rw [h1, h2, List.take_append_drop]

example : bqGet [[1, 2], [], [3, 4, 5]] 3 = some ([1, 2, 3], [[4, 5]]) := by decide

/-- `get` fails (RuntimeError) only on an empty deque with `n > 0`; `get_all` returns everything -/
theorem C12_bytesqueue_total (q : BQ) (n : Nat) (h : q ≠ [] ∨ n = 0) :
    (bqGet q n).isSome ∧ (bqGetAll q).1 = bqAll q ∧ (bqGetAll q).2 = [] :=
  ⟨bqGet_isSome q n h, rfl, rfl⟩

/-- the **streaming law** holds for every byte-step `decompressobj` (in particular the stored-block
gzip / zlib / raw-deflate and raw-block zstd instances): feeding `a ++ b` is feeding `a`, then — if
the member has not ended inside `a` — feeding `b`; after the end the rest is `unused_data` -/
theorem C12_rawobj_stream_law {ρ : Type} (O : RawObj ρ) (s : ρ) (a b : Bytes) :
    feedLoop O s (a ++ b) [] =
      match feedLoop O s a [] with
      | .error e => .error e
      | .ok (s', o, rest) =>
        if rest = [] then (feedLoop O s' b []).map (fun r => (r.1, o ++ r.2.1, r.2.2))
        else .ok (s', o, rest ++ b) :=
  feedLoop_append O s a b

/-- `BufferedReader.read(n)` returns exactly the next `min n available` bytes, whatever the network
segmentation -/
theorem C12_fp_read_exact (f : Fp) (n : Nat) :
    (fpRead f n).1 = f.content.take n ∧ (fpRead f n).2.content = f.content.drop n :=
  ⟨(fpRead_spec f n).1, (fpRead_spec f n).2.1⟩

/-- the read(n) invariant: for ANY body source whose `_raw_read` is exact on a well-framed body
(`RawReadSpec`) and ANY decoder obeying the streaming law, the inner loop of `read(amt)` keeps
`buffered ++ what the decoder still owes for the raw bytes still to come` constant, never raises,
and stops only with `amt` bytes buffered or the raw body exhausted -/
theorem C12_read_n_invariant {σ δ : Type} (S : Src σ) (D : Dec δ) (cfg : Cfg δ)
    {rem : σ → Bytes} {I : σ → Option Int → Prop} {G : δ → Bytes → Bytes → Prop}
    (hR : RawReadSpec S cfg rem I) (hD : StreamLaw D G) (a : Nat) (ha : 0 < a)
    (fuel : Nat) (r : R σ δ) (data : Bytes) (d : δ) (p : Bytes)
    (hI : I r.fp r.lengthRemaining) (hd : r.decoder = some d) (hG : G d (rem r.fp) p)
    (hf : (rem r.fp).length + (if data = [] then 0 else 1) < fuel) (hdata : data = [] → rem r.fp = []) :
    ∃ r' d' p', readLoop S D cfg a true false fuel r data = (.ok (), r') ∧
      r'.decoder = some d' ∧ G d' (rem r'.fp) p' ∧
      bqAll r'.buf ++ p' = bqAll r.buf ++ p ∧ I r'.fp r'.lengthRemaining ∧
      (bqLen r'.buf < a → rem r'.fp = []) :=
  readLoop_inv S D cfg hR hD a ha fuel r data d p hI hd hG hf hdata

/-- C12_read_n_exact, buffer level: what `read(n)` finally hands out of the decoded buffer is
exactly `min n buffered` bytes — at most `n`, fewer only when the buffer (and by the invariant the
body) is exhausted -/
theorem C12_read_n_exact_partial (q : BQ) (n : Nat) (d : Bytes) (q' : BQ) (h : bqGet q n = some (d, q')) :
    d.length = min n (bqLen q) ∧ (d.length < n → bqAll q' = []) := by
  obtain ⟨h1, h2⟩ := bqGet_spec q n d q' h
  rw [bqLen_eq]
  constructor
  · rw [h1, List.length_take]
  · intro hlt
    rw [h2]
    rw [h1, List.length_take] at hlt
    exact List.drop_eq_nil_of_le (by omega)

/-- the chunk-parser round trip `dechunk (enchunk cs) = cs`: urllib3's `read_chunked` loop
(`_update_chunk_length` + `_handle_chunk`) over any segmentation returns exactly the chunks -/
theorem C12_dechunk_enchunk {δ : Type} (D : Dec δ) (cs : List Bytes) (hne : ∀ c ∈ cs, c ≠ [])
    (fuel : Nat) (hfuel : cs.length < fuel) (r : R H δ) (f : Fp) (tail : Bytes)
    (hf : r.fp.fp = some f) (hc : f.content = enchunk cs ++ tail) (hl : r.chunkLeft = none)
    (hd : r.hasDecoded = false) :
    ∃ f', rcLoop hSrc D none false fuel r [] =
        ((cs, .ok ()), { r with fp := { r.fp with fp := some f' }, chunkLeft := some 0 }) ∧
      f'.content = crlf ++ tail := by
  obtain ⟨f', h1, h2, _⟩ := rcLoop_enchunk D cs hne fuel hfuel r f tail [] hf hc hl hd
  exact ⟨f', by simpa using h1, h2⟩

example : ∀ c ∈ [lit "hi", lit "!"], c ≠ ([] : Bytes) := by decide

/-! ### negation witnesses: the model follows the code as it is -/

/-- `read()` after a partial `read(2)` on a gzip body "hello": the bytes already decoded and waiting
in the buffer ("l") are skipped — `read()` returns "lo", not "llo" -/
theorem C12_concat_false_read_all :
    let r0 := respOf wireGzipHello 0 (some (lit "28")) false (some 28)
    let s1 := read hSrc cdDec cfgGzip r0 (some 2) (some true)
    let s2 := read hSrc cdDec cfgGzip s1.2 none (some true)
    out s1 = some (lit "he") ∧ bqAll s1.2.buf = lit "l" ∧ out s2 = some (lit "lo") := by
  decide +kernel

/-- … and `stream(None)` after that partial read never terminates: the loop condition
`len(self._decoded_buffer) > 0` stays true (here: 40 rounds of fuel are used up) -/
theorem C12_stream_none_spins :
    let r0 := respOf wireGzipHello 0 (some (lit "28")) false (some 28)
    let s1 := read hSrc cdDec cfgGzip r0 (some 2) (some true)
    (stream hSrc cdDec (cfgOf (some (lit "gzip")) none 40) s1.2 none (some true)).1 = ([lit "lo"], some .fuel) := by
  decide +kernel

/-- zstd: two frames fed as one input decode to "aa"; fed frame by frame the second `decompress`
raises (the finished decompressobj is reused) -/
theorem C12_zstd_multiframe_false_on_boundary :
    outD (zsDecompress zstdObj (ZObj.fresh zstdObj) (zstdFrameA ++ zstdFrameA)) = some (lit "aa") ∧
    outD (zsDecompress zstdObj (ZObj.fresh zstdObj) zstdFrameA) = some (lit "a") ∧
    errD (zsDecompress zstdObj (zsDecompress zstdObj (ZObj.fresh zstdObj) zstdFrameA).2 zstdFrameA)
      = some .decodeError := by
  decide +kernel

end U3.Props
