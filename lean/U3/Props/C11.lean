import U3.Lemmas.Wire
/-!
# C11 — request bodies are framed exactly and re-sent identically

Framing theorems are about `U3.Wire.framing / sendChunks / bodyPhase` (transcription of
`HTTPConnection.request`) against the independent strict decoder `dechunk` / `ofHex`; the re-send
theorems about `U3.Wire.sendHistory` (how `urlopen` threads `body_pos`).
-/
namespace U3.Props
open U3 U3.Wire

def c11cfg : Cfg := ⟨lit "h", 80, 80, 4, .ok [], .error .unicodeError⟩

/-- the `%x` chunk-size line is read back exactly by a strict hex reader, for every length -/
theorem C11_hex_roundtrip (n : Nat) : ofHex (toHex n) = some n := ofHex_toHex n

/-- chunk framing round trip: non-empty pieces framed as `hex CRLF data CRLF … 0 CRLF CRLF` are
decoded by the strict chunked decoder to exactly their concatenation (any number / size of pieces) -/
theorem C11_chunk_roundtrip (ds : List Bytes) (hne : ∀ d ∈ ds, d ≠ []) :
    dechunk ((frameData ds ++ lastChunk).length + 1) (frameData ds ++ lastChunk) = some ds.flatten := by
  apply dechunk_frameData ds hne
  have := length_le_frameData ds
  simp only [List.length_append]; omega

example : dechunk 100 (frameData [[1, 2], [3]] ++ lastChunk) = some [1, 2, 3] := by decide

/-- component of the round trip: for every list of pieces (bytes, str, buffers of any item size —
`wellSized` is only the object invariant of a buffer: positive item size, a whole number of items),
what the body loop writes in chunked mode is the chunk framing of the non-empty encoded pieces — which
`C11_chunk_roundtrip` decodes to the payload — and in Content-Length mode it is the payload itself -/
theorem C11_body_loop_frames_payload (cs : List Chunk) (hw : ∀ c ∈ cs, wellSized c) (chunked : Bool)
    (hok : (sendChunks chunked cs).err = none) :
    ∃ ds : List Bytes, (∀ d ∈ ds, d ≠ []) ∧ chunksPayload cs = some ds.flatten ∧
      (sendChunks chunked cs).written = if chunked then frameData ds else ds.flatten := by
  exact sendChunks_spec cs hw chunked hok

example : (sendChunks true [.bytes [1, 2], .str [], .str [233]]).written
    = frameData [[1, 2], [0xC3, 0xA9]] := by decide

/-- non-vacuity: a buffer with two-byte items satisfies the hypothesis, and its four bytes are framed
as one chunk of size 4 -/
example : (∀ c ∈ [Chunk.buf [1, 0, 2, 0] 2, .buf [] 4], wellSized c) ∧
    (sendChunks true [.buf [1, 0, 2, 0] 2, .buf [] 4]).written = frameData [[1, 0, 2, 0]] := by
  refine ⟨?_, by decide⟩
  intro c hc
  simp only [List.mem_cons, List.not_mem_nil, or_false] at hc
  rcases hc with rfl | rfl <;> simp [wellSized]

/-- The full round trip: whenever the caller supplies no framing header and the request is accepted,
the permissive head parser followed by the strict de-framer (exactly one of Content-Length / chunked, or
neither with an empty body part) recovers exactly the body's bytes (str as UTF-8; files from their
start offset, read with `read(blocksize)` calls that may each return fewer items than asked for — `body`
ranges over file-like bodies with EVERY read script, see `C11_read_loop_yields_all_data`; iterables with
empty pieces; buffers with items of any width, see `C11_wide_buffer_ok`).  Hypotheses: a positive blocksize, and the object invariant of buffers
(`WellSizedBody`: positive item size, a whole number of items — not a restriction on the item size);
the method needs no hypothesis (`putrequest` refuses the empty method, see C10). -/
theorem C11_payload_roundtrip (cfg : Cfg) (meth url : Str) (headers : List (Str × Str)) (body : Body) (ch : Bool)
    (w : Bytes)
    (h1 : (headerKeys headers).contains (lit "content-length") = false)
    (h2 : (headerKeys headers).contains (lit "transfer-encoding") = false)
    (hbs : 0 < cfg.blocksize) (hw : WellSizedBody body)
    (h : serialize cfg meth url headers body ch = .ok w) :
    ∃ r kind pay, strictParse w = some r ∧ deframe r = some (kind, pay) ∧ payload body = some pay := by
  unfold serialize request at h
  cases hp : prepare cfg meth url headers body ch with
  | error e => simp [hp] at h
  | ok p =>
    simp only [hp] at h
    split at h
    · simp at h
    · rename_i hok
      simp only [Except.ok.injEq] at h
      subst h
      obtain ⟨hrl, hl⟩ := prepare_legal hp
      obtain ⟨kind, pay, hd, hpay⟩ := deframe_prepared hp h1 h2 hbs hw hok meth (urlOrSlash url)
      exact ⟨_, kind, pay, strictParse_prepared p meth url hrl hl _, hd, hpay⟩

example : (serialize c11cfg (lit "PUT") (lit "/") [] (.file ⟨[[1, 2, 3, 4, 5, 6]], 1, .ok, .ok, false⟩) false).toOption.bind
    (fun w => (strictParse w).bind deframe) = some (.chunked, [2, 3, 4, 5, 6]) := by decide +kernel

/-! ## file-like bodies whose `read()` may return short: every read script -/

/-- a stream that delivers `[1,2,3,4] [5] [6,7,8,9] [10]`: with block size 4 the second `read(4)` is a
short read in the middle of the data -/
def c11Stream : FileB := ⟨[[1, 2, 3, 4], [5], [6, 7, 8, 9], [10]], 0, .ok, .ok, false⟩

/-- what a read script can ever hand out is the concatenation of its pieces before the first empty one
(an empty `read()` result is end-of-file) — for a script without empty piece that of all its pieces -/
theorem C11_script_data (ps : List (List Nat)) :
    scriptData ps = (ps.takeWhile fun p => !p.isEmpty).flatten ∧
    ((∀ p ∈ ps, p ≠ []) → scriptData ps = ps.flatten) :=
  ⟨scriptData_eq_takeWhile ps, scriptData_eq_flatten ps⟩

example : (∀ p ∈ c11Stream.pieces, p ≠ []) ∧ scriptData c11Stream.pieces = [1, 2, 3, 4, 5, 6, 7, 8, 9, 10] := by
  decide

/-- The loop of `chunk_readable()` (`read(blocksize)` until the first empty result) over a file-like
body with **any** read script, from any offset, with any positive block size — however short the
individual reads are: the blocks it yields are non-empty, concatenate to ALL the data from the offset
on, and the file is left at the end of the data.  (Induction over the reads.) -/
theorem C11_read_loop_yields_all_data (f : FileB) (bs : Nat) (hbs : 0 < bs) :
    (chunkReadable bs f).1.flatten = f.content.drop f.pos ∧
    (∀ d ∈ (chunkReadable bs f).1, d ≠ []) ∧
    (chunkReadable bs f).2 = { f with pos := max f.pos f.content.length } :=
  ⟨(chunkReadable_spec hbs f).1, (chunkReadable_spec hbs f).2.2, (chunkReadable_spec hbs f).2.1⟩

/-- non-vacuity: the reads really are short (4, 1, 4, 1 items with block size 4; a piece longer than
the block size is cut), and a script may start in the middle of a piece -/
example : (chunkReadable 4 c11Stream).1 = [[1, 2, 3, 4], [5], [6, 7, 8, 9], [10]] := by decide
example : (chunkReadable 3 c11Stream).1 = [[1, 2, 3], [4], [5], [6, 7, 8], [9], [10]] := by decide
example : (chunkReadable 4 { c11Stream with pos := 2 }).1 = [[3, 4], [5], [6, 7, 8, 9], [10]] := by decide
/-- an empty piece is end-of-file: what follows it in the script is never handed out -/
example : (chunkReadable 4 ⟨[[1, 2], [], [3]], 0, .ok, .ok, false⟩).1 = [[1, 2]] := by decide

/-- The body loop of `request` over a file-like body (binary or text) with **any** read script: if
nothing fails — only the UTF-8 encoding of a piece of a text stream can — what is written is, in chunked
mode, the chunk framing of non-empty pieces whose concatenation is the payload (all the data from the
file's offset on, str as UTF-8), which `C11_chunk_roundtrip` decodes to the payload; and otherwise the
payload itself.  No Content-Length is recommended for such a body. -/
theorem C11_stream_body_loop (f : FileB) (meth : Str) (bs : Nat) (hbs : 0 < bs) (chunked : Bool) :
    ∃ cc cs, bodyToChunks (.file f) meth bs = .ok cc ∧ cc.chunks = some cs ∧ cc.contentLength = none ∧
      ((sendChunks chunked cs).err = none →
        ∃ ds : List Bytes, (∀ d ∈ ds, d ≠ []) ∧ payload (.file f) = some ds.flatten ∧
          (sendChunks chunked cs).written = if chunked then frameData ds else ds.flatten) :=
  file_body_loop f meth hbs chunked

/-- … for a binary stream nothing can fail and every `read()` result is one chunk: the chunked body
`request` writes (with the terminating chunk) is decoded by the strict chunked decoder to exactly the
data from the file's offset on, for every read script -/
theorem C11_stream_binary_dechunks (f : FileB) (hb : f.text = false) (meth : Str) (bs : Nat) (hbs : 0 < bs) :
    ∃ cc cs, bodyToChunks (.file f) meth bs = .ok cc ∧ cc.chunks = some cs ∧
      (sendChunks true cs).err = none ∧
      (sendChunks true cs).written = frameData (chunkReadable bs f).1 ∧
      dechunk (((sendChunks true cs).written ++ lastChunk).length + 1) ((sendChunks true cs).written ++ lastChunk)
        = some (f.content.drop f.pos) := by
  obtain ⟨cc, cs, h1, h2, _, h4, h5, h6, h7⟩ := file_body_loop_binary f hb meth hbs true
  refine ⟨cc, cs, h1, h2, h4, by simpa using h5, ?_⟩
  simp only [if_true] at h5
  rw [h5, ← h6]
  exact C11_chunk_roundtrip _ h7

example : c11Stream.text = false ∧ 0 < 4 := by decide

/-- non-vacuity of the round trip with a short read in the middle: the four reads (4, 1, 4, 1 bytes)
are four chunks and the strict de-framer recovers all ten bytes -/
example : (serialize c11cfg (lit "PUT") (lit "/") [] (.file c11Stream) false).toOption.bind
    (fun w => (strictParse w).bind deframe) = some (.chunked, [1, 2, 3, 4, 5, 6, 7, 8, 9, 10]) := by decide +kernel

example : (sendChunks true ((chunkReadable 4 c11Stream).1.map Chunk.bytes)).written
    = frameData [[1, 2, 3, 4], [5], [6, 7, 8, 9], [10]] := by decide

/-- a text stream with a short read: pieces are encoded one by one (`é` = C3 A9) -/
example : (serialize c11cfg (lit "PUT") (lit "/") [] (.file ⟨[[97, 233], [98], [99, 100, 101, 102, 103]], 0, .ok, .ok, true⟩) false).toOption.bind
    (fun w => (strictParse w).bind deframe) = some (.chunked, [97, 0xC3, 0xA9, 98, 99, 100, 101, 102, 103]) := by
  decide +kernel

/-- non-vacuity of `WellSizedBody` beyond byte-sized items: `array('H', [1, 2, 3])` -/
example : WellSizedBody (.buffer [1, 0, 2, 0, 3, 0] 2) := by simp [WellSizedBody]

example : (serialize c11cfg (lit "PUT") (lit "/") [] (.buffer [1, 0, 2, 0, 3, 0] 2) true).toOption.bind
    (fun w => (strictParse w).bind deframe) = some (.chunked, [1, 0, 2, 0, 3, 0]) := by decide +kernel

/-- `array('H', [1, 2, 3])` with `chunked=True` (the input on which the chunk-size line used to count
items instead of bytes): the strict decoder recovers exactly the six bytes -/
theorem C11_wide_buffer_ok :
    (sendChunks true [.buf [1, 0, 2, 0, 3, 0] 2]).err = none ∧
    dechunk 100 ((sendChunks true [.buf [1, 0, 2, 0, 3, 0] 2]).written ++ lastChunk) = some [1, 0, 2, 0, 3, 0] := by
  decide

/-- exactly one framing: when the caller supplies no framing header, `request` adds at most one of
`Transfer-Encoding: chunked` / `Content-Length: n`, and exactly one unless the body is absent, the
method expects none and chunking was not requested -/
theorem C11_exactly_one_framing (keys : List Str) (ch : Bool) (chunks : Option (List Chunk)) (cl : Option Nat)
    (fr : Framing) (h : framing keys ch chunks cl = .ok fr)
    (hk1 : keys.contains (lit "content-length") = false) (hk2 : keys.contains (lit "transfer-encoding") = false) :
    (fr.chunked = true ∧ fr.lines = [(lit "Transfer-Encoding", lit "chunked")] ∧ (ch = true ∨ (cl = none ∧ chunks.isSome)))
    ∨ (fr.chunked = false ∧ fr.lines = [] ∧ ch = false ∧ cl = none ∧ chunks = none)
    ∨ (∃ n, fr.chunked = false ∧ fr.lines = [(lit "Content-Length", toDec n)] ∧ ch = false ∧ cl = some n) := by
  exact framing_cases keys ch chunks cl fr h hk1 hk2

/-- body-less requests: unframed for the methods of `_METHODS_NOT_EXPECTING_BODY` (which contain
GET / HEAD / DELETE / OPTIONS and none of POST / PUT / PATCH), `Content-Length: 0` otherwise;
`chunked=True` is honoured in both cases -/
theorem C11_bodyless_table (meth : Str) (bs : Nat) :
    (∀ m ∈ [lit "GET", lit "HEAD", lit "DELETE", lit "OPTIONS"], Gen.methodsNotExpectingBody.contains m = true) ∧
    (∀ m ∈ [lit "POST", lit "PUT", lit "PATCH"], Gen.methodsNotExpectingBody.contains m = false) ∧
    (∃ cc, bodyToChunks .none meth bs = .ok cc ∧ cc.chunks = none ∧
      cc.contentLength = (if Gen.methodsNotExpectingBody.contains (upper meth) then none else some 0)) ∧
    (∃ fr, framing [] false none none = .ok fr ∧ fr.lines = [] ∧ fr.chunked = false) ∧
    (∃ fr, framing [] false none (some 0) = .ok fr ∧ fr.lines = [(lit "Content-Length", [48])] ∧ fr.chunked = false) ∧
    (∃ fr, framing [] true none none = .ok fr ∧ fr.lines = [(lit "Transfer-Encoding", lit "chunked")] ∧ fr.chunked = true) := by
  refine ⟨by decide, by decide, ⟨_, rfl, rfl, rfl⟩, ⟨⟨false, []⟩, by decide, rfl, rfl⟩, ?_, ?_⟩
  · exact ⟨⟨false, [(lit "Content-Length", [48])]⟩, by decide, rfl, rfl⟩
  · exact ⟨⟨true, [(lit "Transfer-Encoding", lit "chunked")]⟩, by decide, rfl, rfl⟩

/-! ## re-sending -/

def c11PayloadOf (a : Attempt) : Option (FrameKind × Bytes) := (strictParse a.wire).bind deframe

def c11St0 (meth : Str) (body : Body) : HState := ⟨meth, [], body, .none, false, none⟩

/-
Full statement (Appendix E):
  `(∀ a ∈ (sendHistory lvl cfg t ch hist st).attempts, ¬a.after303 → payload a = payload (first attempt))
     ∨ (sendHistory …).result = .error .unrewindableBody`   for every body, level and history.
It does NOT hold of the code as it stands for two kinds of body: one-shot iterables and files without
`tell()` (`C11_resend_oneshot_witness`, `C11_resend_no_tell_witness`: the call succeeds while the
re-sent body is empty).  What holds is `C11_resend_identical_or_unrewindable_partial`.
-/
/-- the hypothesis of the partial theorem — everything except the two kinds of body of the remaining
findings: not a one-shot iterable, not a file without `tell()` -/
def c11Replayable (body : Body) : Prop :=
  match body with
  | .iter _ one => one = false
  | .file f => f.tell ≠ .absent
  | _ => True

/-- bodies that can always be re-sent: `None` / bytes / str / a buffer / a re-iterable iterable, or a
file with working `seek()` and `tell()` -/
def c11Rewindable (body : Body) : Prop :=
  Stable body ∨ ∃ f, body = .file f ∧ f.seek = .ok ∧ f.tell = .ok

/-- For **every** attempt history, at pool and at manager level, and every body other than a one-shot
iterable or a file without `tell()`: every request written before a 303 is byte-identical to the
first one (so in particular its de-framed payload is), and the call can only fail with
`UnrewindableBodyError` — and that only when the body is a file whose `tell()` or `seek()` is
missing or failing — or with the error of sending a request. -/
theorem C11_resend_identical_or_unrewindable_partial (lvl : Level) (cfg : Cfg) (target : Str) (chunked : Bool)
    (meth : Str) (hs : List (Str × Str)) (body : Body) (hist : List Outcome) (hr : c11Replayable body) :
    (∀ a ∈ (sendHistory lvl cfg target chunked hist ⟨meth, hs, body, .none, false, none⟩).attempts,
        a.after303 = false → a.wire = (request cfg meth target hs body chunked).sent.written) ∧
    ((sendHistory lvl cfg target chunked hist ⟨meth, hs, body, .none, false, none⟩).result = .ok () ∨
     (¬ c11Rewindable body ∧
      (sendHistory lvl cfg target chunked hist ⟨meth, hs, body, .none, false, none⟩).result = .error .unrewindableBody) ∨
     ∃ e m h b, (sendHistory lvl cfg target chunked hist ⟨meth, hs, body, .none, false, none⟩).result = .error e ∧
       (request cfg m target h b chunked).sent.err = some e) := by
  have hinv : Inv body body .none none := by
    cases body with
    | file f => exact Or.inr ⟨f, f, rfl, hr, rfl, ⟨rfl, rfl, rfl, rfl⟩, Or.inl ⟨rfl, rfl, rfl⟩⟩
    | iter cs one => exact Or.inl ⟨hr, rfl, rfl, Or.inl rfl⟩
    | none => exact Or.inl ⟨trivial, rfl, rfl, Or.inl rfl⟩
    | bytes b => exact Or.inl ⟨trivial, rfl, rfl, Or.inl rfl⟩
    | str s => exact Or.inl ⟨trivial, rfl, rfl, Or.inl rfl⟩
    | buffer b k => exact Or.inl ⟨trivial, rfl, rfl, Or.inl rfl⟩
  exact sendHistory_inv lvl cfg target chunked meth hs body hist body .none none hinv

example : c11Replayable (.file ⟨[[1, 2, 3]], 1, .absent, .ok, false⟩) := by simp [c11Replayable]
example : c11Replayable (.iter [.bytes [1], .str []] false) := rfl
example : c11Rewindable (.file ⟨[[1, 2, 3]], 1, .ok, .ok, false⟩) := Or.inr ⟨_, rfl, rfl, rfl⟩
example : c11Rewindable (.iter [.bytes [1], .str []] false) := Or.inl rfl

/-- … in particular a rewindable body is re-sent identically and the call never fails because of
re-positioning the body: at both levels, also across a 303 -/
theorem C11_resend_rewindable (lvl : Level) (cfg : Cfg) (target : Str) (chunked : Bool)
    (meth : Str) (hs : List (Str × Str)) (body : Body) (hist : List Outcome) (hr : c11Rewindable body) :
    (∀ a ∈ (sendHistory lvl cfg target chunked hist ⟨meth, hs, body, .none, false, none⟩).attempts,
        a.after303 = false → a.wire = (request cfg meth target hs body chunked).sent.written) ∧
    ((sendHistory lvl cfg target chunked hist ⟨meth, hs, body, .none, false, none⟩).result = .ok () ∨
     ∃ e m h b, (sendHistory lvl cfg target chunked hist ⟨meth, hs, body, .none, false, none⟩).result = .error e ∧
       (request cfg m target h b chunked).sent.err = some e) := by
  have hrep : c11Replayable body := by
    rcases hr with hst | ⟨f, rfl, _, htl⟩
    · cases body <;> simp_all [c11Replayable, Stable]
    · simp [c11Replayable, htl]
  obtain ⟨h1, h2⟩ := C11_resend_identical_or_unrewindable_partial lvl cfg target chunked meth hs body hist hrep
  refine ⟨h1, ?_⟩
  rcases h2 with h | ⟨hn, _⟩ | h
  · exact Or.inl h
  · exact absurd hr hn
  · exact Or.inr h

theorem C11_resend_oneshot_witness :
    let r := sendHistory .pool c11cfg (lit "/p") false [.retryStatus, .ok] (c11St0 (lit "POST") (.iter [.bytes [97, 98]] true))
    r.result = .ok () ∧ r.attempts.map c11PayloadOf = [some (.chunked, [97, 98]), some (.chunked, [])] := by
  decide +kernel

theorem C11_resend_no_tell_witness :
    let r := sendHistory .pool c11cfg (lit "/p") false [.redirectKeep, .ok]
      (c11St0 (lit "PUT") (.file ⟨[[1, 2, 3]], 0, .ok, .absent, false⟩))
    r.result = .ok () ∧ r.attempts.map c11PayloadOf = [some (.chunked, [1, 2, 3]), some (.chunked, [])] := by
  decide +kernel

/-- the input on which `PoolManager.urlopen` used to re-send an empty body after a 307 (position not
threaded to the follow-up request): the file is re-sent from its recorded position -/
theorem C11_resend_manager_redirect_ok :
    let r := sendHistory .manager c11cfg (lit "/p") false [.redirectKeep, .ok]
      (c11St0 (lit "PUT") (.file ⟨[[1, 2, 3]], 0, .ok, .ok, false⟩))
    r.result = .ok () ∧ r.attempts.map c11PayloadOf = [some (.chunked, [1, 2, 3]), some (.chunked, [1, 2, 3])] := by
  decide +kernel

/-- … also after retries inside the pool call and a second redirect, from a start offset -/
example :
    let r := sendHistory .manager c11cfg (lit "/p") false [.redirectKeep, .readErr, .redirectKeep, .ok]
      (c11St0 (lit "PUT") (.file ⟨[[1, 2, 3]], 1, .ok, .ok, false⟩))
    r.result = .ok () ∧ r.attempts.map c11PayloadOf =
      [some (.chunked, [2, 3]), some (.chunked, [2, 3]), some (.chunked, [2, 3]), some (.chunked, [2, 3])] := by
  decide +kernel

/-- the same history at pool level re-sends the body identically -/
example :
    let r := sendHistory .pool c11cfg (lit "/p") false [.redirectKeep, .readErr, .ok]
      (c11St0 (lit "PUT") (.file ⟨[[1, 2, 3]], 1, .ok, .ok, false⟩))
    r.result = .ok () ∧ r.attempts.map c11PayloadOf = [some (.chunked, [2, 3]), some (.chunked, [2, 3]), some (.chunked, [2, 3])] := by
  decide +kernel

/-- a stream with short reads (`c11Stream`, read 4 + 1 + 4 + 1) is re-sent in full after a 503 and a
307, at manager level, from its recorded offset -/
example :
    let r := sendHistory .manager c11cfg (lit "/p") false [.retryStatus, .redirectKeep, .ok]
      (c11St0 (lit "PUT") (.file { c11Stream with pos := 2 }))
    r.result = .ok () ∧ r.attempts.map c11PayloadOf =
      [some (.chunked, [3, 4, 5, 6, 7, 8, 9, 10]), some (.chunked, [3, 4, 5, 6, 7, 8, 9, 10]),
       some (.chunked, [3, 4, 5, 6, 7, 8, 9, 10])] := by
  decide +kernel

/-- the input on which the pool used to fail with a bare `ValueError` (303 followed with `body=None`
but the recorded position kept): the follow-up is a body-less, unframed GET -/
theorem C11_resend_pool_303_ok :
    let r := sendHistory .pool c11cfg (lit "/p") false [.redirect303, .ok]
      (c11St0 (lit "POST") (.file ⟨[[1, 2, 3]], 0, .ok, .ok, false⟩))
    r.result = .ok () ∧ r.attempts.map (·.after303) = [false, true] ∧
      r.attempts.map c11PayloadOf = [some (.chunked, [1, 2, 3]), some (.unframed, [])] ∧
      (r.attempts.map fun a => (strictParse a.wire).map (·.method)) = [some (lit "POST"), some (lit "GET")] := by
  decide +kernel

/-- the input on which every retry used to fail with a bare `ValueError` (a file with `tell()` but
without `seek()`): the first re-send is refused with `UnrewindableBodyError`, nothing is re-sent -/
theorem C11_resend_tell_without_seek_unrewindable :
    let r := sendHistory .pool c11cfg (lit "/p") false [.retryStatus, .ok]
      (c11St0 (lit "PUT") (.file ⟨[[1, 2, 3]], 0, .absent, .ok, false⟩))
    r.result = .error .unrewindableBody ∧ r.attempts.map c11PayloadOf = [some (.chunked, [1, 2, 3])] := by
  decide +kernel

/-- a file whose `tell()` fails is refused on the first re-send -/
example :
    (sendHistory .pool c11cfg (lit "/p") false [.retryStatus, .ok]
      (c11St0 (lit "PUT") (.file ⟨[[1, 2, 3]], 0, .ok, .raises, false⟩))).result = .error .unrewindableBody := by
  decide +kernel

end U3.Props
