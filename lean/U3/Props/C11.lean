import U3.Model.Wire
namespace U3.Props
open U3 U3.Wire
theorem C11_placeholder : (1:Nat) = 1 := rfl
end U3.Props
