import U3.Model.Route
namespace U3.Props
open U3 U3.Route

/-- `port_by_scheme` gives http → 80, https → 443 (semantic fact about the generated table) -/
theorem C15_port_table :
    List.lookup http Gen.portByScheme = some 80 ∧ List.lookup https Gen.portByScheme = some 443 := by
  decide

end U3.Props
