import U3.Model.Route
import U3.Lemmas.Route
import U3.Lemmas.UrlRoute
/-!
# C15 — what goes on the wire is exactly what the URL says

Theorems about `U3.Route.route` (the model of `PoolManager.urlopen` / `ProxyManager.urlopen` for one
body-less GET, composed from `U3.Url`, `U3.PoolKey`, `U3.Wire`) — mostly through a **fresh** manager
built with arbitrary pool keywords `extra` (`routeWith idna proxy extra u`; `routeFresh` is the case
`extra = []`), for **every** `Url` record `u`, in particular every record `parse_url` can return.
`idna` is the `idna.encode` oracle.  The theorems have the form "whenever the request is sent
(`= .ok r`), what was observed (`r`) is …"; that requests are sent at all is shown by the non-vacuity
examples.  The known findings are pinned by `…_witness` theorems (evaluation of the model on the URL
text), and the headline statements they falsify are proved under the hypothesis that excludes them.
Repaired defects (the model mirrors the repaired code): the absolute-form target sent to a forwarding
proxy no longer carries userinfo or fragment (`C15_target_forward`, `C15_target_no_fragment_no_userinfo`
now without hypothesis on the kind of route), and the `Host` header inside a CONNECT tunnel is computed
from the tunnel host without its brackets (`C15_host_header_tunnel`); the former witnesses are kept as
positive theorems on the same URL texts (`…_ok`).

Vocabulary (`U3.Lemmas.Route`): `effPort u` the port after `if not port:` defaulting, `schemeDefault s`
80/443, `unbracket` the pool's `host[1:-1]`, `dialName` `create_connection`'s `strip("[]")`,
`hostText` the host part of `http.client`'s automatic `Host`, `isForwarding proxy scheme` "the
absolute URL is sent to the proxy, no tunnel".
-/
namespace U3.Props
open U3 U3.Route

/-- one GET of the URL text through a fresh manager (ASCII hosts: every IDNA query fails) -/
def send1 (proxy : Option ProxyCfg) (url : String) : Except Exc Route :=
  (routeUrl (fun _ => none) (Mgr.init proxy []) (lit url)).2

/-- two GETs through one manager; the second is the redirect follow-up of the first: it carries the
first hop's `kw["headers"]` -/
def hop2 (proxy : Option ProxyCfg) (url1 url2 : String) : Except Exc Route :=
  match routeUrl (fun _ => none) (Mgr.init proxy []) (lit url1) with
  | (m', .ok r1) => (routeUrl (fun _ => none) m' (lit url2) r1.kwHeaders).2
  | (_, .error e) => .error e

/-- `ProxyManager("http://proxy.example:3128")` -/
def pxHttp : ProxyCfg := ⟨http, some (lit "proxy.example"), 3128, false⟩
/-- `ProxyManager("https://proxy.example", use_forwarding_for_https=True)` -/
def pxHttpsFwd : ProxyCfg := ⟨https, some (lit "proxy.example"), 443, true⟩

example : mkProxy (fun _ => none) (lit "http://proxy.example:3128") false = .ok pxHttp := by decide +kernel
example : mkProxy (fun _ => none) (lit "https://proxy.example") true = .ok pxHttpsFwd := by decide +kernel

/-- `port_by_scheme` gives http → 80, https → 443 (semantic fact about the generated table) -/
theorem C15_port_table :
    List.lookup http Gen.portByScheme = some 80 ∧ List.lookup https Gen.portByScheme = some 443 := by
  decide

/-! ## direct routes (no proxy) -/

/-
Full statement (property text): the TCP connection is opened to the URL's host (without brackets) and
port (80/443 when absent).  FALSE for an explicit port 0 (known finding `port-zero-treated-as-absent`,
witness below); and the host clause holds for the host *as the pool re-normalises it* (`h'`), which is
the URL's host itself unless the zone id starts with `25` (known finding
`zone-25-prefix-stripped-twice`, `C15_zone25_witness`; see `C15_host_stable_partial` for `h' = hst`).

Proved: for every http/https `Url` with `port ≠ some 0` that is sent directly, the port dialled is the
URL's port or the scheme default, and the name dialled is `h'` with one pair of enclosing brackets
removed (`unbracket`; `dialName` is `create_connection`'s own `strip("[]")` of a name that still starts
with `[`, the identity otherwise).
-/
theorem C15_connect_target_partial (idna : Str → Option Str) (extra : PoolKey.Ctx) (u : Url.Url) (r : Route)
    (s hst : Str) (hs : u.scheme = some s) (hsch : s = http ∨ s = https) (hh : u.host = some hst)
    (hp0 : u.port ≠ some 0)
    (h : routeWith idna none extra u = .ok r) :
    r.dialPort = u.port.getD (schemeDefault s) ∧
    ∃ h', Url.normalizeHost idna (some hst) (some s) = .ok (some h') ∧
      r.dialHost = dialName (unbracket h') ∧
      (h'.head? ≠ some 91 → r.dialHost = h') ∧
      (∀ a, h' = 91 :: a ++ [93] → a.head? ≠ some 91 → r.dialHost = a) := by
  obtain ⟨h', tr, hn, -, -, hdh, hdp, -⟩ := route_direct_scheme hs hsch hh h
  constructor
  · rw [hdp]
    unfold effPort dfltPort
    have hso : schemeOrO u.scheme = s := by
      rw [hs]; rcases hsch with rfl | rfl <;> decide
    rw [hso]
    cases hp : u.port with
    | none => simp only [Option.getD_none]; rcases hsch with rfl | rfl <;> decide
    | some p =>
      have : p ≠ 0 := by intro e; subst e; exact hp0 hp
      simp [this]
  · refine ⟨h', hn, hdh, ?_, ?_⟩
    · intro hb
      rw [hdh, unbracket_of_head hb]
      simp [dialName, hb]
    · intro a ha hb
      rw [hdh, ha, unbracket_bracketed]
      simp [dialName, hb]

-- non-vacuity: "https://User@Example.COM:8443/a?b#c" goes to ("example.com", 8443);
-- "http://[FE80::1%25eth0]/" goes to ("fe80::1%eth0", 80)
example : (send1 none "https://User@Example.COM:8443/a?b#c").toOption.map (fun r => (r.dialHost, r.dialPort)) =
    some (lit "example.com", 8443) := by decide +kernel
example : (send1 none "http://[FE80::1%25eth0]/").toOption.map (fun r => (r.dialHost, r.dialPort)) =
    some (lit "fe80::1%eth0", 80) := by decide +kernel
example : (Url.parseUrl (lit "https://User@Example.COM:8443/a?b#c")).toOption.map
    (fun u => (u.scheme, u.host, u.port)) = some (some https, some (lit "example.com"), some 8443) := by
  decide +kernel

/-- known finding `port-zero-treated-as-absent`: "http://h:0/" parses with port 0, yet the connection
goes to port 80 and the `Host` header names no port -/
theorem C15_port_zero_witness :
    (Url.parseUrl (lit "http://h:0/")).toOption.map (·.port) = some (some 0) ∧
    (send1 none "http://h:0/").toOption.map (fun r => (r.dialHost, r.dialPort, r.hostHeader)) =
      some (lit "h", 80, [lit "h"]) := by
  decide +kernel

/-- known finding `zone-25-prefix-stripped-twice`: "http://[::1%2525a]/" has zone id "25a" (host
"[::1%25a]"); the pool normalises the host a second time and dials "::1%a" -/
theorem C15_zone25_witness :
    (Url.parseUrl (lit "http://[::1%2525a]/")).toOption.map (·.host) = some (some (lit "[::1%25a]")) ∧
    (send1 none "http://[::1%2525a]/").toOption.map (·.dialHost) = some (lit "::1%a") := by
  decide +kernel

/-
Full statement: the pool's second `_normalize_host` leaves the host `parse_url` returned alone (so that
`h' = hst` in the theorems above and below).  FALSE for an IPv6 zone id starting with `25`
(`C15_zone25_witness`).  Proved for: a lower-case ASCII name that is not a bracketed IPv6 literal
(reg-names, incl. A-labels), a dotted quad, a lower-case bracketed IPv6 literal without zone
(`StableHost`), and a bracketed IPv6 literal with lower-case address part and a normal-form zone id that
does NOT start with `25` + more (`StableZoned` — the exact complement of the finding among zoned
literals in parsed form).  Not proved: that `parse_url` returns only hosts of these shapes.
-/
theorem C15_host_stable_partial (idna : Str → Option Str) (hst s : Str) (hsch : s = http ∨ s = https)
    (h : StableHost hst ∨ StableZoned hst) : Url.normalizeHost idna (some hst) (some s) = .ok (some hst) := by
  rcases h with h | h
  · exact normalizeHost_stable idna hst s hsch h
  · exact normalizeHost_stable_zoned idna hst s hsch h

/-- hence, for these hosts, the socket is opened to the URL's own host text without its brackets and
the URL's port (or the scheme default) -/
theorem C15_connect_target_stable (idna : Str → Option Str) (extra : PoolKey.Ctx) (u : Url.Url) (r : Route)
    (s hst : Str) (hs : u.scheme = some s) (hsch : s = http ∨ s = https) (hh : u.host = some hst)
    (hp0 : u.port ≠ some 0) (hstab : StableHost hst ∨ StableZoned hst)
    (h : routeWith idna none extra u = .ok r) :
    r.dialPort = u.port.getD (schemeDefault s) ∧ r.dialHost = dialName (unbracket hst) ∧
    (hst.head? ≠ some 91 → r.dialHost = hst) ∧
    (∀ a, hst = 91 :: a ++ [93] → a.head? ≠ some 91 → r.dialHost = a) := by
  obtain ⟨h1, h', hn, h2, h3, h4⟩ := C15_connect_target_partial idna extra u r s hst hs hsch hh hp0 h
  rw [C15_host_stable_partial idna hst s hsch hstab] at hn
  simp only [Except.ok.injEq, Option.some.injEq] at hn
  subst hn
  exact ⟨h1, h2, h3, h4⟩

-- non-vacuity: the three shapes
example : StableHost (lit "xn--bcher-kva.example.com.") := Or.inl (by decide +kernel)
example : StableHost (lit "10.0.0.255") := Or.inr (Or.inl (by decide +kernel))
example : StableHost (lit "[2001:db8::8:800:200c:417a]") := Or.inr (Or.inr (by decide +kernel))
example : StableZoned (lit "[fe80::1%eth0]") :=
  ⟨by decide +kernel, by decide, lit "eth0", by decide, by decide,
    ⟨[.chr 101, .chr 116, .chr 104, .chr 48], by decide, by decide⟩⟩
-- the host of the finding is excluded: its zone id "25a" starts with "25"
example : isPrefix [50, 53] (lit "25a") = true ∧ lit "25a" ≠ [50, 53] := by decide
example : (Url.parseUrl (lit "http://[2001:DB8::8:800:200C:417A]:8080/")).toOption.map (·.host) =
    some (some (lit "[2001:db8::8:800:200c:417a]")) := by decide +kernel

example : (send1 none "http://[2001:DB8::8:800:200C:417A]:8080/").toOption.map (fun r => (r.dialHost, r.dialPort)) =
    some (lit "2001:db8::8:800:200c:417a", 8080) := by decide +kernel

/-- **Host header (direct).**  Exactly one `Host` line; it is computed from the same pool host `D`
(the re-normalised URL host without its brackets) and the same port as the connect target: the socket
goes to `dialName D`, `r.dialPort`; `Host` is `D` without trailing dots — for a name containing `:`
(IPv6) in one pair of brackets and cut at the zone delimiter `%` — followed by `:port` exactly when
the port differs from the scheme default. -/
theorem C15_host_header (idna : Str → Option Str) (extra : PoolKey.Ctx) (u : Url.Url) (r : Route)
    (s hst : Str) (hs : u.scheme = some s) (hsch : s = http ∨ s = https) (hh : u.host = some hst)
    (h : routeWith idna none extra u = .ok r) :
    ∃ h' D, Url.normalizeHost idna (some hst) (some s) = .ok (some h') ∧ D = unbracket h' ∧
      r.dialHost = dialName D ∧
      r.hostHeader = [hostText (rstripDot D) ++
        (if r.dialPort = schemeDefault s then [] else 58 :: Wire.toDec r.dialPort)] ∧
      (58 ∉ D → hostText (rstripDot D) = rstripDot D) ∧
      (58 ∈ D → hostText (rstripDot D) = 91 :: (rstripDot D).takeWhile (· != 37) ++ [93]) := by
  obtain ⟨h', tr, hn, -, -, hdh, hdp, -, -, -, hhh, -, -⟩ := route_direct_scheme hs hsch hh h
  refine ⟨h', unbracket h', hn, rfl, hdh, ?_, ?_, ?_⟩
  · rw [hhh, hdp]
    unfold hostHdrValue schemeDefault
    simp
  · intro h58
    rw [hostText_eq, contains58_rstripDot]
    simp [h58]
  · intro h58
    rw [hostText_eq, contains58_rstripDot]
    simp [h58]

/-- the same, read off the socket address: when the pool host does not start with `[` (the hosts
`parse_url` returns: a bracketed literal has lost its brackets, nothing else starts with one), the
`Host` header is literally the dialled name without trailing dots (in brackets and without zone id if
it contains `:`) and the dialled port (unless it is the scheme default) -/
theorem C15_host_header_names_dial_address (idna : Str → Option Str) (extra : PoolKey.Ctx) (u : Url.Url)
    (r : Route) (s hst : Str) (hs : u.scheme = some s) (hsch : s = http ∨ s = https) (hh : u.host = some hst)
    (hb : ∀ h', Url.normalizeHost idna (some hst) (some s) = .ok (some h') → (unbracket h').head? ≠ some 91)
    (h : routeWith idna none extra u = .ok r) :
    (58 ∉ r.dialHost → r.hostHeader = [rstripDot r.dialHost ++
        (if r.dialPort = schemeDefault s then [] else 58 :: Wire.toDec r.dialPort)]) ∧
    (58 ∈ r.dialHost → r.hostHeader = [91 :: (rstripDot r.dialHost).takeWhile (· != 37) ++ [93] ++
        (if r.dialPort = schemeDefault s then [] else 58 :: Wire.toDec r.dialPort)]) := by
  obtain ⟨h', D, hn, rfl, hdh, hhh, h1, h2⟩ := C15_host_header idna extra u r s hst hs hsch hh h
  have hD : r.dialHost = unbracket h' := by
    rw [hdh]
    unfold dialName
    rw [if_neg (hb h' hn)]
  rw [hD]
  refine ⟨fun h58 => ?_, fun h58 => ?_⟩
  · rw [hhh, h1 h58]
  · rw [hhh, h2 h58]

-- non-vacuity of `hb`: "[fe80::1%eth0]" re-normalises to itself, and "fe80::1%eth0" starts with no bracket
example : ∀ h', Url.normalizeHost (fun _ => none) (some (lit "[fe80::1%eth0]")) (some http) = .ok (some h') →
    (unbracket h').head? ≠ some 91 := by
  intro h' e
  have : Url.normalizeHost (fun _ => none) (some (lit "[fe80::1%eth0]")) (some http) =
      .ok (some (lit "[fe80::1%eth0]")) := by decide +kernel
  rw [this] at e
  simp only [Except.ok.injEq, Option.some.injEq] at e
  subst e
  decide

-- non-vacuity: trailing dot dropped, default port elided / odd port kept, IPv6 bracketed without zone
example : (send1 none "https://Example.COM.:443/").toOption.map (fun r => (r.dialHost, r.hostHeader)) =
    some (lit "example.com.", [lit "example.com"]) := by decide +kernel
example : (send1 none "http://[FE80::1%25eth0]:8080/").toOption.map (fun r => (r.dialHost, r.dialPort, r.hostHeader)) =
    some (lit "fe80::1%eth0", 8080, [lit "[fe80::1]:8080"]) := by decide +kernel

/-
Full statement (property text): the TLS server name is the host without brackets, zone id or trailing
dot.  FALSE when the zone id of an IPv6 literal contains a percent-escape (known findings
`sni:direct:…` / `sni:tunnel:zone-with-escape-cut-at-last-percent`, witness below): `rfind("%")` cuts
at the LAST `%`.

Proved: a plain-http request makes no handshake; an https request makes exactly one, and when the
pool host `D` has at most one `%` its server name is: for an IP literal — `D` without trailing dots,
without brackets, cut at the `%` (so: no zone id) —, for any other name `D` without trailing dots.
-/
theorem C15_sni_partial (idna : Str → Option Str) (extra : PoolKey.Ctx) (u : Url.Url) (r : Route)
    (s hst : Str) (hs : u.scheme = some s) (hsch : s = http ∨ s = https) (hh : u.host = some hst)
    (h : routeWith idna none extra u = .ok r) :
    ∃ h' D, Url.normalizeHost idna (some hst) (some s) = .ok (some h') ∧ D = unbracket h' ∧
      (s = http → r.tls = []) ∧
      (s = https → D.count 37 ≤ 1 →
        ∃ name, r.tls = [name] ∧
          name = (if isIpAddress ((stripBr (rstripDot D)).takeWhile (· != 37))
                  then (stripBr (rstripDot D)).takeWhile (· != 37) else rstripDot D) ∧
          (isIpAddress ((stripBr (rstripDot D)).takeWhile (· != 37)) = true → 37 ∉ name)) := by
  obtain ⟨h', tr, hn, -, -, -, -, htls, -⟩ := route_direct_scheme hs hsch hh h
  refine ⟨h', unbracket h', hn, rfl, ?_, ?_⟩
  · intro e; subst e
    have : http ≠ https := by decide
    rw [htls, if_neg this]
  · intro e h1; subst e
    refine ⟨_, by rw [htls]; simp, sniNorm_single (Nat.le_trans (count_rstripDot_le 37 _) h1), ?_⟩
    intro hip
    rw [sniNorm_single (Nat.le_trans (count_rstripDot_le 37 _) h1), if_pos hip]
    intro hm
    have := Url.mem_takeWhile_p hm
    simp at this

-- non-vacuity: zone and trailing dot are gone from the server name
example : (send1 none "https://[FE80::1%25eth0]/").toOption.map (·.tls) = some [lit "fe80::1"] := by decide +kernel
example : (send1 none "https://Example.COM./").toOption.map (·.tls) = some [lit "example.com"] := by decide +kernel
example : (lit "fe80::1%eth0").count 37 ≤ 1 := by decide

/-- known findings `sni:direct:zone-with-escape-cut-at-last-percent` and `sni:tunnel:…`:
"https://[fe80::1%25a%2fb]/" — zone id "a%2Fb" — handshakes with server name "fe80::1%a" (directly and
inside a CONNECT tunnel) -/
theorem C15_sni_zone_escape_witness :
    (send1 none "https://[fe80::1%25a%2fb]/").toOption.map (·.tls) = some [lit "fe80::1%a"] ∧
    (send1 (some pxHttp) "https://[fe80::1%25a%2fb]/").toOption.map (·.tls) = some [lit "fe80::1%a"] := by
  decide +kernel

/-! ## the request target -/

/-- **Neither userinfo nor fragment reaches the wire** (direct, tunnelled and forwarded routes, any
manager state, any carried headers): the whole observation — pool, address, TLS names, CONNECT, target,
`Host`, request bytes — and the manager's next state are unchanged when userinfo and fragment of the
URL are replaced by anything else.  (Before the repair of `target:forward:userinfo-kept` /
`…fragment-kept` this held only for routes that are not forwarded.) -/
theorem C15_target_no_fragment_no_userinfo (idna : Str → Option Str) (m : Mgr) (u : Url.Url)
    (carried : List (Str × Str)) (a f : Option Str) :
    route idna m { u with auth := a, fragment := f } carried = route idna m u carried :=
  route_auth_frag idna m u a f carried

-- instances: a forwarded and a tunnelled request with userinfo and fragment are the requests without
example : send1 (some pxHttp) "http://uSr:pw@example.com/p?q#frag" = send1 (some pxHttp) "http://example.com/p?q" := by
  decide +kernel
example : send1 (some pxHttp) "https://uSr:pw@example.com/p?q#frag" = send1 (some pxHttp) "https://example.com/p?q" := by
  decide +kernel
example : ((send1 (some pxHttp) "http://uSr:pw@example.com/p?q#frag").toOption.map (·.target)) =
    some (lit "http://example.com/p?q") := by decide +kernel

/-- **The request target (direct and tunnelled)** is `_encode_target(request_uri)`: it starts with `/`;
and when path and query are in normal form (every parsed http/https URL: `C14_normal_form`) it *is*
`request_uri` = the path (`/` when empty or absent) followed by `?query` when there is a query. -/
theorem C15_target_origin_form (idna : Str → Option Str) (extra : PoolKey.Ctx) (proxy : Option ProxyCfg)
    (u : Url.Url) (r : Route) (hst : Str) (hh : u.host = some hst)
    (hmode : proxy = none ∨
      ∃ p, proxy = some p ∧ u.scheme = some https ∧ isForwarding (some p) (some https) = false)
    (h : routeWith idna proxy extra u = .ok r) :
    Url.encodeTarget u.requestUri = .ok r.target ∧ r.target.head? = some 47 ∧
    ((∀ x, u.path = some x → Url.NormalForm Gen.pathChars x) →
     (∀ x, u.query = some x → Url.NormalForm Gen.queryChars x) →
      r.target = u.requestUri ∧ u.requestUri = pathOrSlash u ++ qSuffix u.query) := by
  have key : ∃ tr, u.requestUri.head? = some 47 ∧ Url.encodeTarget u.requestUri = .ok (47 :: tr) ∧
      r.target = 47 :: tr := by
    rcases hmode with rfl | ⟨p, rfl, hs, hnf⟩
    · obtain ⟨_, _, tr, _, _, _, h47, het, _, _, _, _, _, htg, _⟩ := route_direct_ok h
      exact ⟨tr, h47, het, htg⟩
    · obtain ⟨_, tr, _, _, _, het, _, _, _, _, _, htg, _⟩ := route_tunnel_ok hs hh hnf h
      obtain ⟨t', ht', _⟩ := encodeTarget_ok_eq het
      exact ⟨tr, by rw [ht']; rfl, het, htg⟩
  obtain ⟨tr, h47, het, htg⟩ := key
  refine ⟨by rw [htg]; exact het, by rw [htg]; rfl, ?_⟩
  intro hp hq
  have := encodeTarget_normal h47 hp hq
  rw [het] at this
  simp only [Except.ok.injEq] at this
  exact ⟨by rw [htg]; exact this, requestUri_eq u⟩

-- non-vacuity: "/" for the empty path, dot segments removed, query kept, fragment and userinfo absent
example : (send1 none "http://uSr:pw@example.com?q=1#frag").toOption.map (·.target) = some (lit "/?q=1") := by
  decide +kernel
example : (send1 (some pxHttp) "https://uSr@example.com/a/./b/../c?x y#frag").toOption.map (·.target) =
    some (lit "/a/c?x%20y") := by decide +kernel

/-- **The request bytes (direct)**: request line with the origin-form target, the automatic `Host`,
`Accept-Encoding: identity`, the default `User-Agent`, blank line — nothing else (in particular no
byte of the userinfo or the fragment: the right-hand side does not mention them). -/
theorem C15_request_bytes_direct (idna : Str → Option Str) (extra : PoolKey.Ctx) (u : Url.Url) (r : Route)
    (s hst : Str) (hs : u.scheme = some s) (hsch : s = http ∨ s = https) (hh : u.host = some hst)
    (h : routeWith idna none extra u = .ok r) :
    ∃ hv, r.hostHeader = [hv] ∧
      r.request = Wire.headBytes [methodGet ++ [32] ++ r.target ++ [32] ++ Wire.httpVsn,
        Wire.hdrLine (lit "Host", hv), Wire.hdrLine aeHdr, Wire.hdrLine uaHdr] := by
  obtain ⟨h', tr, -, -, -, -, -, -, -, htg, hhh, hreq, -⟩ := route_direct_scheme hs hsch hh h
  exact ⟨_, hhh, by rw [hreq, htg]; rfl⟩

example : (send1 none "http://u:p@h/a?b#c").toOption.map (·.request) =
    some (lit "GET /a?b HTTP/1.1\r\nHost: h\r\nAccept-Encoding: identity\r\nUser-Agent: " ++ Gen.defaultUserAgent ++
      lit "\r\n\r\n") := by decide +kernel

/-- **The request target (forwarding)**: no CONNECT is sent, and the absolute-form target names scheme,
host, port (as written), path and query — `scheme://host[:port]path[?query]` — and nothing else: never
the userinfo, never the fragment (the right-hand side does not mention them).  This is the full statement
of the property text for forwarded requests; it was FALSE before the repair of
`target:forward:userinfo-kept` / `target:forward:fragment-kept` (`HTTPConnectionPool.urlopen` sent
`parse_url(url).url`; it now sends `parse_url(url)._replace(auth=None, fragment=None).url`). -/
theorem C15_target_forward (idna : Str → Option Str) (extra : PoolKey.Ctx) (p : ProxyCfg)
    (u : Url.Url) (r : Route) (s hst : Str) (hs : u.scheme = some s) (hsch : s = http ∨ s = https)
    (hh : u.host = some hst)
    (hf : isForwarding (some p) u.scheme = true)
    (h : routeWith idna (some p) extra u = .ok r) :
    r.connect = none ∧
    r.target = s ++ [58, 47, 47] ++ hst ++ (match u.port with | some n => 58 :: Url.natToDec n | none => []) ++
      (match u.path with | some x => x | none => []) ++ qSuffix u.query := by
  obtain ⟨n, pl, -, -, -, -, -, -, -, -, -, -, hcon, htg, -⟩ :=
    route_forward_ok (by rcases hsch with rfl | rfl <;> simp [hs]) hf h
  refine ⟨hcon, ?_⟩
  rw [htg, absTarget_eq, hs, hh]
  rfl

-- non-vacuity: an http URL through an http proxy is forwarded
example : isForwarding (some pxHttp) (some http) = true := by decide
example : (send1 (some pxHttp) "http://Example.com:8080/a?b").toOption.map (·.target) =
    some (lit "http://example.com:8080/a?b") := by decide +kernel

/-- the inputs of the repaired findings `target:forward:userinfo-kept`, `target:forward:fragment-kept`
(and both at once): the absolute-form target carries neither userinfo nor fragment — for an http URL
through an http proxy and for an https URL through a forwarding https proxy -/
theorem C15_target_forward_userinfo_fragment_ok :
    (send1 (some pxHttp) "http://uSr:pw@example.com/p").toOption.map (·.target) =
      some (lit "http://example.com/p") ∧
    (send1 (some pxHttp) "http://example.com/p#frag").toOption.map (·.target) =
      some (lit "http://example.com/p") ∧
    (send1 (some pxHttpsFwd) "https://uSr@example.com/p#frag").toOption.map (·.target) =
      some (lit "https://example.com/p") := by
  decide +kernel

/-! ## equivalent URLs -/

/-
Full statement (property text): URLs that differ only in scheme/host letter case or an explicit
default port reach the same pool and produce byte-identical requests.  FALSE through a forwarding
proxy for the explicit default port (known finding `equiv:forward:bytes:explicit-default-port`,
witness below).

Proved (direct and tunnelled routes, every manager state, every carried headers): writing the scheme
default explicitly changes nothing — same pool id and pool key, same next manager state, same
address, TLS names, CONNECT, target, `Host` and request bytes.  Scheme and host letter case never reach
`route`: `parse_url` has lower-cased both (`C14_scheme_lower`, `C14_host_lower_partial`), and
`C15_scheme_case_parse` / `C15_host_case_parse_partial` below show at the text level that the
scheme's case — and, for plain reg-names, the host's — does not influence the parse at all.
-/
theorem C15_case_default_port_same_pool_same_bytes (idna : Str → Option Str) (m : Mgr) (u : Url.Url)
    (carried : List (Str × Str)) (s : Str) (hs : u.scheme = some s) (hsch : s = http ∨ s = https)
    (hp : u.port = none)
    (hnf : isForwarding m.proxy u.scheme = false) :
    route idna m { u with port := some (schemeDefault s) } carried = route idna m u carried := by
  refine route_congr idna m { u with port := some (schemeDefault s) } u carried rfl rfl ?_ rfl hnf
  show PoolKey.portOr (portVal (some (schemeDefault s))) (schemeOrO u.scheme) =
    PoolKey.portOr (portVal u.port) (schemeOrO u.scheme)
  rw [hp, hs]
  rcases hsch with rfl | rfl <;> decide

/-- **The scheme's letter case does not influence the parse** (text level): two URL texts that differ
only in the case of a well-formed scheme (`SchemeText`: a letter, then letters, digits, `+`, `-`)
parse to the same `Url` (or fail alike), hence are routed alike. -/
theorem C15_scheme_case_parse (idna : Str → Option Str) (sc₁ sc₂ rest : Str) (h1 : SchemeText sc₁)
    (hl : lower sc₁ = lower sc₂) (m : Mgr) (carried : List (Str × Str)) :
    Url.parseUrlWith idna (sc₁ ++ 58 :: rest) = Url.parseUrlWith idna (sc₂ ++ 58 :: rest) ∧
    routeUrl idna m (sc₁ ++ 58 :: rest) carried = routeUrl idna m (sc₂ ++ 58 :: rest) carried := by
  have := parseUrlWith_scheme_case idna sc₁ sc₂ rest h1 hl
  refine ⟨this, ?_⟩
  unfold routeUrl
  rw [this]

example : SchemeText (lit "hTTpS") := ⟨104, lit "TTpS", by decide, by decide, by decide⟩
example : lower (lit "hTTpS") = lower (lit "https") := by decide

/-
Full statement: URL texts that differ only in the host's letter case parse (and are routed) alike.
Proved for http/https URL texts `scheme://[userinfo@]HOST rest` whose HOST consists of letters, digits,
`-`, `.`, `_`, `~` (`hostPlainC`) and is no dotted quad, `rest` being empty or starting with `:`, `/`,
`?`, `#` or a backslash and containing no `@` before the authority ends.  Not covered: IPv6 literals
(hex digits are case-insensitive too; their zone ids are not), hosts with percent-escapes, IDN hosts
(`idna.encode` is an oracle).
-/
theorem C15_host_case_parse_partial (idna : Str → Option Str) (sc P au H₁ H₂ rest : Str) (hsc : SchemeText sc)
    (hs : lower sc = http ∨ lower sc = https) (hP : UiPrefix P au) (hPa : ∀ c ∈ P, Url.authChar c = true)
    (hH₁ : ∀ c ∈ H₁, hostPlainC c = true) (hH₂ : ∀ c ∈ H₂, hostPlainC c = true)
    (hl : lower H₁ = lower H₂) (h4₁ : Url.ipv4Match H₁ = false) (h4₂ : Url.ipv4Match H₂ = false)
    (hrest : rest = [] ∨ ∃ c t, rest = c :: t ∧ (c = 58 ∨ Url.authChar c = false))
    (h64 : 64 ∉ rest.takeWhile Url.authChar) (m : Mgr) (carried : List (Str × Str)) :
    Url.parseUrlWith idna (urlText sc P H₁ rest) = Url.parseUrlWith idna (urlText sc P H₂ rest) ∧
    routeUrl idna m (urlText sc P H₁ rest) carried = routeUrl idna m (urlText sc P H₂ rest) carried := by
  have := parseUrlWith_host_case idna sc P au H₁ H₂ rest hsc hs hP hPa hH₁ hH₂ hl h4₁ h4₂ hrest h64
  refine ⟨this, ?_⟩
  unfold routeUrl
  rw [this]

-- non-vacuity: "http://uSr@Example.COM:8080/a?b" vs "http://uSr@example.com:8080/a?b"
example : urlText (lit "http") (lit "uSr@") (lit "Example.COM") (lit ":8080/a?b") =
    lit "http://uSr@Example.COM:8080/a?b" := by decide
example : UiPrefix (lit "uSr@") (lit "uSr") := UiPrefix.some (lit "uSr")
example : (∀ c ∈ lit "uSr@", Url.authChar c = true) ∧ (∀ c ∈ lit "Example.COM", hostPlainC c = true) ∧
    (∀ c ∈ lit "example.com", hostPlainC c = true) ∧ lower (lit "Example.COM") = lower (lit "example.com") ∧
    Url.ipv4Match (lit "Example.COM") = false ∧ Url.ipv4Match (lit "example.com") = false ∧
    64 ∉ (lit ":8080/a?b").takeWhile Url.authChar := by decide
example : (Url.parseUrl (lit "http://uSr@Example.COM:8080/a?b")).toOption.map (·.host) =
    some (some (lit "example.com")) := by decide +kernel

-- non-vacuity: "https://example.com:443/p" and "https://example.com/p", directly and tunnelled
example : (send1 none "https://example.com:443/p") = (send1 none "https://EXAMPLE.com/p") := by decide +kernel
example : (send1 (some pxHttp) "https://example.com:443/p").toOption.map (·.request) =
    (send1 (some pxHttp) "HTTPS://example.COM/p").toOption.map (·.request) := by decide +kernel
example : ((send1 none "https://example.com:443/p").toOption.map (·.pool)).isSome = true := by decide +kernel

/-- **Same pool, sequentially.**  For every manager state reachable from a fresh manager (`Mgr.Sync`,
preserved by `route`): repeating a served request — or sending the same URL with the scheme default
written out (direct and tunnelled routes) — is served by the *same pool* (same id, same key), with
the identical observation, and leaves the manager as it is. -/
theorem C15_same_pool_again (idna : Str → Option Str) (m m1 : Mgr) (u : Url.Url) (c : List (Str × Str))
    (r : Route) (s : Str) (hw : m.Sync) (h : route idna m u c = (m1, .ok r))
    (hs : u.scheme = some s) (hsch : s = http ∨ s = https) (hp : u.port = none)
    (hnf : isForwarding m.proxy u.scheme = false) :
    route idna m1 u c = (m1, .ok r) ∧
    route idna m1 { u with port := some (schemeDefault s) } c = (m1, .ok r) ∧ m1.Sync := by
  obtain ⟨h1, h2⟩ := route_repeat hw h
  refine ⟨h1, ?_, h2⟩
  have hpx : m1.proxy = m.proxy := by
    have := route_proxy idna m u c hw
    rw [h] at this; exact this
  rw [C15_case_default_port_same_pool_same_bytes idna m1 u c s hs hsch hp (hpx ▸ hnf)]
  exact h1

/-- the invariant is that of every reachable state: it holds initially and `route` keeps it -/
theorem C15_sync_reachable (idna : Str → Option Str) (proxy : Option ProxyCfg) (extra : PoolKey.Ctx) :
    (Mgr.init proxy extra).Sync ∧
    ∀ m u c, m.Sync → (route idna m u c).1.Sync :=
  ⟨Mgr.sync_init proxy extra, fun m u c hw => route_sync idna m u c hw⟩

-- non-vacuity: two requests through one manager: the second lands in pool 0 as well
example : (hop2 none "https://example.com/p" "https://EXAMPLE.com:443/p").toOption.map (·.pool) = some 0 ∧
    (hop2 none "https://example.com/p" "http://example.com/p").toOption.map (·.pool) = some 1 := by
  decide +kernel

/-- `ProxyManager("https://[::2]:8443")` -/
def pxV6 : ProxyCfg := ⟨https, some (lit "[::2]"), 8443, false⟩

/-- Not a finding of this property, pinned because it bounds the harness's domain (notes/C15.md): an
https origin at the address of an https proxy gets the pool key of the proxy's own pool — the
forwarded http request and the tunnelled https request are served by ONE pool (id 0), in either order.
The harness therefore never sends such a URL through such a proxy. -/
theorem C15_origin_is_proxy_same_pool_witness :
    mkProxy (fun _ => none) (lit "https://[::2]:8443") false = .ok pxV6 ∧
    (hop2 (some pxV6) "http://example.com/" "https://[::2]:8443/x").toOption.map
      (fun r => (r.pool, r.connect.isSome)) = some (0, true) ∧
    (hop2 (some pxV6) "https://[::2]:8443/x" "http://example.com/").toOption.map
      (fun r => (r.pool, r.connect.isSome)) = some (0, false) := by
  decide +kernel

/-- known finding `equiv:forward:bytes:explicit-default-port`: through a forwarding proxy
"http://example.com:80/p" and "http://example.com/p" differ in the target and in the `Host` header -/
theorem C15_forward_explicit_default_port_witness :
    (send1 (some pxHttp) "http://example.com:80/p").toOption.map (fun r => (r.target, r.hostHeader)) =
      some (lit "http://example.com:80/p", [lit "example.com:80"]) ∧
    (send1 (some pxHttp) "http://example.com/p").toOption.map (fun r => (r.target, r.hostHeader)) =
      some (lit "http://example.com/p", [lit "example.com"]) := by
  decide +kernel

/-! ## tunnelled routes (https URL through a proxy that does not forward https) -/

/-- **Tunnel: address, CONNECT, SNI.**  The socket goes to the proxy; the CONNECT request names the
(re-normalised, lower-cased) URL host — an IPv6 literal in its brackets — and the defaulted port; the
last TLS handshake uses the tunnel host without trailing dots as server name (normalised as in
`C15_sni_partial`), preceded by one handshake with the proxy iff the proxy is https. -/
theorem C15_tunnel_connect (idna : Str → Option Str) (extra : PoolKey.Ctx) (p : ProxyCfg) (ph : Str)
    (u : Url.Url) (r : Route) (hst : Str) (hs : u.scheme = some https) (hh : u.host = some hst)
    (hph : p.host = some ph)
    (hnf : isForwarding (some p) (some https) = false)
    (h : routeWith idna (some p) extra u = .ok r) :
    ∃ h', Url.normalizeHost idna (some hst) (some https) = .ok (some h') ∧
      r.dialHost = dialName ph ∧ r.dialPort = p.port ∧
      r.connect = some (connectBytes (lower h') (effPort u)) ∧
      r.tls = (if p.scheme = https then [sniNorm (rstripDot ph)] else []) ++ [sniNorm (rstripDot (lower h'))] := by
  obtain ⟨h', tr, pl, hn, rfl, -, -, hdh, hdp, htls, hcon, -⟩ := route_tunnel_ok hs hh hnf h
  simp only [proxyAddr, hph] at hdh hdp htls
  exact ⟨h', hn, hdh, hdp, hcon, htls⟩

-- non-vacuity
example : (send1 (some pxHttp) "https://Example.COM:8443/").toOption.map
    (fun r => (r.dialHost, r.dialPort, r.tls, r.connect)) =
    some (lit "proxy.example", 3128, [lit "example.com"],
      some (lit "CONNECT example.com:8443 HTTP/1.1\r\nHost: example.com:8443\r\n\r\n")) := by decide +kernel

/-- **Host header (tunnel).**  Inside the tunnel there is exactly one `Host` line; it is computed from
`T = lower D`, the lower-cased pool host `D = unbracket h'` of the direct theorems (the tunnel host
`lower h'` the CONNECT request names, with its enclosing brackets removed), and the defaulted port the
CONNECT request names: `T` — for a name containing `:` (IPv6) in ONE pair of brackets and cut at the zone
delimiter `%` — followed by `:port` exactly when the port is not 443.  This is the full statement; it was
FALSE for IPv6 literals before the repair of `host-header:tunnel:ipv6-double-bracket` /
`host-header:tunnel:ipv6-zone-unbalanced-bracket` (`http.client` of CPython 3.12.1 computes `Host` from
`_tunnel_host` and brackets every host containing `:` — `HTTPConnection.putrequest` now hides the
brackets urllib3 itself put there for the CONNECT line). -/
theorem C15_host_header_tunnel (idna : Str → Option Str) (extra : PoolKey.Ctx) (p : ProxyCfg)
    (u : Url.Url) (r : Route) (hst : Str) (hs : u.scheme = some https) (hh : u.host = some hst)
    (hnf : isForwarding (some p) (some https) = false)
    (h : routeWith idna (some p) extra u = .ok r) :
    ∃ h' T, Url.normalizeHost idna (some hst) (some https) = .ok (some h') ∧ T = lower (unbracket h') ∧
      r.connect = some (connectBytes (lower h') (effPort u)) ∧
      r.hostHeader = [hostText T ++ (if effPort u = 443 then [] else 58 :: Wire.toDec (effPort u))] ∧
      (58 ∉ T → hostText T = T) ∧
      (58 ∈ T → hostText T = 91 :: T.takeWhile (· != 37) ++ [93]) := by
  obtain ⟨h', tr, pl, hn, rfl, -, -, -, -, -, hcon, -, hhh, -⟩ := route_tunnel_ok hs hh hnf h
  refine ⟨h', lower (unbracket h'), hn, rfl, hcon, ?_, ?_, ?_⟩
  · rw [hhh, unbracket_lower]
  · intro h58
    rw [hostText_eq]
    simp [h58]
  · intro h58
    rw [hostText_eq]
    simp [h58]

example : (send1 (some pxHttp) "https://Example.COM./p").toOption.map (·.hostHeader) = some [lit "example.com."] := by
  decide +kernel

/-- the inputs of the repaired findings `host-header:tunnel:ipv6-double-bracket` and
`host-header:tunnel:ipv6-zone-unbalanced-bracket`: one pair of brackets, no zone id — while the CONNECT
request keeps naming the bracketed literal -/
theorem C15_tunnel_ipv6_host_ok :
    (send1 (some pxHttp) "https://[::1]:8443/").toOption.map (·.hostHeader) = some [lit "[::1]:8443"] ∧
    (send1 (some pxHttp) "https://[fe80::1%25eth0]/").toOption.map (·.hostHeader) = some [lit "[fe80::1]"] ∧
    (send1 (some pxHttp) "https://[::1]:8443/").toOption.map (·.connect) =
      some (some (lit "CONNECT [::1]:8443 HTTP/1.1\r\nHost: [::1]:8443\r\n\r\n")) := by
  decide +kernel

/-! ## forwarding routes: the `Host` header -/

/-- **Forwarding: the address.**  The socket goes to the proxy: to the proxy host as `ProxyManager`
parsed it when the proxy or the URL is https (the carrying connection is built from `proxy.host`,
`proxy.port` directly); for an http URL through an http proxy the pool *is* the proxy's pool, so the
proxy host is re-normalised like any pool host (`ph'`, brackets removed). -/
theorem C15_forward_connect (idna : Str → Option Str) (extra : PoolKey.Ctx) (p : ProxyCfg) (ph : Str)
    (u : Url.Url) (r : Route) (hsc : u.scheme = some http ∨ u.scheme = some https)
    (hph : p.host = some ph) (hps : p.scheme = http ∨ p.scheme = https) (hpp : p.port ≠ 0)
    (hf : isForwarding (some p) u.scheme = true)
    (h : routeWith idna (some p) extra u = .ok r) :
    r.connect = none ∧ r.dialPort = p.port ∧
    ((p.scheme = https ∨ u.scheme = some https) → r.dialHost = dialName ph) ∧
    (p.scheme = http → u.scheme = some http →
      ∃ ph', Url.normalizeHost idna (some ph) (some http) = .ok (some ph') ∧
        r.dialHost = dialName (unbracket ph')) := by
  obtain ⟨n, pl, hst, pv, -, -, -, ht1, ht2, ht3, hdh, hdp, hcon, -⟩ := route_forward_ok hsc hf h
  have hpo : PoolKey.portOr (.int p.port) p.scheme = .int p.port := by
    have : ((p.port : Int) != 0) = true := by simp; omega
    simp [PoolKey.portOr, PoolKey.Val.truthy, this]
  rcases hsc with hu | hu
  · -- http URL: the pool is the proxy's
    have hne : ¬ (u.scheme = some https) := by rw [hu]; decide
    simp only [poolTarget, hne, if_false] at ht1 ht2 ht3
    rw [hph] at ht1
    simp only [Option.some.injEq] at ht1
    subst ht1
    have hso : schemeOrO (some p.scheme) = p.scheme := by
      rcases hps with e | e <;> rw [e] <;> decide
    rw [hso] at ht2 ht3
    rw [hpo] at ht2
    simp only [PoolKey.Val.int.injEq] at ht2
    subst ht2
    simp only [Int.toNat_natCast] at ht3
    obtain ⟨ph', hn', rfl⟩ := newPool_ok ht3
    rcases hps with e | e
    · have hb : (p.scheme == https) = false := by rw [e]; decide
      simp only [fwdAddr, hb, Bool.false_eq_true, if_false] at hdh hdp
      refine ⟨hcon, hdp, ?_, ?_⟩
      · rintro (e2 | e2)
        · rw [e] at e2; exact absurd e2 (by decide)
        · exact absurd e2 hne
      · intro _ _
        exact ⟨ph', by rw [← e]; exact hn', hdh⟩
    · have hb : (p.scheme == https) = true := by rw [e]; decide
      simp only [fwdAddr, hb, if_true, proxyAddr, hph] at hdh hdp
      refine ⟨hcon, hdp, fun _ => hdh, ?_⟩
      intro e2; rw [e] at e2; exact absurd e2 (by decide)
  · -- https URL (forwarding https proxy): the origin's pool, the connection goes to the proxy
    rw [poolTarget_https _ _ hu] at ht1 ht2 ht3
    have hso : schemeOrO u.scheme = https := by rw [hu]; decide
    simp only [hso] at ht3
    obtain ⟨h', -, rfl⟩ := newPool_ok ht3
    have hb : (https == https) = true := by decide
    simp only [fwdAddr, hb, if_true, proxyAddr, hph] at hdh hdp
    refine ⟨hcon, hdp, fun _ => hdh, ?_⟩
    intro _ e2; rw [hu] at e2; exact absurd e2 (by decide)

example : (send1 (some pxHttp) "http://Example.com:8080/a").toOption.map (fun r => (r.dialHost, r.dialPort)) =
    some (lit "proxy.example", 3128) := by decide +kernel
example : (send1 (some pxHttpsFwd) "https://Example.com:8080/a").toOption.map
    (fun r => (r.dialHost, r.dialPort, r.tls)) = some (lit "proxy.example", 443, [lit "proxy.example"]) := by
  decide +kernel

/-- **Host header (forwarding, fresh request).**  `_set_proxy_headers` supplies `Host: <netloc>`, where
`netloc` is `host[:port]` of the URL with the port as written (an explicit default port stays, port 0
goes: `Url.netloc`); this one caller header replaces `http.client`'s automatic one, and it is what
`kw["headers"]` carries on to a redirect follow-up. -/
theorem C15_host_header_forward (idna : Str → Option Str) (extra : PoolKey.Ctx) (p : ProxyCfg)
    (u : Url.Url) (r : Route) (hsc : u.scheme = some http ∨ u.scheme = some https)
    (hf : isForwarding (some p) u.scheme = true)
    (h : routeWith idna (some p) extra u = .ok r) :
    ∃ n, u.netloc = some n ∧ n ≠ [] ∧
      (n ≠ Gen.skipHeader → r.hostHeader = [n]) ∧
      r.kwHeaders = [acceptHdr, (lit "Host", n)] := by
  obtain ⟨n, pl, -, -, hn, hne, -, -, -, -, -, -, -, -, hhh, -, hkw⟩ := route_forward_ok hsc hf h
  refine ⟨n, hn, hne, ?_, hkw⟩
  intro hsk
  rw [hhh]
  simp [hsk]

example : (send1 (some pxHttp) "http://Example.com:8080/a").toOption.map (·.hostHeader) =
    some [lit "example.com:8080"] := by decide +kernel

/-- The general form of `host-header:forward:redirect-stale-host` (a theorem about the defect, not a
claim of the property): whatever URL the follow-up of a redirect goes to, when it is forwarded with
the headers the first hop left in `kw["headers"]` (`Accept`, `Host: n₀`), its `Host` header is the
FIRST hop's `n₀` — while the target is the new URL. -/
theorem C15_redirect_stale_host_forward (idna : Str → Option Str) (extra : PoolKey.Ctx) (p : ProxyCfg)
    (u : Url.Url) (r : Route) (n₀ : Str) (hsc : u.scheme = some http ∨ u.scheme = some https)
    (hf : isForwarding (some p) u.scheme = true) (hsk : n₀ ≠ Gen.skipHeader)
    (h : routeWith idna (some p) extra u [acceptHdr, (lit "Host", n₀)] = .ok r) :
    r.target = absTarget u ∧ r.hostHeader = [n₀] := by
  have hn : ∃ n, u.netloc = some n ∧ n ≠ [] := by
    unfold routeWith route at h
    have hsc' : (u.scheme = some http || u.scheme = some https) = true := by
      rcases hsc with e | e <;> simp [e]
    simp only [Mgr.init, Option.isSome_some, Bool.true_and, hsc', Bool.not_true, Bool.false_eq_true, if_false] at h
    split at h
    · simp at h
    · split at h
      · simp at h
      · rename_i hsend
        obtain ⟨n, _, _, _, hn', hne', _⟩ := send_forward_ok hf hsend
        exact ⟨n, hn', hne'⟩
  obtain ⟨n, hn1, hn2⟩ := hn
  obtain ⟨_, _, _, _, _, _, _, _, _, _, _, _, _, htg, hhh, _⟩ :=
    route_forward_carried hsc hf (proxyHeaders_carried hn1 hn2) h
  exact ⟨htg, by rw [hhh]; simp [hsk]⟩

-- non-vacuity: a follow-up to "http://b.example/next" carrying the first hop's headers
example : (routeWith (fun _ => none) (some pxHttp) []
      ⟨some http, none, some (lit "b.example"), none, some (lit "/next"), none, none⟩
      [acceptHdr, (lit "Host", lit "a.example")]).toOption.map (fun r => (r.target, r.hostHeader)) =
    some (lit "http://b.example/next", [lit "a.example"]) := by decide +kernel

/-- known findings `host-header:forward:redirect-stale-host` and
`host-header:tunnel:redirect-stale-host`: the follow-up request of a redirect carries the first hop's
computed `Host` (and `Accept`) as caller headers, which override the new URL's -/
theorem C15_redirect_stale_host_witness :
    (hop2 (some pxHttp) "http://a.example/" "http://b.example/next").toOption.map
      (fun r => (r.target, r.hostHeader)) = some (lit "http://b.example/next", [lit "a.example"]) ∧
    (hop2 (some pxHttp) "http://example.com/" "https://x1.y2/next").toOption.map
      (fun r => (r.connect, r.target, r.hostHeader)) =
      some (some (lit "CONNECT x1.y2:443 HTTP/1.1\r\nHost: x1.y2:443\r\n\r\n"), lit "/next", [lit "example.com"]) := by
  decide +kernel

/-! ## the stable shapes are all `parse_url` returns (closes the gap left by `C15_host_stable_partial`) -/

/-- **The pool's second `_normalize_host` leaves the host of every parsed http / https URL alone**,
except for the `zone25` shape of the known finding `zone-25-prefix-stripped-twice` (a bracketed literal
whose zone id starts with `25` and goes on, `C15_zone25_witness`): `parse_url` only returns hosts of the
`StableHost` / `StableZoned` shapes (`C14_parsed_host_shape`; `U3.Lemmas.UrlHost`, `U3.Lemmas.UrlRoute`).
Contract `IdnaLdh` on the uninterpreted `idna.encode`: answers consist of lower-case letters, digits,
`-`, `.`. -/
theorem C15_host_stable_of_parse (idna : Str → Option Str) (hc : Url.IdnaLdh idna) (url : Str) (u : Url.Url)
    (s hst : Str) (hparse : Url.parseUrlWith idna url = .ok u) (hs : u.scheme = some s)
    (hsch : s = http ∨ s = https) (hh : u.host = some hst) (h25 : Url.zone25 hst = false) :
    (StableHost hst ∨ StableZoned hst) ∧ Url.normalizeHost idna (some hst) (some s) = .ok (some hst) :=
  ⟨stable_of_parse hc hparse hs hsch hh h25,
   C15_host_stable_partial idna hst s hsch (stable_of_parse hc hparse hs hsch hh h25)⟩

/-- **Connect target, for every URL text a `PoolManager` accepts** (direct route): when the text parses
to an http / https URL with a host, the port is not an explicit 0 (finding `port-zero-treated-as-absent`)
and the host has not the `zone25` shape (finding `zone-25-prefix-stripped-twice`), the socket is opened
to the parsed host text without its brackets and to the URL's port or the scheme default. -/
theorem C15_connect_target_of_parse (idna : Str → Option Str) (hc : Url.IdnaLdh idna) (extra : PoolKey.Ctx)
    (url : Str) (u : Url.Url) (r : Route) (s hst : Str)
    (hparse : Url.parseUrlWith idna url = .ok u) (hs : u.scheme = some s) (hsch : s = http ∨ s = https)
    (hh : u.host = some hst) (hp0 : u.port ≠ some 0) (h25 : Url.zone25 hst = false)
    (h : routeWith idna none extra u = .ok r) :
    r.dialPort = u.port.getD (schemeDefault s) ∧ r.dialHost = dialName (unbracket hst) ∧
    (hst.head? ≠ some 91 → r.dialHost = hst) ∧
    (∀ a, hst = 91 :: a ++ [93] → a.head? ≠ some 91 → r.dialHost = a) :=
  C15_connect_target_stable idna extra u r s hst hs hsch hh hp0 (stable_of_parse hc hparse hs hsch hh h25) h

-- non-vacuity: the IDNA-free oracle keeps the contract; "http://[FE80::1%25eth0]:8080/" parses to host
-- "[fe80::1%eth0]", which has not the shape of the finding, and is dialled as "fe80::1%eth0", 8080; the
-- host of the finding, "[::1%25a]", has the shape
example : Url.IdnaLdh (fun _ => none) := by intro l r h; simp at h
example : (Url.parseUrl (lit "http://[FE80::1%25eth0]:8080/")).toOption.map (fun u => (u.scheme, u.host, u.port)) =
    some (some http, some (lit "[fe80::1%eth0]"), some 8080) := by decide +kernel
example : Url.zone25 (lit "[fe80::1%eth0]") = false ∧ Url.zone25 (lit "[::1%25a]") = true ∧
    Url.zone25 (lit "example.com") = false := by decide +kernel
example : (send1 none "http://[FE80::1%25eth0]:8080/").toOption.map (fun r => (r.dialHost, r.dialPort)) =
    some (lit "fe80::1%eth0", 8080) := by decide +kernel

/--
**The host's letter case does not influence the parse nor the routing — every kind of ASCII host text**
(extends `C15_host_case_parse_partial`, which covers plain reg-names only).  For http/https URL texts
`scheme://[userinfo@]HOST rest` whose HOST is a reg-name in the sense of `_HOST_PORT_RE` — any
characters but the delimiters, with or without `%HH` escapes (`Url.regText`; dotted quads included) — or
a bracketed IPv6 literal (`_IPV6_ADDRZ_RE`): two ASCII spellings of HOST that differ in letter case only
parse to the same `Url` (or fail alike) and are routed alike from every manager state.  A zone id is
case-sensitive on purpose, so for a literal with a zone id the part from `%` on must be spelled
identically (`hz`).  Rests on the case-blindness of the address matchers (`C14_matchers_case_blind`).
Not covered: IDN hosts (`idna.encode` is an oracle; non-ASCII case mapping is outside the model). -/
theorem C15_host_case_parse (idna : Str → Option Str) (sc P au H₁ H₂ rest : Str) (hsc : SchemeText sc)
    (hs : lower sc = http ∨ lower sc = https) (hP : UiPrefix P au) (hPa : ∀ c ∈ P, Url.authChar c = true)
    (hk₁ : Url.regText H₁ = true ∨ Url.ipv6AddrzMatch H₁ = true)
    (hk₂ : Url.regText H₂ = true ∨ Url.ipv6AddrzMatch H₂ = true)
    (ha₁ : H₁.all (· < 128) = true) (ha₂ : H₂.all (· < 128) = true) (hl : lower H₁ = lower H₂)
    (hz : Url.ipv6AddrzMatch H₁ = true → H₁.dropWhile (· != 37) = H₂.dropWhile (· != 37))
    (hrest : rest = [] ∨ ∃ c t, rest = c :: t ∧ (c = 58 ∨ Url.authChar c = false))
    (h64 : 64 ∉ rest.takeWhile Url.authChar) (m : Mgr) (carried : List (Str × Str)) :
    Url.parseUrlWith idna (urlText sc P H₁ rest) = Url.parseUrlWith idna (urlText sc P H₂ rest) ∧
    routeUrl idna m (urlText sc P H₁ rest) carried = routeUrl idna m (urlText sc P H₂ rest) carried := by
  have := parseUrlWith_host_case_gen idna sc P au H₁ H₂ rest hsc hs hP hPa hk₁ hk₂ ha₁ ha₂ hl hz hrest h64
  refine ⟨this, ?_⟩
  unfold routeUrl
  rw [this]

-- non-vacuity: "http://[FE80::A%25eth0]:8080/x" vs "http://[fe80::a%25eth0]:8080/x" (literal with the same
-- zone id), and "https://A%2Fb.COM/" vs "https://a%2fB.com/" (reg-name with an escape)
example : urlText (lit "http") [] (lit "[FE80::A%25eth0]") (lit ":8080/x") = lit "http://[FE80::A%25eth0]:8080/x" := by
  decide
example : Url.ipv6AddrzMatch (lit "[FE80::A%25eth0]") = true ∧ Url.ipv6AddrzMatch (lit "[fe80::a%25eth0]") = true ∧
    (lit "[FE80::A%25eth0]").all (· < 128) = true ∧ (lit "[fe80::a%25eth0]").all (· < 128) = true ∧
    lower (lit "[FE80::A%25eth0]") = lower (lit "[fe80::a%25eth0]") ∧
    (lit "[FE80::A%25eth0]").dropWhile (· != 37) = (lit "[fe80::a%25eth0]").dropWhile (· != 37) ∧
    64 ∉ (lit ":8080/x").takeWhile Url.authChar := by decide +kernel
example : (Url.parseUrl (lit "http://[FE80::A%25eth0]:8080/x")).toOption.map (·.host) =
    some (some (lit "[fe80::a%eth0]")) := by decide +kernel
example : Url.regText (lit "A%2Fb.COM") = true ∧ Url.regText (lit "a%2fB.com") = true ∧
    lower (lit "A%2Fb.COM") = lower (lit "a%2fB.com") ∧ Url.ipv6AddrzMatch (lit "A%2Fb.COM") = false := by
  decide +kernel
example : (Url.parseUrl (lit "https://A%2Fb.COM/")).toOption.map (·.host) = some (some (lit "a%2fb.com")) := by
  decide +kernel

end U3.Props
