import U3.Model.Tls
import U3.Lemmas.Tls
/-!
# C07 — an HTTPS request is sent only over a connection verified as configured

`U3.Tls.connect` / `urlopenOnce` transcribe `HTTPSConnection.connect`,
`_ssl_wrap_socket_and_match_hostname`, `_validate_conn` and the error path of `urlopen`;
`U3.Tls.demands` / `proxyDemands` is the independent statement of what the documented settings ask
for.  Every theorem is for **all** configurations (all strings, all contexts, all four proxy modes,
both backends) and **all** oracle values (chain verdicts, both name matchers, the digest
comparison, `is_ipaddress`), by case analysis — nothing is sampled.

`Cfg.WF` only excludes a hand-made `PyOpenSSLContext` whose inert `check_hostname` attribute was
set to `True` without `inject_into_urllib3()` (see `U3.Tls.CtxWF`).
-/
namespace U3.Props
open U3 U3.Tls

/-- A request is only sent (`connect` returned) if the peer of the request's TLS session passed
every check the settings demand — chain validation against the named anchors when the cert_reqs in
force is not NONE, the hostname match against `assert_hostname or server_hostname or host` unless
disabled or replaced by a pin, the pinned digest — and, when tunnelling through an https proxy,
the proxy passed the checks demanded of it. -/
theorem C07_sent_only_if_checked (cfg : Cfg) (o : Oracle) (k : Connected) (hwf : cfg.WF)
    (h : connect cfg o = .connected k) :
    Satisfied o.isIp (demands cfg) (requestPeer cfg o) ∧
    (∀ d, proxyDemands cfg = some d → Satisfied o.isIp d o.proxy) := by
  obtain ⟨obs, v, hw, _, hp⟩ := connect_connected h
  constructor
  · have := wrap_ok_satisfied _ _ _ _ _ _ _ _ _ _ _ _ hwf.1 hw
    rw [effective_eq_resolve, mainServerHostname_eq] at this
    exact this
  · intro d hd
    unfold proxyDemands at hd
    cases hmode : cfg.mode <;> simp only [hmode] at hd hp <;> try (cases hd)
    obtain ⟨obs', v', hw', _, _⟩ := hp
    have := wrap_ok_satisfied _ _ _ _ _ _ _ _ _ _ _ _ hwf.2 hw'
    rw [effective_eq_resolve] at this
    exact this

/-- the same, stated on the observable trace of one `urlopen`: a `request` event implies the checks -/
theorem C07_request_event_only_if_checked (cfg : Cfg) (o : Oracle) (hwf : cfg.WF)
    (h : (urlopenOnce cfg o).requestSent = true) :
    Satisfied o.isIp (demands cfg) (requestPeer cfg o) ∧
    (∀ d, proxyDemands cfg = some d → Satisfied o.isIp d o.proxy) := by
  unfold urlopenOnce at h
  split at h
  · simp [Outcome.requestSent, List.any_append, List.any_map] at h
  · rename_i k hk
    exact C07_sent_only_if_checked cfg o k hwf hk

/-- With every setting left at its default (no cert_reqs, no context, no assert_hostname, no pin)
the settings demand both chain validation and a hostname match against the host (or the
`server_hostname` override), without common-name fallback; so by `C07_sent_only_if_checked` a
request is only sent to a peer whose chain validates and whose certificate matches the name. -/
theorem C07_default_demands_both (cfg : Cfg)
    (h1 : cfg.certReqs = .unset) (h2 : cfg.sslContext = none)
    (h3 : cfg.assertHostname = .unset) (h4 : cfg.assertFingerprint = none) :
    (demands cfg).chain = true ∧ (demands cfg).name = some (targetName cfg, false) ∧ (demands cfg).pin = none := by
  simp [demands, peerDemand, effectiveCertReqs, h1, h2, h3, h4, fpTruthy, AssertHostname.isF]

theorem C07_default_checks_both (cfg : Cfg) (o : Oracle) (k : Connected)
    (h1 : cfg.certReqs = .unset) (h2 : cfg.sslContext = none)
    (h3 : cfg.assertHostname = .unset) (h4 : cfg.assertFingerprint = none)
    (hp : cfg.proxy.sslContext = none)
    (h : connect cfg o = .connected k) :
    chainOk (requestPeer cfg o) (demands cfg).trust = true ∧
    ((requestPeer cfg o).osslMatch (normServerHostname o.isIp (targetName cfg)) false = true ∨
     (requestPeer cfg o).u3Match (matchName o.isIp (normServerHostname o.isIp (targetName cfg))) false = true ∨
     (requestPeer cfg o).u3Match (matchName o.isIp (targetName cfg)) false = true) := by
  have hwf : cfg.WF := by simp [Cfg.WF, CtxWF, h2, hp]
  obtain ⟨⟨hc, hn, _⟩, _⟩ := C07_sent_only_if_checked cfg o k hwf h
  obtain ⟨d1, d2, _⟩ := C07_default_demands_both cfg h1 h2 h3 h4
  exact ⟨hc d1, hn _ _ d2⟩

/-- A failure (any exception out of `connect`) leaves no request event and the socket closed. -/
theorem C07_failure_closes (cfg : Cfg) (o : Oracle) (e : Exc)
    (h : (urlopenOnce cfg o).result = .error e) :
    (urlopenOnce cfg o).requestSent = false ∧ (urlopenOnce cfg o).closedAtEnd = true ∧
    (urlopenOnce cfg o).warned = false := by
  unfold urlopenOnce at h ⊢
  split
  · simp [Outcome.requestSent, Outcome.closedAtEnd, Outcome.warned, List.any_append, List.any_map,
      getLast?_cons_append_singleton]
  · rename_i k hk
    rw [hk] at h
    simp at h

/-- … and conversely a request event only occurs on a successful `connect`. -/
theorem C07_request_iff_connected (cfg : Cfg) (o : Oracle) :
    (urlopenOnce cfg o).requestSent = true ↔ ∃ k, connect cfg o = .connected k := by
  unfold urlopenOnce
  split
  · rename_i e hc ws sc hk
    simp only [Outcome.requestSent, List.any_append, List.any_map]
    constructor
    · intro hx; simp at hx
    · rintro ⟨k, hx⟩; rw [hk] at hx; cases hx
  · rename_i k hk
    constructor
    · intro _; exact ⟨k, hk⟩
    · intro _; simp [Outcome.requestSent, List.any_append]

/-- `is_verified` is only reported for a connection whose cert_reqs in force is REQUIRED or whose
certificate is pinned. -/
theorem C07_verified_sound (cfg : Cfg) (o : Oracle) (k : Connected)
    (h : connect cfg o = .connected k) (hv : k.isVerified = true) :
    effectiveCertReqs cfg = .required ∨ fpTruthy cfg.assertFingerprint = true := by
  obtain ⟨obs, v, hw, hiv, _⟩ := connect_connected h
  obtain ⟨hv', _⟩ := wrap_ok_verified _ _ _ _ _ _ _ _ _ _ _ _ hw
  rw [effective_eq_resolve] at hv'
  rw [hiv] at hv
  split at hv
  · cases hv
  · subst hv'
    simp at hv
    rcases hv with hv | hv
    · left; exact hv
    · right; exact hv

/-- the TLS layer is always entered with the verify_mode the settings put in force -/
theorem C07_verify_mode_in_force (cfg : Cfg) (o : Oracle) (k : Connected)
    (h : connect cfg o = .connected k) :
    ∀ w ∈ k.wraps, w.verifyMode = effectiveCertReqs cfg := by
  obtain ⟨obs, v, hw, _, hp⟩ := connect_connected h
  obtain ⟨_, hm⟩ := wrap_ok_verified _ _ _ _ _ _ _ _ _ _ _ _ hw
  rw [effective_eq_resolve] at hm
  cases hmode : cfg.mode <;> simp only [hmode] at hp
  · intro w hw'; rw [hp.2] at hw'; simp at hw'; subst hw'; exact hm
  · intro w hw'; rw [hp.2] at hw'; simp at hw'; subst hw'; exact hm
  · obtain ⟨obs', v', hwp, _, hws⟩ := hp
    obtain ⟨_, hm'⟩ := wrap_ok_verified _ _ _ _ _ _ _ _ _ _ _ _ hwp
    rw [effective_eq_resolve] at hm'
    intro w hw'; rw [hws] at hw'; simp at hw'
    rcases hw' with rfl | rfl
    · exact hm'
    · exact hm
  · intro w hw'; rw [hp.2] at hw'; simp at hw'; subst hw'; exact hm

theorem C07_unverified_never_reported_verified (cfg : Cfg) (o : Oracle) (k : Connected)
    (h : connect cfg o = .connected k)
    (hr : effectiveCertReqs cfg ≠ .required) (hf : fpTruthy cfg.assertFingerprint = false) :
    k.isVerified = false := by
  cases hv : k.isVerified
  · rfl
  · rcases C07_verified_sound cfg o k h hv with h1 | h1
    · exact absurd h1 hr
    · rw [hf] at h1; cases h1

/-- A direct or tunnelled connection made without certificate validation (cert_reqs in force other
than REQUIRED and no pinned fingerprint for the destination) triggers InsecureRequestWarning and is
never reported as verified — whatever the proxy hop looks like: inside a CONNECT tunnel
`_validate_conn` does not let `proxy_is_verified` (a pinned or validated https proxy) stand in for
the destination.  (Until the repair of `unverified-no-warning:tunnel-https-proxy:proxy-fingerprint-pinned`
this was only provable outside the corner "https proxy with `proxy_assert_fingerprint`".) -/
theorem C07_unverified_warns (cfg : Cfg) (o : Oracle) (k : Connected)
    (hm : cfg.mode ≠ .forwardHttps)                       -- "a direct or tunnelled connection"
    (h : connect cfg o = .connected k)
    (hr : effectiveCertReqs cfg ≠ .required) (hf : fpTruthy cfg.assertFingerprint = false) :
    validateConn cfg k = true ∧ k.isVerified = false := by
  have hiv := C07_unverified_never_reported_verified cfg o k h hr hf
  refine ⟨?_, hiv⟩
  obtain ⟨obs, v, hw, _, hp⟩ := connect_connected h
  unfold validateConn
  rw [hiv]
  cases hmode : cfg.mode <;> simp only [hmode] at hp
  · simp [hp.1, ProxyMode.tunneling]
  · simp [ProxyMode.tunneling]
  · simp [ProxyMode.tunneling]
  · exact absurd hmode hm

/-- the same on the observable trace of one `urlopen`: a request written over a direct or tunnelled
connection made without certificate validation is preceded by an InsecureRequestWarning -/
theorem C07_unverified_request_warned (cfg : Cfg) (o : Oracle)
    (hm : cfg.mode ≠ .forwardHttps)
    (h : (urlopenOnce cfg o).requestSent = true)
    (hr : effectiveCertReqs cfg ≠ .required) (hf : fpTruthy cfg.assertFingerprint = false) :
    (urlopenOnce cfg o).warned = true := by
  unfold urlopenOnce at h ⊢
  split
  · rename_i e hc ws sc hk
    rw [hk] at h
    simp [Outcome.requestSent, List.any_append, List.any_map] at h
  · rename_i k hk
    have := (C07_unverified_warns cfg o k hm hk hr hf).1
    simp [Outcome.warned, List.any_append, this]

/-- The warning is exactly "the TLS session the request travels in was made without verification":
in a tunnel (and directly) that is the destination's session, `is_verified`; when the request is
forwarded through an https proxy the proxy is the TLS peer and its verification decides, as before
the repair (`is_verified` is then always False — "forwarding proxies can never have a verified
target"). -/
theorem C07_warns_iff_request_session_unverified (cfg : Cfg) (o : Oracle) (k : Connected)
    (h : connect cfg o = .connected k) :
    validateConn cfg k =
      !(effectiveCertReqs cfg == .required || fpTruthy cfg.assertFingerprint) := by
  obtain ⟨obs, v, hw, hiv, hp⟩ := connect_connected h
  obtain ⟨hv, _⟩ := wrap_ok_verified _ _ _ _ _ _ _ _ _ _ _ _ hw
  rw [effective_eq_resolve] at hv
  unfold validateConn
  rw [hiv]
  cases hmode : cfg.mode <;> simp only [hmode] at hp
  · simp [hp.1, ProxyMode.tunneling, ← hv]
  · simp [ProxyMode.tunneling, ← hv]
  · simp [ProxyMode.tunneling, ← hv]
  · simp [hp.1, ProxyMode.tunneling, ← hv]

/-- Positive counterpart of the former negation witness (finding
`unverified-no-warning:tunnel-https-proxy:proxy-fingerprint-pinned`, now repaired), on the same
concrete input: tunnel through an https proxy whose certificate is pinned, `cert_reqs="NONE"`,
origin not pinned, origin from an unknown CA whose certificate matches nothing.  The request is
still sent (nothing was demanded of the origin), `is_verified` is False, `proxy_is_verified` is
True — and the InsecureRequestWarning is issued. -/
theorem C07_unverified_warns_pinned_proxy_ok :
    Ex.pinnedProxyTunnel.WF ∧ Ex.pinnedProxyTunnel.mode = .tunnelHttps ∧
    effectiveCertReqs Ex.pinnedProxyTunnel ≠ .required ∧
    fpTruthy Ex.pinnedProxyTunnel.assertFingerprint = false ∧
    ∃ k, connect Ex.pinnedProxyTunnel Ex.badOrigin = .connected k ∧
      k.isVerified = false ∧ k.proxyIsVerified = some true ∧
      validateConn Ex.pinnedProxyTunnel k = true ∧
      (urlopenOnce Ex.pinnedProxyTunnel Ex.badOrigin).requestSent = true ∧
      (urlopenOnce Ex.pinnedProxyTunnel Ex.badOrigin).warned = true :=
  ⟨by simp [Cfg.WF, CtxWF, Ex.pinnedProxyTunnel, Ex.dflt], rfl, by decide, rfl,
   _, rfl, rfl, rfl, rfl, rfl, rfl⟩

/-! ## The OS default trust store -/

/-- `context.load_default_certs()` is called for a TLS session **iff** no CA material (`ca_certs`,
`ca_cert_dir`, `ca_cert_data`) was configured and urllib3 built the context itself (no `ssl_context=`;
for the session with an https proxy we tunnel through: no `proxy_ssl_context=`) — a
`PyOpenSSLContext` has no such method.  For all configurations and oracles and for every TLS-layer
call on the trace of one `urlopen`, whether the request was sent or an exception came out. -/
theorem C07_default_store_iff_unconfigured (cfg : Cfg) (o : Oracle) (w : WrapObs)
    (hw : Event.wrap w ∈ (urlopenOnce cfg o).events) :
    w.loadDefault =
      (if cfg.mode = .tunnelHttps ∧ w.tlsInTls = false then
        !cfg.caGiven && cfg.proxy.sslContext.isNone && !cfg.env.isPyOpenSSL
       else !cfg.caGiven && cfg.sslContext.isNone && !cfg.env.isPyOpenSSL) := by
  have hmem : w ∈ (connect cfg o).wraps := by
    unfold urlopenOnce at hw
    split at hw
    · rename_i e hc ws sc hk
      rw [hk]
      simp only [ConnRes.wraps]
      simp only [List.mem_append, List.mem_map, List.mem_cons] at hw
      rcases hw with (hw | ⟨a, ha, hw⟩) | hw
      · rcases hw with hw | hw <;> cases hw
      · injection hw with hw; subst hw; exact ha
      · rcases hw with hw | hw <;> cases hw
    · rename_i k hk
      rw [hk]
      simp only [ConnRes.wraps]
      simp only [List.mem_append, List.mem_map, List.mem_cons] at hw
      rcases hw with ((hw | ⟨a, ha, hw⟩) | hw) | hw
      · rcases hw with hw | hw <;> cases hw
      · injection hw with hw; subst hw; exact ha
      · split at hw
        · simp at hw
        · cases hw
      · rcases hw with hw | hw <;> cases hw
  exact connect_wraps cfg o w hmem

/-- … which is exactly when the settings name the system store as a trust anchor (`demands`,
`proxyDemands`): on a successful `connect()` the request's session (the last TLS-layer call) and the
https proxy's session (the first one, when tunnelling) were each set up with the OS store loaded iff
the specification lists it — so together with `C07_sent_only_if_checked` the store is consulted when
demanded and only then. -/
theorem C07_default_store_as_demanded (cfg : Cfg) (o : Oracle) (k : Connected)
    (h : connect cfg o = .connected k) :
    (∀ w, k.wraps.getLast? = some w → w.loadDefault = (demands cfg).trust.system) ∧
    (∀ d, proxyDemands cfg = some d → ∀ w, k.wraps.head? = some w → w.loadDefault = d.trust.system) := by
  obtain ⟨obs, v, hw, _, hp⟩ := connect_connected h
  have ho := wrap_obs _ _ _ _ _ _ _ _ _ _ obs (by rw [hw]; rfl)
  constructor
  · intro w hlast
    have : w = obs := by
      cases hmode : cfg.mode <;> simp only [hmode] at hp
      · rw [hp.2] at hlast; simpa using hlast.symm
      · rw [hp.2] at hlast; simpa using hlast.symm
      · obtain ⟨obs', v', _, _, hws⟩ := hp
        rw [hws] at hlast; simpa using hlast.symm
      · rw [hp.2] at hlast; simpa using hlast.symm
    subst this
    rw [ho.1]
    simp [demands, peerDemand, wantsSystemStore]
  · intro d hd w hhead
    unfold proxyDemands at hd
    cases hmode : cfg.mode <;> simp only [hmode] at hd hp <;> try (cases hd)
    obtain ⟨obs', v', hw', _, hws⟩ := hp
    have ho' := wrap_obs _ _ _ _ _ _ _ _ _ _ obs' (by rw [hw']; rfl)
    rw [hws] at hhead
    simp at hhead
    subst hhead
    rw [ho'.1]
    simp [peerDemand, wantsSystemStore]

theorem C07_system_store_demanded_iff (cfg : Cfg) :
    (demands cfg).trust.system = true ↔
      cfg.caGiven = false ∧ cfg.sslContext = none ∧ cfg.env.isPyOpenSSL = false := by
  simp [demands, peerDemand, and_assoc]

/-- … and the store that was loaded counts: with every setting at its default and nothing configured
(stdlib backend, direct connection) a server whose chain validates against the OS default store
only, and whose certificate matches the requested name, is connected to and reported verified. -/
theorem C07_default_store_honoured (cfg : Cfg) (o : Oracle)
    (h1 : cfg.certReqs = .unset) (h2 : cfg.sslContext = none) (h3 : cfg.assertHostname = .unset)
    (h4 : cfg.assertFingerprint = none) (hca : cfg.caGiven = false) (hpy : cfg.env.isPyOpenSSL = false)
    (hm : cfg.mode = .direct)
    (hv : o.origin.validSystem = true)
    (hn1 : o.origin.osslMatch (normServerHostname o.isIp (targetName cfg)) false = true)
    (hn2 : o.origin.u3Match (matchName o.isIp (normServerHostname o.isIp (targetName cfg))) false = true) :
    ∃ k, connect cfg o = .connected k ∧ k.isVerified = true ∧ validateConn cfg k = false := by
  rw [← mainServerHostname_eq] at hn1 hn2
  unfold mainServerHostname at hn1 hn2
  simp only [hm, ProxyMode.tunneling] at hn1 hn2
  rcases hcfg : cfg with ⟨⟨py, ncn⟩, host, cr, ah, fp, sh, ctx, ca, mode, th, prx⟩
  rw [hcfg] at h1 h2 h3 h4 hca hpy hm hn1 hn2
  simp only at h1 h2 h3 h4 hca hpy hm hn1 hn2
  subst h1 h2 h3 h4 hca hpy hm
  simp only [Bool.false_eq_true, if_false] at hn1 hn2
  cases ncn <;>
    simp [connect, connectTail, wrapAndMatch, initCertReqs, resolveCertReqs, createUrllib3Context,
      freshContext, Ctx.setVerifyMode, Ctx.setCheckHostname, fpTruthy, AssertHostname.truthy,
      AssertHostname.isF, handshakeOk, chainOk, requestPeer, hv, hn1, hn2, validateConn,
      ProxyMode.tunneling, Bool.false_eq_true]

/-! ## Non-vacuity: concrete instances of the hypotheses -/

-- defaults, good peer: connected, verified, no warning, request sent
example : Ex.dflt.WF := by simp [Cfg.WF, CtxWF, Ex.dflt]
example : ∃ k, connect Ex.dflt Ex.good = .connected k ∧ k.isVerified = true ∧ validateConn Ex.dflt k = false :=
  ⟨_, rfl, rfl, rfl⟩
example : (urlopenOnce Ex.dflt Ex.good).requestSent = true := rfl
-- defaults, peer from an unknown CA: SSLError, no request, socket closed (hypothesis of C07_failure_closes)
example : (urlopenOnce Ex.dflt Ex.badOrigin).result = .error .sslError := rfl
example : (urlopenOnce Ex.dflt Ex.badOrigin).requestSent = false := rfl
-- hypotheses of C07_default_demands_both / C07_default_checks_both
example : Ex.dflt.certReqs = .unset ∧ Ex.dflt.sslContext = none ∧ Ex.dflt.assertHostname = .unset ∧
    Ex.dflt.assertFingerprint = none := ⟨rfl, rfl, rfl, rfl⟩
-- cert_reqs="NONE", direct: connected even to the bad peer, not verified, warning (C07_unverified_warns)
example : ∃ k, connect Ex.insecure Ex.badOrigin = .connected k ∧ k.isVerified = false ∧
    validateConn Ex.insecure k = true :=
  ⟨_, rfl, rfl, rfl⟩
example : effectiveCertReqs Ex.insecure ≠ .required ∧ fpTruthy Ex.insecure.assertFingerprint = false ∧
    Ex.insecure.mode ≠ .forwardHttps :=
  ⟨by decide, rfl, by decide⟩
-- … and the hypotheses of C07_unverified_warns / C07_unverified_request_warned in the repaired corner
example : effectiveCertReqs Ex.pinnedProxyTunnel ≠ .required ∧
    fpTruthy Ex.pinnedProxyTunnel.assertFingerprint = false ∧ Ex.pinnedProxyTunnel.mode ≠ .forwardHttps ∧
    (urlopenOnce Ex.pinnedProxyTunnel Ex.badOrigin).requestSent = true :=
  ⟨by decide, rfl, by decide, rfl⟩
-- forwarding through a validated https proxy with cert_reqs REQUIRED: is_verified False, the proxy's
-- verification suppresses the warning (behaviour kept); with cert_reqs="NONE" it warns
example : ∃ k, connect Ex.forwarding Ex.good = .connected k ∧ k.isVerified = false ∧
    k.proxyIsVerified = some true ∧ validateConn Ex.forwarding k = false := ⟨_, rfl, rfl, rfl, rfl⟩
example : ∃ k, connect { Ex.forwarding with certReqs := .short .none } Ex.good = .connected k ∧
    k.proxyIsVerified = some false ∧ validateConn { Ex.forwarding with certReqs := .short .none } k = true :=
  ⟨_, rfl, rfl, rfl⟩
-- the tunnel through a pinned https proxy is a model of the hypotheses of C07_sent_only_if_checked
-- with a non-trivial proxy demand
example : ∃ d, proxyDemands Ex.pinnedProxyTunnel = some d ∧ d.pin = some Ex.pin := ⟨_, rfl, rfl⟩
example : ∃ k, connect Ex.pinnedProxyTunnel Ex.good = .connected k ∧ k.wraps.length = 2 := ⟨_, rfl, rfl⟩

-- nothing configured, OS default store: Ex.sysDefault satisfies the hypotheses of C07_default_store_honoured,
-- the TLS layer is entered with the store loaded; with CA material configured (Ex.dflt) it is not
example : Ex.sysDefault.certReqs = .unset ∧ Ex.sysDefault.sslContext = none ∧ Ex.sysDefault.caGiven = false ∧
    Ex.sysDefault.env.isPyOpenSSL = false ∧ Ex.sysDefault.mode = .direct ∧ Ex.sysOnly.origin.validSystem = true ∧
    Ex.sysOnly.origin.validConfigured = false := ⟨rfl, rfl, rfl, rfl, rfl, rfl, rfl⟩
example : ∃ k, connect Ex.sysDefault Ex.sysOnly = .connected k ∧ k.isVerified = true ∧
    k.wraps.map (·.loadDefault) = [true] := ⟨_, rfl, rfl, rfl⟩
example : (urlopenOnce Ex.dflt Ex.sysOnly).result = .error .sslError := rfl
example : ∃ k, connect Ex.dflt Ex.good = .connected k ∧ k.wraps.map (·.loadDefault) = [false] := ⟨_, rfl, rfl⟩
-- tunnel through an https proxy: two TLS-layer calls, told apart by tls_in_tls (C07_default_store_iff_unconfigured)
example : ∃ k, connect { Ex.pinnedProxyTunnel with caGiven := false } Ex.good = .connected k ∧
    k.wraps.map (fun w => (w.tlsInTls, w.loadDefault)) = [(false, true), (true, true)] := ⟨_, rfl, rfl⟩

end U3.Props
