import U3.Model.Tls
import U3.Lemmas.Tls
/-!
# C07 — an HTTPS request is sent only over a connection verified as configured

`U3.Tls.connect` / `urlopenOnce` transcribe `HTTPSConnection.connect`,
`_ssl_wrap_socket_and_match_hostname`, `_validate_conn` and the error path of `urlopen`;
`U3.Tls.demands` / `proxyDemands` is the independent statement of what the documented settings ask
for.  Every theorem is for **all** configurations (all strings, all contexts, all four proxy modes,
both backends) and **all** oracle values (chain verdicts, both name matchers, the digest
comparison, `is_ipaddress`), by case analysis — nothing is sampled.

`Cfg.WF` only excludes a hand-made `PyOpenSSLContext` whose inert `check_hostname` attribute was
set to `True` without `inject_into_urllib3()` (see `U3.Tls.CtxWF`).
-/
namespace U3.Props
open U3 U3.Tls

/-- A request is only sent (`connect` returned) if the peer of the request's TLS session passed
every check the settings demand — chain validation against the named anchors when the cert_reqs in
force is not NONE, the hostname match against `assert_hostname or server_hostname or host` unless
disabled or replaced by a pin, the pinned digest — and, when tunnelling through an https proxy,
the proxy passed the checks demanded of it. -/
theorem C07_sent_only_if_checked (cfg : Cfg) (o : Oracle) (k : Connected) (hwf : cfg.WF)
    (h : connect cfg o = .connected k) :
    Satisfied o.isIp (demands cfg) (requestPeer cfg o) ∧
    (∀ d, proxyDemands cfg = some d → Satisfied o.isIp d o.proxy) := by
  obtain ⟨obs, v, hw, _, hp⟩ := connect_connected h
  constructor
  · have := wrap_ok_satisfied _ _ _ _ _ _ _ _ _ _ _ _ hwf.1 hw
    rw [effective_eq_resolve, mainServerHostname_eq] at this
    exact this
  · intro d hd
    unfold proxyDemands at hd
    cases hmode : cfg.mode <;> simp only [hmode] at hd hp <;> try (cases hd)
    obtain ⟨obs', v', hw', _, _⟩ := hp
    have := wrap_ok_satisfied _ _ _ _ _ _ _ _ _ _ _ _ hwf.2 hw'
    rw [effective_eq_resolve] at this
    exact this

/-- the same, stated on the observable trace of one `urlopen`: a `request` event implies the checks -/
theorem C07_request_event_only_if_checked (cfg : Cfg) (o : Oracle) (hwf : cfg.WF)
    (h : (urlopenOnce cfg o).requestSent = true) :
    Satisfied o.isIp (demands cfg) (requestPeer cfg o) ∧
    (∀ d, proxyDemands cfg = some d → Satisfied o.isIp d o.proxy) := by
  unfold urlopenOnce at h
  split at h
  · simp [Outcome.requestSent, List.any_append, List.any_map] at h
  · rename_i k hk
    exact C07_sent_only_if_checked cfg o k hwf hk

/-- With every setting left at its default (no cert_reqs, no context, no assert_hostname, no pin)
the settings demand both chain validation and a hostname match against the host (or the
`server_hostname` override), without common-name fallback; so by `C07_sent_only_if_checked` a
request is only sent to a peer whose chain validates and whose certificate matches the name. -/
theorem C07_default_demands_both (cfg : Cfg)
    (h1 : cfg.certReqs = .unset) (h2 : cfg.sslContext = none)
    (h3 : cfg.assertHostname = .unset) (h4 : cfg.assertFingerprint = none) :
    (demands cfg).chain = true ∧ (demands cfg).name = some (targetName cfg, false) ∧ (demands cfg).pin = none := by
  simp [demands, peerDemand, effectiveCertReqs, h1, h2, h3, h4, fpTruthy, AssertHostname.isF]

theorem C07_default_checks_both (cfg : Cfg) (o : Oracle) (k : Connected)
    (h1 : cfg.certReqs = .unset) (h2 : cfg.sslContext = none)
    (h3 : cfg.assertHostname = .unset) (h4 : cfg.assertFingerprint = none)
    (hp : cfg.proxy.sslContext = none)
    (h : connect cfg o = .connected k) :
    chainOk (requestPeer cfg o) (demands cfg).trust = true ∧
    ((requestPeer cfg o).osslMatch (normServerHostname o.isIp (targetName cfg)) false = true ∨
     (requestPeer cfg o).u3Match (matchName o.isIp (normServerHostname o.isIp (targetName cfg))) false = true ∨
     (requestPeer cfg o).u3Match (matchName o.isIp (targetName cfg)) false = true) := by
  have hwf : cfg.WF := by simp [Cfg.WF, CtxWF, h2, hp]
  obtain ⟨⟨hc, hn, _⟩, _⟩ := C07_sent_only_if_checked cfg o k hwf h
  obtain ⟨d1, d2, _⟩ := C07_default_demands_both cfg h1 h2 h3 h4
  exact ⟨hc d1, hn _ _ d2⟩

/-- A failure (any exception out of `connect`) leaves no request event and the socket closed. -/
theorem C07_failure_closes (cfg : Cfg) (o : Oracle) (e : Exc)
    (h : (urlopenOnce cfg o).result = .error e) :
    (urlopenOnce cfg o).requestSent = false ∧ (urlopenOnce cfg o).closedAtEnd = true ∧
    (urlopenOnce cfg o).warned = false := by
  unfold urlopenOnce at h ⊢
  split
  · simp [Outcome.requestSent, Outcome.closedAtEnd, Outcome.warned, List.any_append, List.any_map,
      getLast?_cons_append_singleton]
  · rename_i k hk
    rw [hk] at h
    simp at h

/-- … and conversely a request event only occurs on a successful `connect`. -/
theorem C07_request_iff_connected (cfg : Cfg) (o : Oracle) :
    (urlopenOnce cfg o).requestSent = true ↔ ∃ k, connect cfg o = .connected k := by
  unfold urlopenOnce
  split
  · rename_i e hc ws sc hk
    simp only [Outcome.requestSent, List.any_append, List.any_map]
    constructor
    · intro hx; simp at hx
    · rintro ⟨k, hx⟩; rw [hk] at hx; cases hx
  · rename_i k hk
    constructor
    · intro _; exact ⟨k, hk⟩
    · intro _; simp [Outcome.requestSent, List.any_append]

/-- `is_verified` is only reported for a connection whose cert_reqs in force is REQUIRED or whose
certificate is pinned. -/
theorem C07_verified_sound (cfg : Cfg) (o : Oracle) (k : Connected)
    (h : connect cfg o = .connected k) (hv : k.isVerified = true) :
    effectiveCertReqs cfg = .required ∨ fpTruthy cfg.assertFingerprint = true := by
  obtain ⟨obs, v, hw, hiv, _⟩ := connect_connected h
  obtain ⟨hv', _⟩ := wrap_ok_verified _ _ _ _ _ _ _ _ _ _ _ _ hw
  rw [effective_eq_resolve] at hv'
  rw [hiv] at hv
  split at hv
  · cases hv
  · subst hv'
    simp at hv
    rcases hv with hv | hv
    · left; exact hv
    · right; exact hv

/-- the TLS layer is always entered with the verify_mode the settings put in force -/
theorem C07_verify_mode_in_force (cfg : Cfg) (o : Oracle) (k : Connected)
    (h : connect cfg o = .connected k) :
    ∀ w ∈ k.wraps, w.verifyMode = effectiveCertReqs cfg := by
  obtain ⟨obs, v, hw, _, hp⟩ := connect_connected h
  obtain ⟨_, hm⟩ := wrap_ok_verified _ _ _ _ _ _ _ _ _ _ _ _ hw
  rw [effective_eq_resolve] at hm
  cases hmode : cfg.mode <;> simp only [hmode] at hp
  · intro w hw'; rw [hp.2] at hw'; simp at hw'; subst hw'; exact hm
  · intro w hw'; rw [hp.2] at hw'; simp at hw'; subst hw'; exact hm
  · obtain ⟨obs', v', hwp, _, hws⟩ := hp
    obtain ⟨_, hm'⟩ := wrap_ok_verified _ _ _ _ _ _ _ _ _ _ _ _ hwp
    rw [effective_eq_resolve] at hm'
    intro w hw'; rw [hws] at hw'; simp at hw'
    rcases hw' with rfl | rfl
    · exact hm'
    · exact hm
  · intro w hw'; rw [hp.2] at hw'; simp at hw'; subst hw'; exact hm

theorem C07_unverified_never_reported_verified (cfg : Cfg) (o : Oracle) (k : Connected)
    (h : connect cfg o = .connected k)
    (hr : effectiveCertReqs cfg ≠ .required) (hf : fpTruthy cfg.assertFingerprint = false) :
    k.isVerified = false := by
  cases hv : k.isVerified
  · rfl
  · rcases C07_verified_sound cfg o k h hv with h1 | h1
    · exact absurd h1 hr
    · rw [hf] at h1; cases h1

/- FULL STATEMENT (false for urllib3 as it is — see `C07_unverified_warns_counterexample`):

--  theorem C07_unverified_warns (cfg : Cfg) (o : Oracle) (k : Connected)
--      (hm : cfg.mode ≠ .forwardHttps)                       -- "a direct or tunnelled connection"
--      (h : connect cfg o = .connected k)
--      (hr : effectiveCertReqs cfg ≠ .required) (hf : fpTruthy cfg.assertFingerprint = false) :
--      validateConn k = true ∧ k.isVerified = false

The part that fails is the warning when the connection tunnels through an https proxy whose
certificate is pinned: `proxy_is_verified` is then True and `_validate_conn` tests
`not conn.is_verified and not conn.proxy_is_verified`.  Proved: the statement outside that corner,
and "never reported as verified" without restriction. -/
theorem C07_unverified_warns_partial (cfg : Cfg) (o : Oracle) (k : Connected)
    (hm : cfg.mode ≠ .forwardHttps)
    (hcorner : ¬ (cfg.mode = .tunnelHttps ∧ fpTruthy cfg.proxy.assertFingerprint = true))
    (h : connect cfg o = .connected k)
    (hr : effectiveCertReqs cfg ≠ .required) (hf : fpTruthy cfg.assertFingerprint = false) :
    validateConn k = true ∧ k.isVerified = false := by
  have hiv := C07_unverified_never_reported_verified cfg o k h hr hf
  refine ⟨?_, hiv⟩
  obtain ⟨obs, v, hw, _, hp⟩ := connect_connected h
  unfold validateConn
  rw [hiv]
  cases hmode : cfg.mode <;> simp only [hmode] at hp
  · simp [hp.1]
  · simp [hp.1]
  · obtain ⟨obs', v', hwp, hpiv, _⟩ := hp
    obtain ⟨hv', _⟩ := wrap_ok_verified _ _ _ _ _ _ _ _ _ _ _ _ hwp
    rw [effective_eq_resolve] at hv'
    have hpf : fpTruthy cfg.proxy.assertFingerprint = false := by
      cases hx : fpTruthy cfg.proxy.assertFingerprint
      · rfl
      · exact absurd ⟨hmode, hx⟩ hcorner
    have hne : (effectiveCertReqs cfg == VerifyMode.required) = false := by
      cases hx : effectiveCertReqs cfg <;> simp_all
    rw [hpf, hne] at hv'
    simp [hpiv, hv']
  · exact absurd hmode hm


/-- Negation witness of the full `C07_unverified_warns` (known finding
`unverified-no-warning:tunnel-https-proxy:proxy-fingerprint-pinned`): tunnel through an https proxy
whose certificate is pinned, `cert_reqs="NONE"`, origin not pinned — the request is sent over an
origin session made without any certificate validation (here even to a peer from an unknown CA whose
certificate matches nothing), `is_verified` is False, and no InsecureRequestWarning is issued. -/
theorem C07_unverified_warns_counterexample :
    ∃ cfg o k, cfg.WF ∧ cfg.mode = .tunnelHttps ∧ connect cfg o = .connected k ∧
      effectiveCertReqs cfg ≠ .required ∧ fpTruthy cfg.assertFingerprint = false ∧
      k.isVerified = false ∧ validateConn k = false ∧
      (urlopenOnce cfg o).requestSent = true ∧ (urlopenOnce cfg o).warned = false :=
  ⟨Ex.pinnedProxyTunnel, Ex.badOrigin, _, by simp [Cfg.WF, CtxWF, Ex.pinnedProxyTunnel, Ex.dflt], rfl, rfl,
   by decide, rfl, rfl, rfl, rfl, rfl⟩

/-! ## Non-vacuity: concrete instances of the hypotheses -/

-- defaults, good peer: connected, verified, no warning, request sent
example : Ex.dflt.WF := by simp [Cfg.WF, CtxWF, Ex.dflt]
example : ∃ k, connect Ex.dflt Ex.good = .connected k ∧ k.isVerified = true ∧ validateConn k = false :=
  ⟨_, rfl, rfl, rfl⟩
example : (urlopenOnce Ex.dflt Ex.good).requestSent = true := rfl
-- defaults, peer from an unknown CA: SSLError, no request, socket closed (hypothesis of C07_failure_closes)
example : (urlopenOnce Ex.dflt Ex.badOrigin).result = .error .sslError := rfl
example : (urlopenOnce Ex.dflt Ex.badOrigin).requestSent = false := rfl
-- hypotheses of C07_default_demands_both / C07_default_checks_both
example : Ex.dflt.certReqs = .unset ∧ Ex.dflt.sslContext = none ∧ Ex.dflt.assertHostname = .unset ∧
    Ex.dflt.assertFingerprint = none := ⟨rfl, rfl, rfl, rfl⟩
-- cert_reqs="NONE", direct: connected even to the bad peer, not verified, warning (C07_unverified_warns_partial)
example : ∃ k, connect Ex.insecure Ex.badOrigin = .connected k ∧ k.isVerified = false ∧ validateConn k = true :=
  ⟨_, rfl, rfl, rfl⟩
example : effectiveCertReqs Ex.insecure ≠ .required ∧ fpTruthy Ex.insecure.assertFingerprint = false ∧
    Ex.insecure.mode ≠ .forwardHttps ∧
    ¬ (Ex.insecure.mode = .tunnelHttps ∧ fpTruthy Ex.insecure.proxy.assertFingerprint = true) :=
  ⟨by decide, rfl, by decide, by decide⟩
-- the tunnel through a pinned https proxy is a model of the hypotheses of C07_sent_only_if_checked
-- with a non-trivial proxy demand
example : ∃ d, proxyDemands Ex.pinnedProxyTunnel = some d ∧ d.pin = some Ex.pin := ⟨_, rfl, rfl⟩
example : ∃ k, connect Ex.pinnedProxyTunnel Ex.good = .connected k ∧ k.wraps.length = 2 := ⟨_, rfl, rfl⟩

end U3.Props
