import U3.Lemmas.Wire
/-!
# C10 — no input can inject into or split the HTTP request on the wire

`serialize` is the transcription of `HTTPConnection.request` (`U3.Model.Wire`), `strictParse` the
independent permissive request-head parser.  Statements that do not hold of the code as it stands
are kept as comments next to the `…_partial` theorem together with a proved negation witness.
-/
namespace U3.Props
open U3 U3.Wire

/-- a small configuration used by the non-vacuity examples and witnesses -/
def c10cfg : Cfg := ⟨lit "h", 80, 80, 4, .ok [], .error .unicodeError⟩

/-
Full statement (Appendix E):  `serialize … = .error e → wireWritten … = []`.
It does NOT hold: `str` pieces of a lazily consumed body (iterable, text file) are encoded while the
body is being sent, after the head went out (`C10_fail_after_write_witness`); `C10_fail_before_write`
below states exactly which failures those are.  First the unconditional half: every
failure of the head phase — method / target / host / header validation, `SKIP_HEADER` misuse,
encoding failures, `body_to_chunks` (str body) — leaves nothing written.
-/
theorem C10_fail_before_write_partial (cfg : Cfg) (meth url : Str) (hs : List (Str × Str)) (body : Body)
    (ch : Bool) (e : Exc) (h : prepare cfg meth url hs body ch = .error e) :
    serialize cfg meth url hs body ch = .error e ∧ wireWritten cfg meth url hs body ch = [] := by
  simp [serialize, wireWritten, request, h]

example : serialize c10cfg (lit "GET") (lit "/a b") [] .none false = .error .invalidURL := by decide
example : serialize c10cfg (lit "GET") (lit "/") [(lit "X", [97, 13, 10, 98])] .none false = .error .valueError := by decide

/-- negation witness for the full statement: the call fails after bytes were written -/
theorem C10_fail_after_write_witness :
    serialize c10cfg (lit "POST") (lit "/") [] (.iter [.str [97], .str [0xDC80]] false) false
      = .error .unicodeEncodeError ∧
    wireWritten c10cfg (lit "POST") (lit "/") [] (.iter [.str [97], .str [0xDC80]] false) false ≠ [] := by
  decide

/-- The precise form of "fails before a single byte is written": when the call fails, either the head
phase failed and nothing was written, or the complete head was written and the failure is the
`UnicodeEncodeError` of a `str` piece of a lazily consumed body — an iterable, or a text file — i.e. a
body whose bytes (`payload`) do not exist.  (`C10_fail_after_write_witness` shows the second case is
real.) -/
theorem C10_fail_before_write (cfg : Cfg) (meth url : Str) (hs : List (Str × Str)) (body : Body) (ch : Bool)
    (e : Exc) (hbs : 0 < cfg.blocksize) (h : serialize cfg meth url hs body ch = .error e) :
    (prepare cfg meth url hs body ch = .error e ∧ wireWritten cfg meth url hs body ch = []) ∨
    (∃ p, prepare cfg meth url hs body ch = .ok p ∧ (bodyPhase p).err = some e ∧
      wireWritten cfg meth url hs body ch = headBytes p.lines ++ (bodyPhase p).written ∧
      e = .unicodeEncodeError ∧ payload body = none ∧ LazyText body) :=
  serialize_error_cases hbs h

/-- … hence for every body whose bytes exist (all `str` pieces encodable) a failing call writes nothing -/
theorem C10_fail_before_write_encodable (cfg : Cfg) (meth url : Str) (hs : List (Str × Str)) (body : Body)
    (ch : Bool) (e : Exc) (hbs : 0 < cfg.blocksize) (hb : (payload body).isSome = true)
    (h : serialize cfg meth url hs body ch = .error e) : wireWritten cfg meth url hs body ch = [] := by
  rcases serialize_error_cases hbs h with ⟨_, hw⟩ | ⟨p, _, _, _, _, hpn, _⟩
  · exact hw
  · rw [hpn] at hb; simp at hb

example : (payload (.iter [.str [0xE9], .bytes [1, 2]] true)).isSome = true := by decide
example : serialize c10cfg (lit "P T") (lit "/") [] (.iter [.str [0xE9]] true) false = .error .valueError := by decide

/-- For every accepted input the permissive parser reads the bytes written back as exactly one request
head with the requested method, the requested target (`url or '/'`) and the buffered header list
(values up to optional white space at the edges, folds kept verbatim); what follows the blank line is
exactly what the body phase wrote.  (Full statement: `putrequest` rejects the empty method, so no
hypothesis on the method is needed — `C10_empty_method_rejected`.) -/
theorem C10_one_request (cfg : Cfg) (meth url : Str) (hs : List (Str × Str)) (body : Body) (ch : Bool)
    (w : Bytes) (h : serialize cfg meth url hs body ch = .ok w) :
    ∃ p, prepare cfg meth url hs body ch = .ok p ∧
      strictParse w = some ⟨meth, urlOrSlash url, p.hdrs.map (fun h => (h.1, trimOWS h.2)), (bodyPhase p).written⟩ := by
  unfold serialize request at h
  cases hp : prepare cfg meth url hs body ch with
  | error e => simp [hp] at h
  | ok p =>
    simp only [hp] at h
    split at h
    · simp at h
    · simp at h
      subst h
      obtain ⟨hrl, hl⟩ := prepare_legal hp
      exact ⟨p, rfl, strictParse_prepared p meth url hrl hl _⟩

example : (serialize c10cfg (lit "GET") (lit "/") [(lit "X", [97, 13, 10, 32, 98])] .none false).toOption.isSome = true := by
  decide

/-- the empty method (which passes the token *search*) is refused before anything is written — the
input on which the unrepaired code wrote the unparseable request line `" / HTTP/1.1"` -/
theorem C10_empty_method_rejected :
    serialize c10cfg [] (lit "/") [] .none false = .error .valueError ∧
    wireWritten c10cfg [] (lit "/") [] .none false = [] := by
  decide

/-- … and in general: an accepted method is a non-empty string of token characters -/
theorem C10_method_token (cfg : Cfg) (meth url : Str) (hs : List (Str × Str)) (body : Body) (ch : Bool)
    (p : Prepared) (h : prepare cfg meth url hs body ch = .ok p) :
    meth ≠ [] ∧ ∀ c ∈ meth, isTokenC c = true := by
  obtain ⟨hrl, _⟩ := prepare_legal h
  exact ⟨hrl.ne, by simpa [List.all_eq_true] using hrl.tok⟩

example : (prepare c10cfg (lit "GET") (lit "/") [] .none false).toOption.isSome = true := by decide

/-- accepted header lines can never break out of their line: every CR / LF inside a buffered header
line is followed by SP / HTAB (a fold), and no line starts with white space -/
theorem C10_header_lines_safe (cfg : Cfg) (meth url : Str) (hs : List (Str × Str)) (body : Body) (ch : Bool)
    (p : Prepared) (h : prepare cfg meth url hs body ch = .ok p) :
    ∀ l ∈ p.hdrs.map hdrLine, GoodLine l := by
  intro l hl
  simp only [List.mem_map] at hl
  obtain ⟨hd, hh, rfl⟩ := hl
  exact goodLine_hdr hd ((prepare_legal h).2 hd hh)

/-- Automatic headers: the buffered header list is
`Host? ++ Accept-Encoding? ++ framing? ++ User-Agent? ++ caller's lines` (the caller's lines are exactly
those not carrying `SKIP_HEADER`, names and values verbatim), where each automatic header is present
iff the caller's header names (lower-cased; a `SKIP_HEADER` entry counts) do not contain it, and the
framing part is empty, or `Transfer-Encoding: chunked` (only if the caller has no Transfer-Encoding),
or `Content-Length: n` (only if the caller has neither framing header and chunking was not requested) -/
theorem C10_auto_headers (cfg : Cfg) (meth url : Str) (headers : List (Str × Str)) (body : Body) (ch : Bool)
    (p : Prepared) (h : prepare cfg meth url headers body ch = .ok p) :
    ∃ hostL aeL frL uaL,
      p.hdrs = hostL ++ aeL ++ frL ++ uaL ++ callerHdrs headers ∧
      (if (headerKeys headers).contains (lit "host") then hostL = [] else ∃ v, hostL = [(lit "Host", v)]) ∧
      (if (headerKeys headers).contains (lit "accept-encoding") then aeL = []
       else aeL = [(lit "Accept-Encoding", lit "identity")]) ∧
      (if (headerKeys headers).contains (lit "user-agent") then uaL = []
       else uaL = [(lit "User-Agent", Gen.defaultUserAgent)]) ∧
      (frL = [] ∨
       (frL = [(lit "Transfer-Encoding", lit "chunked")] ∧ (headerKeys headers).contains (lit "transfer-encoding") = false) ∨
       (∃ n, frL = [(lit "Content-Length", toDec n)] ∧ (headerKeys headers).contains (lit "content-length") = false ∧
          (headerKeys headers).contains (lit "transfer-encoding") = false ∧ ch = false)) :=
  prepare_hdrs h

example : (serialize c10cfg (lit "GET") (lit "/") [(lit "HOST", lit "x"), (lit "User-Agent", Gen.skipHeader)] .none false).toOption
    = some (lit "GET / HTTP/1.1\r\nAccept-Encoding: identity\r\nHOST: x\r\n\r\n") := by decide

/-- After `urlopen`'s re-encoding (`_encode_target`) the target consists of visible ASCII other than
`#` only: no byte ≤ 0x20, no 0x7F, nothing ≥ 0x80, no `#` — for every string of code points. -/
theorem C10_target_clean (t s : Str) (hv : ∀ c ∈ t, c < 0x110000) (h : encodeTarget t = .ok s) :
    ∀ c ∈ s, 0x20 < c ∧ c < 0x7f ∧ c ≠ 35 :=
  encodeTarget_clean t s hv h

example : encodeTarget (lit "/a b\r\n?x y#frag") = .ok (lit "/a%20b%0D%0A?x%20y") := by decide

/-- … and so is the target of every request `HTTPConnectionPool.urlopen` writes for an origin-form URL -/
theorem C10_pool_target_clean (cfg : Cfg) (meth t : Str) (hs : List (Str × Str)) (body : Body) (ch : Bool) (w : Bytes)
    (hv : ∀ c ∈ t, c < 0x110000) (h : poolSerialize cfg meth t hs body ch = .ok w) :
    ∃ r, strictParse w = some r ∧ r.method = meth ∧ ∀ c ∈ r.target, 0x20 < c ∧ c < 0x7f ∧ c ≠ 35 := by
  unfold poolSerialize at h
  obtain ⟨t', ht, h⟩ := bind_ok h
  obtain ⟨p, _, hp⟩ := C10_one_request cfg meth t' hs body ch w h
  refine ⟨_, hp, rfl, ?_⟩
  intro c hc
  simp only [urlOrSlash] at hc
  split at hc
  · simp at hc; subst hc; decide
  · exact encodeTarget_clean t t' hv ht c hc

/-- An accepted HTTP/2 field name consists of lower-case RFC 9113 token characters only (and is not
empty) and an accepted value has no NUL / CR / LF and no white space at its edges.  (Full statement:
the name pattern ends in `\Z`, so a trailing line feed is not accepted any more —
`C10_h2_trailing_lf_rejected`.) -/
theorem C10_h2_header_validity (name value : Str) (n v : Bytes) (h : h2Putheader name value = .ok (n, v)) :
    (∀ c ∈ n, isH2NameC c = true) ∧ n ≠ [] ∧
    (∀ c ∈ v, c ≠ 0 ∧ c ≠ 10 ∧ c ≠ 13) ∧ (∀ c, v.head? = some c → isWS c = false) ∧
    (∀ c, v.getLast? = some c → isWS c = false) := by
  unfold h2Putheader at h
  split at h
  · simp at h
  · rename_i n0 hn0
    split at h
    · simp at h
    · rename_i hname
      split at h
      · simp at h
      · rename_i v0 hv0
        split at h
        · simp at h
        · rename_i hval
          simp only [Except.ok.injEq, Prod.mk.injEq] at h
          obtain ⟨rfl, rfl⟩ := h
          simp only [h2LegalName, Bool.not_eq_false, Bool.and_eq_true,
            Bool.not_eq_true', List.all_eq_true] at hname
          simp only [h2IllegalValue, Bool.not_eq_true, Bool.or_eq_false_iff, List.any_eq_false] at hval
          obtain ⟨hne, hall⟩ := hname
          obtain ⟨⟨hany, hhead⟩, hlast⟩ := hval
          refine ⟨?_, ?_, ?_, ?_, ?_⟩
          · exact hall
          · intro e
            simp [e] at hne
          · intro c hc
            have := hany c hc
            simp at this
            omega
          · intro c hc
            simp only [hc] at hhead
            simp [h2EdgeC] at hhead
            simp [isWS]; omega
          · intro c hc
            simp only [hc] at hlast
            simp [h2EdgeC] at hlast
            simp [isWS]; omega

example : h2Putheader (lit "X-A") (lit "v") = .ok (lit "x-a", lit "v") := by decide

/-- the field name `"a\n"`, which the unrepaired pattern (`…+$`) accepted, is refused -/
theorem C10_h2_trailing_lf_rejected : h2Putheader [97, 10] [118] = .error .valueError := by decide

end U3.Props
