import U3.Model.Lru
import U3.Lemmas.Lru
import U3.Gen.Collections
/-!
# C17 — the pool cache is bounded, consistent, and never leaks an evicted pool

Model: `U3.Lru` (`RecentlyUsedContainer`), `U3.Conc` (lock-granularity interleavings), `U3.Mgr`
(`PoolManager.connection_from_pool_key` / `clear` / finalizer).  Every reachable state of the
container is `(run (new cap) ops).c` for some `ops`, so the sequential theorems below quantify over
all op sequences of any length, all keys, all values and every `maxsize`.
-/
namespace U3.Props
open U3 U3.Lru

/-! ## sequential -/

/-- at most `maxsize` entries in every reachable state -/
theorem C17_bounded (cap : Nat) (ops : List Op) : (run (new cap) ops).c.items.length ≤ cap :=
  run_bounded (new cap) ops (Nat.zero_le _)

/-- it is a map: keys pairwise distinct in every reachable state -/
theorem C17_keys_unique (cap : Nat) (ops : List Op) : ((run (new cap) ops).c.items.map (·.1)).Nodup :=
  run_nodup (new cap) ops (by simp [new])

/-- conservation = dispose exactly once: the values ever inserted are, as a multiset, exactly the
values still held plus the values passed to `dispose_func` (so an evicted / replaced / deleted /
cleared value is disposed once, a held value never, and nothing is disposed twice or invented) -/
theorem C17_dispose_exactly_once (cap : Nat) (ops : List Op) :
    (inserted ops).Perm ((run (new cap) ops).c.items.map (·.2) ++ (run (new cap) ops).disposed) := by
  simpa [new] using run_conserve (new cap) ops

/-- LRU order as refinement to the timestamp specification.  `stamps` records, independently of the
container, the time of the last touch of every key (`get`, `in`, `.get()` and `set` are touches).
(1) the container's order is exactly the order of last touches; (2) inserting a new key into a full
container evicts (disposes) exactly the entry at the head, whose last touch is older than that of
every entry that stays. -/
theorem C17_lru_order (cap : Nat) (ops : List Op) :
    let c := (run (new cap) ops).c
    let s := stamps Stamps.init ops
    c.items.Pairwise (fun a b => s.last a.1 < s.last b.1) ∧
    ∀ k v, pop c.items k = none → cap ≤ c.items.length →
      ∃ ek ev rest, c.items ++ [(k, v)] = (ek, ev) :: rest ∧
        step c (.set k v) = ({ c with items := rest }, .unit, [ev]) ∧
        ∀ a ∈ rest, a.1 ≠ k → s.last ek < s.last a.1 := by
  intro c s
  have hr : Recency c.items s.last s.clock :=
    run_recency (new cap) Stamps.init ops (by simp [new]) ⟨by simp [new], by simp [new]⟩
  refine ⟨hr.1, ?_⟩
  intro k v hp hfull
  have hcap : c.cap = cap := run_cap (new cap) ops
  obtain ⟨ek, ev, rest, he, hs⟩ := step_set_evict v hp (by rw [hcap]; exact hfull)
  refine ⟨ek, ev, rest, he, hs, ?_⟩
  intro a ha hak
  cases hi : c.items with
  | nil =>
    rw [hi] at he; simp at he
    obtain ⟨_, rfl⟩ := he
    simp at ha
  | cons b t =>
    rw [hi] at he; simp at he
    obtain ⟨rfl, rfl⟩ := he
    simp at ha
    rcases ha with ha | rfl
    · have := hr.1
      rw [hi] at this
      exact (List.pairwise_cons.mp this).1 a ha
    · exact absurd rfl hak

/-- non-vacuity: a `get` refreshes recency, so key 2 (not key 1) is the victim -/
example : (run (new 2) [.set 1 10, .set 2 20, .get 1, .set 3 30]).disposed = [20] ∧
    (run (new 2) [.set 1 10, .set 2 20, .get 1, .set 3 30]).c.items = [(1, 10), (3, 30)] := by decide
/-- non-vacuity: replace, delete, clear and `maxsize = 0` all dispose -/
example : (run (new 2) [.set 1 10, .set 1 11, .set 2 20, .del 1, .clear]).disposed = [10, 11, 20] ∧
    (run (new 0) [.set 1 10]).disposed = [10] ∧ (run (new 0) [.set 1 10]).c.items = [] := by decide
/-- non-vacuity of the hypotheses of `C17_lru_order` (2): a full container and a new key -/
example : pop (run (new 2) [.set 1 10, .set 2 20]).c.items 3 = none ∧
    2 ≤ (run (new 2) [.set 1 10, .set 2 20]).c.items.length := by decide

/-- the structural premise of the interleaving model, read from the source on every run: every
method of `RecentlyUsedContainer` touches `_container` only under `with self.lock:` and calls
`dispose_func` only outside it; and the methods the model has transitions for are all listed. -/
theorem C17_lock_discipline_fact :
    (∀ m ∈ Gen.rucLockDiscipline, m.2.1 = true ∧ m.2.2 = true) ∧
    (∀ n ∈ ["__getitem__", "__setitem__", "__delitem__", "clear", "__len__", "keys"],
      n ∈ Gen.rucLockDiscipline.map (·.1)) := by
  decide

end U3.Props
