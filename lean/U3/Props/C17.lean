import U3.Model.Lru
import U3.Lemmas.Lru
import U3.Gen.Collections
import U3.Gen.Lru
/-!
# C17 — the pool cache is bounded, consistent, and never leaks an evicted pool

Model: `U3.Lru` (`RecentlyUsedContainer`), `U3.Conc` (lock-granularity interleavings), `U3.Mgr`
(`PoolManager.connection_from_pool_key` / `clear` / finalizer).  Every reachable state of the
container is `(run (new cap) ops).c` for some `ops`, so the sequential theorems below quantify over
all op sequences of any length, all keys, all values and every `maxsize`.
-/
namespace U3.Props
open U3 U3.Lru

/-! ## sequential -/

/-- at most `maxsize` entries in every reachable state -/
theorem C17_bounded (cap : Nat) (ops : List Op) : (run (new cap) ops).c.items.length ≤ cap :=
  run_bounded (new cap) ops (Nat.zero_le _)

/-- it is a map: keys pairwise distinct in every reachable state -/
theorem C17_keys_unique (cap : Nat) (ops : List Op) : ((run (new cap) ops).c.items.map (·.1)).Nodup :=
  run_nodup (new cap) ops (by simp [new])

/-- conservation = dispose exactly once: the values ever inserted are, as a multiset, exactly the
values still held plus the values passed to `dispose_func` (so an evicted / replaced / deleted /
cleared value is disposed once, a held value never, and nothing is disposed twice or invented) -/
theorem C17_dispose_exactly_once (cap : Nat) (ops : List Op) :
    (inserted ops).Perm ((run (new cap) ops).c.items.map (·.2) ++ (run (new cap) ops).disposed) := by
  simpa [new] using run_conserve (new cap) ops

/-- LRU order as refinement to the timestamp specification.  `stamps` records, independently of the
container, the time of the last touch of every key (`get`, `in`, `.get()` and `set` are touches).
(1) the container's order is exactly the order of last touches; (2) inserting a new key into a full
container evicts (disposes) exactly the entry at the head, whose last touch is older than that of
every entry that stays. -/
theorem C17_lru_order (cap : Nat) (ops : List Op) :
    let c := (run (new cap) ops).c
    let s := stamps Stamps.init ops
    c.items.Pairwise (fun a b => s.last a.1 < s.last b.1) ∧
    ∀ k v, pop c.items k = none → cap ≤ c.items.length →
      ∃ ek ev rest, c.items ++ [(k, v)] = (ek, ev) :: rest ∧
        step c (.set k v) = ({ c with items := rest }, .unit, [ev]) ∧
        ∀ a ∈ rest, a.1 ≠ k → s.last ek < s.last a.1 := by
  intro c s
  have hr : Recency c.items s.last s.clock :=
    run_recency (new cap) Stamps.init ops (by simp [new]) ⟨by simp [new], by simp [new]⟩
  refine ⟨hr.1, ?_⟩
  intro k v hp hfull
  have hcap : c.cap = cap := run_cap (new cap) ops
  obtain ⟨ek, ev, rest, he, hs⟩ := step_set_evict v hp (by rw [hcap]; exact hfull)
  refine ⟨ek, ev, rest, he, hs, ?_⟩
  intro a ha hak
  cases hi : c.items with
  | nil =>
    rw [hi] at he; simp at he
    obtain ⟨_, rfl⟩ := he
    simp at ha
  | cons b t =>
    rw [hi] at he; simp at he
    obtain ⟨rfl, rfl⟩ := he
    simp at ha
    rcases ha with ha | rfl
    · have := hr.1
      rw [hi] at this
      exact (List.pairwise_cons.mp this).1 a ha
    · exact absurd rfl hak

/-- non-vacuity: a `get` refreshes recency, so key 2 (not key 1) is the victim -/
example : (run (new 2) [.set 1 10, .set 2 20, .get 1, .set 3 30]).disposed = [20] ∧
    (run (new 2) [.set 1 10, .set 2 20, .get 1, .set 3 30]).c.items = [(1, 10), (3, 30)] := by decide
/-- non-vacuity: replace, delete, clear and `maxsize = 0` all dispose -/
example : (run (new 2) [.set 1 10, .set 1 11, .set 2 20, .del 1, .clear]).disposed = [10, 11, 20] ∧
    (run (new 0) [.set 1 10]).disposed = [10] ∧ (run (new 0) [.set 1 10]).c.items = [] := by decide
/-- non-vacuity of the hypotheses of `C17_lru_order` (2): a full container and a new key -/
example : pop (run (new 2) [.set 1 10, .set 2 20]).c.items 3 = none ∧
    2 ≤ (run (new 2) [.set 1 10, .set 2 20]).c.items.length := by decide

/-! ## all thread interleavings (lock-granularity small-step semantics `U3.Conc`) -/
open U3.Conc

/-- Linearizability.  For every set of thread programs and every schedule `σ`: the ghost history is
the interleaving of the programs selected by the lock-acquisition order `τ` (program order of every
thread is respected), and the shared container, every thread's results, and the multiset of dispose
calls (made + still pending) are those of the *sequential* execution of that history — which is
`Lru.run` on the plain op list.  When all threads have finished, the dispose calls made are exactly
the sequential ones and `τ` exhausts all programs. -/
theorem C17_linearizable (cap : Nat) (progs : List (List Op)) (σ : List Nat) :
    let cfg := exec Lru.step (Cfg.init (Lru.new cap) progs) σ
    let τ := cfg.hist.map (·.1)
    let q := seqRun Lru.step (Lru.new cap) progs.length (histOf progs τ)
    cfg.hist = histOf progs τ ∧
    cfg.threads.map (·.todo) = restOf progs τ ∧
    cfg.st = q.st ∧ cfg.threads.map (·.results) = q.results ∧
    (cfg.log.map (·.2) ++ pending cfg).Perm q.disposed ∧
    q.st = (run (Lru.new cap) ((histOf progs τ).map (·.2))).c ∧
    q.disposed = (run (Lru.new cap) ((histOf progs τ).map (·.2))).disposed ∧
    (cfg.done = true → (cfg.log.map (·.2)).Perm q.disposed ∧ (restOf progs τ).all List.isEmpty = true) := by
  intro cfg τ q
  have ho := ordInv_exec Lru.step (Lru.new cap) progs σ
  have hl := linInv_exec Lru.step (Lru.new cap) progs σ
  have hq : seqRun Lru.step (Lru.new cap) progs.length cfg.hist = q := by
    show _ = seqRun Lru.step (Lru.new cap) progs.length (histOf progs τ)
    rw [← ho.hist]
  have hr := seqRun_eq_run (Lru.new cap) progs.length (histOf progs τ)
  refine ⟨ho.hist, ho.todo, by rw [← hq]; exact hl.st, by rw [← hq]; exact hl.res,
    by rw [← hq]; exact hl.disp, hr.1, hr.2, ?_⟩
  intro hd
  refine ⟨?_, ?_⟩
  · have := hl.disp
    rw [pending_done hd, List.append_nil, hq] at this
    exact this
  · rw [← ho.todo]; exact todo_done hd

/-- consequently the size bound, key uniqueness and dispose-exactly-once hold in every configuration
reachable under every schedule (not only in sequential use) -/
theorem C17_bounded_all_schedules (cap : Nat) (progs : List (List Op)) (σ : List Nat) :
    let cfg := exec Lru.step (Cfg.init (Lru.new cap) progs) σ
    cfg.st.items.length ≤ cap ∧ (cfg.st.items.map (·.1)).Nodup ∧
    (inserted (cfg.hist.map (·.2))).Perm (cfg.st.items.map (·.2) ++ (cfg.log.map (·.2) ++ pending cfg)) := by
  intro cfg
  obtain ⟨h1, _, h3, _, h5, h6, h7, _⟩ := C17_linearizable cap progs σ
  have e : cfg.st = (run (Lru.new cap) (cfg.hist.map (·.2))).c := by
    rw [h3, h6, ← h1]
  refine ⟨by rw [e]; exact C17_bounded cap _, by rw [e]; exact C17_keys_unique cap _, ?_⟩
  have hc := C17_dispose_exactly_once cap (cfg.hist.map (·.2))
  rw [e]
  refine hc.trans (List.Perm.append_left _ ?_)
  have : (run (Lru.new cap) (cfg.hist.map (·.2))).disposed =
      (seqRun Lru.step (Lru.new cap) progs.length (histOf progs (cfg.hist.map (·.1)))).disposed := by
    rw [h7, ← h1]
  rw [this]
  exact h5.symm

/-- the outcome set computed by the driver (`outcomes` / `member`: sequential runs over `lockOrders progs`)
is complete: whenever all threads have finished, under whatever schedule, the observable outcome
(shared container, per-thread results, multiset of dispose calls) is the outcome of one of the
enumerated lock orders -/
theorem C17_outcomes_complete (cap : Nat) (progs : List (List Op)) (σ : List Nat) :
    let cfg := exec Lru.step (Cfg.init (Lru.new cap) progs) σ
    cfg.done = true →
    ∃ τ ∈ lockOrders progs,
      cfg.st = (seqRun Lru.step (Lru.new cap) progs.length (histOf progs τ)).st ∧
      cfg.threads.map (·.results) = (seqRun Lru.step (Lru.new cap) progs.length (histOf progs τ)).results ∧
      (cfg.log.map (·.2)).Perm (seqRun Lru.step (Lru.new cap) progs.length (histOf progs τ)).disposed := by
  intro cfg hd
  obtain ⟨_, _, h3, h4, _, _, _, h8⟩ := C17_linearizable cap progs σ
  exact ⟨cfg.hist.map (·.1), lockOrder_mem Lru.step (Lru.new cap) progs σ hd, h3, h4, (h8 hd).1⟩

/-- non-vacuity: two threads, three lock orders, all of them complete -/
example : lockOrders [[Op.set 0 1, Op.get 0], [Op.del 0]] = [[1, 0, 0], [0, 1, 0], [0, 0, 1]] := by decide

/-- dispose outside the lock, mutual exclusion: in every configuration reachable under every
schedule, a thread about to call `dispose_func` does not own the lock, the lock owner is exactly the
thread inside a locked body, and a thread inside its body has no dispose call pending.  (Model
granularity = `with self.lock:` blocks; that the source has this shape is `C17_lock_discipline_fact`.) -/
theorem C17_dispose_outside_lock (cap : Nat) (progs : List (List Op)) (σ : List Nat) (i : Nat) :
    let cfg := exec Lru.step (Cfg.init (Lru.new cap) progs) σ
    (action cfg i = .dispose → cfg.owner ≠ some i) ∧
    (action cfg i = .body → cfg.owner = some i) ∧
    (cfg.owner = some i → action cfg i = .body) := by
  intro cfg
  obtain ⟨h1, h2⟩ := lockInv_exec Lru.step (Lru.new cap) progs σ
  refine ⟨?_, ?_, ?_⟩
  · intro ha ho
    obtain ⟨t, ht, hp⟩ := action_dispose_iff.mp ha
    obtain ⟨u, hu, hul⟩ := h1 i ho
    have : u = t := by
      have : some u = some t := hu.symm.trans ht
      exact Option.some.inj this
    subst this
    exact hp (h2 i u hu hul).2
  · intro ha
    obtain ⟨t, ht, hph⟩ := action_body_iff.mp ha
    exact (h2 i t ht hph.2).1
  · intro ho
    obtain ⟨u, hu, hul⟩ := h1 i ho
    exact action_body_iff.mpr ⟨u, hu, (h2 i u hu hul).2, hul⟩

/-- non-vacuity: a schedule in which thread 0 disposes while thread 1 is inside the lock; the
outcome is the sequential one in lock order `0,1` -/
example :
    let cfg := exec Lru.step (Cfg.init (Lru.new 1) [[.set 0 1, .set 1 2], [.set 0 3]]) [0, 0, 0, 0, 1, 0, 1]
    action cfg 0 = .finished ∧ cfg.log = [(0, 1)] ∧ cfg.hist.map (·.1) = [0, 0, 1] ∧
    cfg.st.items = [(0, 3)] ∧ cfg.done = false := by decide
example : (exec Lru.step (Cfg.init (Lru.new 1) [[.set 0 1, .set 1 2], [.set 0 3]]) [0, 0, 0, 0, 1]).owner = some 1 ∧
    action (exec Lru.step (Cfg.init (Lru.new 1) [[.set 0 1, .set 1 2], [.set 0 3]]) [0, 0, 0, 0, 1]) 0 = .dispose := by
  decide

/-! ## the PoolManager pool cache (`U3.Mgr`) -/
open U3.Mgr

/-- same key ⇒ same pool.  In any reachable manager state, a get-or-create for `k` followed by ANY
sequence of manager operations (of any threads — every operation is one locked section, see
`C17_manager_linearizable`) during which `k` stays cached, followed by another get-or-create for
`k`, returns the same pool, and the second one does not create a pool. -/
theorem C17_same_key_same_pool (cap : Nat) (pre : List MOp) (k : Key) (ops : List MOp) :
    let m := runM (M.new cap) pre
    let r1 := stepM m (.goc k)
    (pop r1.1.cache.items k).isSome → StaysCached k r1.1 ops →
    ∃ p f, r1.2.1 = .pool p f ∧ (stepM (runM r1.1 ops) (.goc k)).2.1 = .pool p false := by
  intro m r1 hc hs
  have hn : KeysNodup m := runM_nodup _ pre (by simp [KeysNodup, M.new, Lru.new])
  have hn1 : KeysNodup r1.1 := stepM_nodup _ hn
  cases hx : pop r1.1.cache.items k with
  | none => simp [hx] at hc
  | some x =>
    obtain ⟨q, r⟩ := x
    have hq := pop_mem hx
    obtain ⟨f, hf⟩ := goc_cached hn hq
    exact ⟨q, f, hf, goc_hit (runM_nodup _ ops hn1) (runM_stays hn1 ops hq hs)⟩

/-- racing requests: for every schedule of threads running manager operations, the results every
thread sees and the final cache are those of the sequential execution in lock order (so
`C17_same_key_same_pool` applies to races), and the pool cache is bounded by `num_pools` -/
theorem C17_manager_linearizable (cap : Nat) (progs : List (List MOp)) (σ : List Nat) :
    let cfg := exec stepM (Cfg.init (M.new cap) progs) σ
    let τ := cfg.hist.map (·.1)
    let q := seqRun stepM (M.new cap) progs.length (histOf progs τ)
    cfg.hist = histOf progs τ ∧ cfg.st = q.st ∧ cfg.threads.map (·.results) = q.results := by
  intro cfg τ q
  have ho := ordInv_exec stepM (M.new cap) progs σ
  have hl := linInv_exec stepM (M.new cap) progs σ
  have hq : seqRun stepM (M.new cap) progs.length cfg.hist = q := by
    show _ = seqRun stepM (M.new cap) progs.length (histOf progs τ)
    rw [← ho.hist]
  exact ⟨ho.hist, by rw [← hq]; exact hl.st, by rw [← hq]; exact hl.res⟩

/-- the pool cache never exceeds `num_pools`, whatever the sequence of requests / clears -/
theorem C17_manager_bounded (cap : Nat) (ops : List MOp) : (runM (M.new cap) ops).cache.items.length ≤ cap := by
  have := runM_bounded (M.new cap) ops (by simp [M.new, Lru.new])
  simpa [M.new, Lru.new] using this

/-- a pool that is still cached is never closed: in every reachable manager state (any sequence of
get-or-create / clear / release / finalizer runs) no cached pool id is in `closed` -/
theorem C17_cached_never_closed (cap : Nat) (ops : List MOp) (p : PoolId) :
    p ∈ cached (runM (M.new cap) ops) → p ∉ (runM (M.new cap) ops).closed :=
  fun hp => (runM_inv _ ops (MInv.init cap)).cached_not_closed hp

/-- source-derived premises of `U3.Mgr`: get-or-create is one section under `with self.pools.lock:`,
the pool cache has no dispose callback (so closing is left to the pool's finalizer), and
`HTTPConnectionPool` registers that finalizer -/
theorem C17_manager_lock_fact :
    Gen.pmGetOrCreateLocked = true ∧ Gen.pmPoolsNoDispose = true ∧ Gen.poolHasFinalizer = true := by
  decide

/-- an evicted / cleared pool that nothing references any more is closed by the next finalizer run -/
theorem C17_evicted_closed_at_quiescence (m : M) (p : PoolId) (hd : p ∈ m.dropped) (hr : p ∉ m.refs) :
    p ∈ (stepM m .gc).1.closed := by
  simp [stepM]
  by_cases hc : p ∈ m.closed
  · exact .inl hc
  · exact .inr ⟨hd, hr, hc⟩

/-- non-vacuity: two origins, `num_pools = 1`: the second origin evicts the first pool; the first
origin then gets a *new* pool (it did not stay cached); while an origin stays cached it keeps its pool -/
example : (stepM (runM (M.new 1) [.goc 0, .goc 1]) (.goc 0)).2.1 = .pool 2 true ∧
    (stepM (runM (M.new 2) [.goc 0, .goc 1, .len]) (.goc 0)).2.1 = .pool 0 false ∧
    StaysCached 0 (stepM (M.new 2) (.goc 0)).1 [.goc 1, .len] := by
  refine ⟨by decide, by decide, ?_⟩
  simp only [StaysCached]
  decide
example : (runM (M.new 1) [.goc 0, .goc 1, .release 0, .gc]).closed = [0] ∧
    (runM (M.new 1) [.goc 0, .goc 1, .gc]).closed = [] := by decide

/-- the structural premise of the interleaving model, read from the source on every run: every
method of `RecentlyUsedContainer` touches `_container` only under `with self.lock:` and calls
`dispose_func` only outside it; and the methods the model has transitions for are all listed. -/
theorem C17_lock_discipline_fact :
    (∀ m ∈ Gen.rucLockDiscipline, m.2.1 = true ∧ m.2.2 = true) ∧
    (∀ n ∈ ["__getitem__", "__setitem__", "__delitem__", "clear", "__len__", "keys"],
      n ∈ Gen.rucLockDiscipline.map (·.1)) := by
  decide

end U3.Props
