import U3.Lemmas.Manager
/-!
# C05 — redirects are followed only as far as the effective retry policy allows

Model: `U3.Manager` (`run`: one user call through `PoolManager` / `ProxyManager` / a bare pool over an
arbitrary world of servers — any redirect graph, loops included — and arbitrary `parse_url` /
`urljoin` oracles).  `effective` is the policy the *code* consults, `supplied` the one the caller
gave (request keyword, else constructor).
-/
namespace U3.Props
open U3 U3.Headers U3.Retry U3.Manager

/-- every status `get_redirect_location` treats as a redirect is one of the five redirect codes -/
theorem C05_redirect_statuses : ∀ s ∈ Gen.Redirect.redirectStatuses, s ∈ [301, 302, 303, 307, 308] := by
  decide

private theorem run_manager (W : World) (m : Mgr) (fuel : Nat) (req : Req) :
    run W (.manager m) fuel req = mgrUrlopen W m fuel (requestWrap (.manager m) req).1 req.url
      (req.redirect.getD true) ⟨req.body, (requestWrap (.manager m) req).2, req.retries⟩ := rfl

private theorem run_pool (W : World) (p : Pool) (fuel : Nat) (req : Req) :
    run W (.pool p) fuel req = poolUrlopen W p fuel (requestWrap (.pool p) req).1 req.url req.body
      (requestWrap (.pool p) req).2 req.retries (req.redirect.getD true) (req.assertSameHost.getD true) := rfl

/-- **Budget** — for every world (every redirect graph, loops included), every client, every fuel:
the number of redirects followed never exceeds the redirect budget nor the total budget of the
policy in effect. -/
theorem C05_followed_le_budget (W : World) (c : Client) (fuel : Nat) (req : Req) :
    (∀ b, (effective c req).redirectBudget = some b → (run W c fuel req).followed ≤ b) ∧
    (∀ b, (effective c req).totalBudget = some b → (run W c fuel req).followed ≤ b) := by
  cases c with
  | manager m =>
    rw [run_manager]
    constructor
    · intro b hb
      have := mgr_len_redirect W m fuel (requestWrap (.manager m) req).1 req.url (req.redirect.getD true)
        ⟨req.body, (requestWrap (.manager m) req).2, req.retries⟩ b hb
      unfold Run.followed; omega
    · intro b hb
      have := mgr_len_total W m fuel (requestWrap (.manager m) req).1 req.url (req.redirect.getD true)
        ⟨req.body, (requestWrap (.manager m) req).2, req.retries⟩ b hb
      unfold Run.followed; omega
  | pool p =>
    rw [run_pool]
    constructor
    · intro b hb
      have := pool_len_redirect W p fuel (requestWrap (.pool p) req).1 req.url req.body
        (requestWrap (.pool p) req).2 req.retries (req.redirect.getD true) (req.assertSameHost.getD true) b hb
      unfold Run.followed; omega
    · intro b hb
      have := pool_len_total W p fuel (requestWrap (.pool p) req).1 req.url req.body
        (requestWrap (.pool p) req).2 req.retries (req.redirect.getD true) (req.assertSameHost.getD true) b hb
      unfold Run.followed; omega

/-- the policy is *placed* where the code looks: per request, or on a bare pool, or nowhere -/
def PlacementHonoured (c : Client) (req : Req) : Prop :=
  req.retries ≠ .none ∨ (∃ p, c = .pool p) ∨ (∃ m, c = .manager m ∧ m.retries = .none)

theorem effective_eq_supplied (c : Client) (req : Req) (h : PlacementHonoured c req) :
    effective c req = supplied c req := by
  cases c with
  | pool p => rfl
  | manager m =>
    simp only [effective, supplied]
    rcases h with h | ⟨p, hp⟩ | ⟨m', hm, hn⟩
    · cases hr : req.retries with
      | none => exact absurd hr h
      | false => rfl
      | int n => rfl
      | retry r => rfl
    · cases hp
    · cases hm; rw [hn]

/- Full statement (the property text): for every placement of the policy,
`(run W c fuel req).followed ≤ budget (supplied c req)`.  It is FALSE for a policy given only to the
`PoolManager` / `ProxyManager` constructor (`C05_manager_policy_ignored` below): `PoolManager.urlopen`
derives the redirect policy from the per-request keyword only.  Proved part: every other placement. -/
theorem C05_followed_le_supplied_partial (W : World) (c : Client) (fuel : Nat) (req : Req)
    (h : PlacementHonoured c req) :
    (∀ b, (supplied c req).redirectBudget = some b → (run W c fuel req).followed ≤ b) ∧
    (∀ b, (supplied c req).totalBudget = some b → (run W c fuel req).followed ≤ b) := by
  rw [← effective_eq_supplied c req h]
  exact C05_followed_le_budget W c fuel req

/-! ### a world in which every reply is `302 Location: /next` -/

def loopUrl : PUrl :=
  ⟨some sHttp, some [97], none, [47], [104, 116, 116, 112, 58, 47, 47, 97, 47], some [97], [47]⟩
def loopWorld : World where
  serve := fun _ _ _ => ⟨302, some [47, 110]⟩
  parse := fun _ => some loopUrl
  join := fun _ _ => some [104, 116, 116, 112, 58, 47, 47, 97, 47]
def plainReq (retries : Arg) : Req := ⟨false, sGET, [104, 116, 116, 112, 58, 47, 47, 97, 47], none, none, retries, none, none⟩

/-- **Witness of the defect** (model = code as it is): `PoolManager(retries=False)` — supplied budget 0,
redirects disabled — follows three redirects of a redirect loop (the budget of `Retry.DEFAULT`) and
ends in `MaxRetryError`; the same policy per request sends one request and returns the 302. -/
theorem C05_manager_policy_ignored :
    (supplied (.manager ⟨.false, .dict [], none⟩) (plainReq .none)).redirectBudget = some 0 ∧
    (run loopWorld (.manager ⟨.false, .dict [], none⟩) 10 (plainReq .none)).followed = 3 ∧
    (run loopWorld (.manager ⟨.false, .dict [], none⟩) 10 (plainReq .none)).outcome = .maxRetry ∧
    (run loopWorld (.manager ⟨.none, .dict [], none⟩) 10 (plainReq .false)).followed = 0 ∧
    (run loopWorld (.manager ⟨.none, .dict [], none⟩) 10 (plainReq .false)).outcome
      = .response ⟨302, some [47, 110]⟩ := by
  decide

/-- non-vacuity of `PlacementHonoured` and of the budget hypotheses: `Retry(redirect=2)` per request
on a `PoolManager` in the redirect loop: budget 2, exactly 2 followed -/
example : PlacementHonoured (.manager ⟨.none, .dict [], none⟩)
      (plainReq (.retry (Retry.ofTotal (.num 10) (.num 2)))) ∧
    (supplied (.manager ⟨.none, .dict [], none⟩)
      (plainReq (.retry (Retry.ofTotal (.num 10) (.num 2))))).redirectBudget = some 2 ∧
    (run loopWorld (.manager ⟨.none, .dict [], none⟩) 10
      (plainReq (.retry (Retry.ofTotal (.num 10) (.num 2))))).followed = 2 := by
  refine ⟨Or.inl (by simp [plainReq]), by decide, by decide⟩

end U3.Props
