import U3.Lemmas.ManagerHdrs
/-!
# C05 — redirects are followed only as far as the effective retry policy allows

Model: `U3.Manager` (`run`: one user call through `PoolManager` / `ProxyManager` / a bare pool over an
arbitrary world of servers — any redirect graph, loops included — and arbitrary `parse_url` /
`urljoin` oracles).  `effective` is the policy the *code* consults, `supplied` the one the caller
gave (request keyword, else constructor).  Every theorem holds for every world `W`, every client,
every amount of fuel and every request; the proofs go by induction over the model's redirect loop
(`U3.Lemmas.Manager`).
-/
namespace U3.Props
open U3 U3.Headers U3.Retry U3.Manager

/-- every status `get_redirect_location` treats as a redirect is one of the five redirect codes -/
theorem C05_redirect_statuses : ∀ s ∈ Gen.Redirect.redirectStatuses, s ∈ [301, 302, 303, 307, 308] := by
  decide

/-- the status that triggers the method rewrite is 303 and only 303 -/
theorem C05_rewrite_statuses : ∀ s, s ∈ Gen.Redirect.methodRewriteStatuses ↔ s = 303 := by
  intro s; simp [Gen.Redirect.methodRewriteStatuses]

/-- **Budget** — for every world (every redirect graph, loops included), every client, every fuel:
the number of redirects followed never exceeds the redirect budget nor the total budget of the
policy in effect. -/
theorem C05_followed_le_budget (W : World) (c : Client) (fuel : Nat) (req : Req) :
    (∀ b, (effective c req).redirectBudget = some b → (run W c fuel req).followed ≤ b) ∧
    (∀ b, (effective c req).totalBudget = some b → (run W c fuel req).followed ≤ b) := by
  cases c with
  | manager m =>
    rw [run_manager]
    constructor
    · intro b hb
      have := mgr_len_redirect W m fuel (requestWrap (.manager m) req).1 req.url (req.redirect.getD true)
        ⟨req.body, (requestWrap (.manager m) req).2, req.retries⟩ b hb
      unfold Run.followed; omega
    · intro b hb
      have := mgr_len_total W m fuel (requestWrap (.manager m) req).1 req.url (req.redirect.getD true)
        ⟨req.body, (requestWrap (.manager m) req).2, req.retries⟩ b hb
      unfold Run.followed; omega
  | pool p =>
    rw [run_pool]
    constructor
    · intro b hb
      have := pool_len_redirect W p fuel (requestWrap (.pool p) req).1 req.url req.body
        (requestWrap (.pool p) req).2 req.retries (req.redirect.getD true) (req.assertSameHost.getD true) b hb
      unfold Run.followed; omega
    · intro b hb
      have := pool_len_total W p fuel (requestWrap (.pool p) req).1 req.url req.body
        (requestWrap (.pool p) req).2 req.retries (req.redirect.getD true) (req.assertSameHost.getD true) b hb
      unfold Run.followed; omega

/-- **Budget, for the supplied policy** (the property text) — for every placement of the policy (per
request, on a bare pool, or on the `PoolManager` / `ProxyManager` constructor; as `False`, an integer
or a `Retry`): the number of redirects followed never exceeds the redirect budget nor the total
budget of the policy the caller *supplied*. -/
theorem C05_followed_le_supplied (W : World) (c : Client) (fuel : Nat) (req : Req) :
    (∀ b, (supplied c req).redirectBudget = some b → (run W c fuel req).followed ≤ b) ∧
    (∀ b, (supplied c req).totalBudget = some b → (run W c fuel req).followed ≤ b) := by
  rw [← effective_eq_supplied c req]
  exact C05_followed_le_budget W c fuel req

/-- every placement is honoured: the policy the code consults *is* the supplied one — the request
keyword if given, else the constructor's (pool or manager) -/
theorem C05_effective_is_supplied (c : Client) (req : Req) : effective c req = supplied c req :=
  effective_eq_supplied c req

/-! ### a world in which every reply is `302 Location: /next` -/

def loopUrl : PUrl :=
  ⟨some sHttp, some [97], none, [47], [104, 116, 116, 112, 58, 47, 47, 97, 47], some [97], [47]⟩
def loopWorld : World where
  serve := fun _ _ _ => ⟨302, some [47, 110]⟩
  parse := fun _ => some loopUrl
  join := fun _ _ => some [104, 116, 116, 112, 58, 47, 47, 97, 47]
def plainReq (retries : Arg) : Req := ⟨false, sGET, [104, 116, 116, 112, 58, 47, 47, 97, 47], none, none, retries, none, none⟩

/-- **The constructor's policy is honoured** (the input on which the unrepaired code followed three
redirects and raised `MaxRetryError`): `PoolManager(retries=False)` — supplied budget 0, redirects
disabled — in a redirect loop sends one request and returns the 302, exactly as the same policy given
per request does. -/
theorem C05_manager_policy_honoured :
    (supplied (.manager ⟨.false, .dict [], none⟩) (plainReq .none)).redirectBudget = some 0 ∧
    (run loopWorld (.manager ⟨.false, .dict [], none⟩) 10 (plainReq .none)).followed = 0 ∧
    (run loopWorld (.manager ⟨.false, .dict [], none⟩) 10 (plainReq .none)).outcome
      = .response ⟨302, some [47, 110]⟩ ∧
    (run loopWorld (.manager ⟨.none, .dict [], none⟩) 10 (plainReq .false)).followed = 0 ∧
    (run loopWorld (.manager ⟨.none, .dict [], none⟩) 10 (plainReq .false)).outcome
      = .response ⟨302, some [47, 110]⟩ := by
  decide

/-- the former negation witness, now positive: on that very input (manager constructor
`retries=False`, nothing per request, the 302 loop) the bound by the *supplied* policy holds, and so
does a constructor-level `Retry(redirect=1)` / integer `1` (one redirect followed, then
`MaxRetryError`) -/
theorem C05_manager_policy_honoured_witness :
    (∀ b, (supplied (.manager ⟨.false, .dict [], none⟩) (plainReq .none)).redirectBudget = some b →
      (run loopWorld (.manager ⟨.false, .dict [], none⟩) 10 (plainReq .none)).followed ≤ b) ∧
    (run loopWorld (.manager ⟨.retry (Retry.ofTotal (.num 10) (.num 1)), .dict [], none⟩) 10 (plainReq .none)).followed = 1 ∧
    (run loopWorld (.manager ⟨.retry (Retry.ofTotal (.num 10) (.num 1)), .dict [], none⟩) 10 (plainReq .none)).outcome
      = .maxRetry ∧
    (run loopWorld (.manager ⟨.int 1, .dict [], none⟩) 10 (plainReq .none)).followed = 1 ∧
    (run loopWorld (.manager ⟨.int 1, .dict [], none⟩) 10 (plainReq .none)).outcome = .maxRetry :=
  ⟨(C05_followed_le_supplied loopWorld _ 10 _).1, by decide, by decide, by decide, by decide⟩

/-- non-vacuity of the budget hypotheses: `Retry(redirect=2)` per request and on the constructor of a
`PoolManager` in the redirect loop: budget 2, exactly 2 followed -/
example :
    (supplied (.manager ⟨.none, .dict [], none⟩)
      (plainReq (.retry (Retry.ofTotal (.num 10) (.num 2))))).redirectBudget = some 2 ∧
    (run loopWorld (.manager ⟨.none, .dict [], none⟩) 10
      (plainReq (.retry (Retry.ofTotal (.num 10) (.num 2))))).followed = 2 ∧
    (supplied (.manager ⟨.retry (Retry.ofTotal (.num 10) (.num 2)), .dict [], none⟩)
      (plainReq .none)).redirectBudget = some 2 ∧
    (run loopWorld (.manager ⟨.retry (Retry.ofTotal (.num 10) (.num 2)), .dict [], none⟩) 10
      (plainReq .none)).followed = 2 := by
  refine ⟨by decide, by decide, by decide, by decide⟩

/-! ### redirects disabled -/

/-- redirects are *disabled* for this call: `redirect=False`, or the policy in effect has no redirect
budget and `raise_on_redirect` off — which is what `Retry.__init__` makes of `redirect=False` /
`total=False` and `Retry.from_int` of `retries=False` (`C05_disabled_forms`) -/
def RedirectDisabled (c : Client) (req : Req) : Prop :=
  req.redirect = some false ∨
  (((effective c req).redirectBudget = some 0 ∨ (effective c req).totalBudget = some 0) ∧
    (effective c req).raiseOnRedirect = false)

/-- **Disabled ⇒ untouched** — with `redirect=False` / `retries=False` / `Retry(redirect=False)` /
`Retry(total=False)` in effect the wire log has at most one entry: either nothing was sent (an
exception before any I/O: the outcome is no response), or exactly the request for `req.url` was sent
and its reply — 3xx or not — is what the caller gets; the `Location` target is never contacted.
(`statusRetry`: the reply's status is in the policy's `status_forcelist` — C04's territory;
`oracleMissing`: the world's `urljoin` table has no entry — the model needs it before it consults
the budget, as the code calls `urljoin` first.) -/
theorem C05_disabled_untouched (W : World) (c : Client) (fuel : Nat) (req : Req)
    (h : RedirectDisabled c req) :
    ((run W c fuel req).log = [] ∧ ∀ r, (run W c fuel req).outcome ≠ .response r) ∨
    ∃ s, (run W c fuel req).log = [s] ∧ s.url = req.url ∧
      ((run W c fuel req).outcome = .response s.reply ∨ (run W c fuel req).outcome = .statusRetry ∨
       (run W c fuel req).outcome = .oracleMissing) := by
  have hd : req.redirect.getD true = false ∨
      ((effective c req).redirect.budget = some 0 ∨ (effective c req).total.budget = some 0) := by
    rcases h with h | h
    · left; rw [h]; rfl
    · right; exact h.1
  rcases run_disabled W c fuel req hd with hl | ⟨s, hl, hu, he⟩
  · exact Or.inl ⟨hl, ((run_surface W c fuel req).1 hl).2⟩
  · refine Or.inr ⟨s, hl, hu, ?_⟩
    rcases he with he | he | he | ⟨hred, _, _, hout⟩
    · exact Or.inr (Or.inl he)
    · exact Or.inr (Or.inr he)
    · exact Or.inl he.1
    · rcases h with h | h
      · rw [h] at hred; cases hred
      · rw [h.2] at hout; exact Or.inl hout

/-- the spellings of "disabled" the property names all satisfy `RedirectDisabled`, at every placement:
per request, as a bare pool's default, and as the `PoolManager` / `ProxyManager` constructor's policy -/
theorem C05_disabled_forms (c : Client) (req : Req) :
    (req.redirect = some false → RedirectDisabled c req) ∧
    (req.retries = .false → RedirectDisabled c req) ∧
    (∀ p : Retry, (p.redirect = .disabled ∨ p.total = .disabled) → req.retries = .retry (Retry.init p) →
      RedirectDisabled c req) ∧
    (∀ pl : Pool, c = .pool pl → req.retries = .none → pl.retries = .false → RedirectDisabled c req) ∧
    (∀ (pl : Pool) (p : Retry), c = .pool pl → req.retries = .none →
      (p.redirect = .disabled ∨ p.total = .disabled) → pl.retries = .retry (Retry.init p) →
      RedirectDisabled c req) ∧
    (∀ m : Mgr, c = .manager m → req.retries = .none → m.retries = .false → RedirectDisabled c req) ∧
    (∀ (m : Mgr) (p : Retry), c = .manager m → req.retries = .none →
      (p.redirect = .disabled ∨ p.total = .disabled) → m.retries = .retry (Retry.init p) →
      RedirectDisabled c req) := by
  refine ⟨fun h => Or.inl h, ?_, ?_, ?_, ?_, ?_, ?_⟩
  · intro h
    right
    have key : effective c req = Retry.fromInt .false (req.redirect.getD true)
        (match c with | .manager m => m.retries | .pool p => p.retries) := by
      cases c <;> simp [effective, h, deriveRetry]
    rw [key]
    exact ⟨Or.inl (fromInt_false _ _).1, (fromInt_false _ _).2⟩
  · intro p hp h
    right
    have key : effective c req = Retry.init p := by
      cases c <;> simp [effective, h]
    rw [key]
    exact ⟨Or.inl (init_disabled p hp).1, (init_disabled p hp).2⟩
  · intro pl hc h hpl
    right
    subst hc
    have key : effective (.pool pl) req = Retry.fromInt .false (req.redirect.getD true) .none := by
      show deriveRetry req.retries (req.redirect.getD true) pl.retries = _
      rw [h, hpl]; exact fromInt_none_false (req.redirect.getD true)
    rw [key]
    exact ⟨Or.inl (fromInt_false _ _).1, (fromInt_false _ _).2⟩
  · intro pl p hc h hp hpl
    right
    subst hc
    have key : effective (.pool pl) req = Retry.init p := by
      show deriveRetry req.retries (req.redirect.getD true) pl.retries = _
      rw [h, hpl]; exact fromInt_none_retry (req.redirect.getD true) _
    rw [key]
    exact ⟨Or.inl (init_disabled p hp).1, (init_disabled p hp).2⟩
  · intro m hc h hm
    right
    subst hc
    have key : effective (.manager m) req = Retry.fromInt .false (req.redirect.getD true) .none := by
      show deriveRetry req.retries (req.redirect.getD true) m.retries = _
      rw [h, hm]; exact fromInt_none_false (req.redirect.getD true)
    rw [key]
    exact ⟨Or.inl (fromInt_false _ _).1, (fromInt_false _ _).2⟩
  · intro m p hc h hp hm
    right
    subst hc
    have key : effective (.manager m) req = Retry.init p := by
      show deriveRetry req.retries (req.redirect.getD true) m.retries = _
      rw [h, hm]; exact fromInt_none_retry (req.redirect.getD true) _
    rw [key]
    exact ⟨Or.inl (init_disabled p hp).1, (init_disabled p hp).2⟩

/-- non-vacuity: `retries=False` per request in the redirect loop — disabled, one request, the 302 back -/
example : RedirectDisabled (.manager ⟨.none, .dict [], none⟩) (plainReq .false) ∧
    (run loopWorld (.manager ⟨.none, .dict [], none⟩) 10 (plainReq .false)).log.length = 1 ∧
    (run loopWorld (.manager ⟨.none, .dict [], none⟩) 10 (plainReq .false)).outcome
      = .response ⟨302, some [47, 110]⟩ :=
  ⟨(C05_disabled_forms _ _).2.1 rfl, by decide, by decide⟩

/-- non-vacuity of the manager-level forms: `PoolManager(retries=False)` and
`PoolManager(retries=Retry(redirect=False))`, nothing per request, in the redirect loop — disabled, one
request, the 302 back -/
example : RedirectDisabled (.manager ⟨.false, .dict [], none⟩) (plainReq .none) ∧
    (run loopWorld (.manager ⟨.false, .dict [], none⟩) 10 (plainReq .none)).log.length = 1 ∧
    RedirectDisabled (.manager ⟨.retry (Retry.init { Retry.initDefaults with redirect := .disabled }), .dict [], none⟩)
      (plainReq .none) ∧
    (run loopWorld (.manager ⟨.retry (Retry.init { Retry.initDefaults with redirect := .disabled }), .dict [], none⟩) 10
      (plainReq .none)).log.length = 1 ∧
    (run loopWorld (.manager ⟨.retry (Retry.init { Retry.initDefaults with redirect := .disabled }), .dict [], none⟩) 10
      (plainReq .none)).outcome = .response ⟨302, some [47, 110]⟩ :=
  ⟨(C05_disabled_forms _ _).2.2.2.2.2.1 _ rfl rfl rfl, by decide,
   (C05_disabled_forms _ _).2.2.2.2.2.2 _ _ rfl rfl (Or.inl rfl) rfl, by decide, by decide⟩

/-! ### hop by hop: method, body, target -/

/-- a world whose every reply is `<status> Location: /n` -/
def statusWorld (status : Nat) : World where
  serve := fun _ _ _ => ⟨status, some [47, 110]⟩
  parse := fun _ => some loopUrl
  join := fun _ _ => some [104, 116, 116, 112, 58, 47, 47, 97, 47]
/-- `POST` with body `xy` -/
def postReq : Req := ⟨false, [80, 79, 83, 84], [104, 116, 116, 112, 58, 47, 47, 97, 47], some [120, 121], none, .none, none, none⟩
def barePool : Pool := Pool.ofCtor sHttp [97] none .none none

/-- **303 ⇒ body-less GET** — manager and pool level: whatever request of the chain was answered by a
303, its follow-up is a `GET` without body -/
theorem C05_303_rewrite (W : World) (c : Client) (fuel : Nat) (req : Req) (i : Nat) (a b : Sent)
    (ha : (run W c fuel req).log[i]? = some a) (hb : (run W c fuel req).log[i + 1]? = some b)
    (h303 : a.reply.status = 303) : b.method = sGET ∧ b.body = none := by
  obtain ⟨_, hm, hbd, _⟩ := (run_hops W c fuel req).get i a b ha hb
  rw [h303] at hm hbd
  exact ⟨hm, hbd⟩

example : (run (statusWorld 303) (.manager ⟨.none, .dict [], none⟩) 10 postReq).log.map
      (fun s => (s.reply.status, s.method, s.body))
    = [(303, [80, 79, 83, 84], some [120, 121]), (303, sGET, none), (303, sGET, none), (303, sGET, none)] := by
  decide
example : (run (statusWorld 303) (.pool barePool) 10 { postReq with url := [47] }).log.map
      (fun s => (s.reply.status, s.method, s.body))
    = [(303, [80, 79, 83, 84], some [120, 121]), (303, sGET, none), (303, sGET, none), (303, sGET, none)] := by
  decide

/-- **303 ⇒ no content headers** — manager and pool level, for every header carrier (plain dict with
any keys, or well-formed `HTTPHeaderDict`, per request or as the client's default): the follow-up of a
303 carries no line whose lower-cased name is one of `_prepare_for_method_change`'s content-specific
names (`Gen.contentSpecificHeaders`: Content-Encoding, Content-Language, Content-Location,
Content-Type, Content-Length, Digest, Last-Modified) — except a line the proxy machinery itself
injects (`Accept`, `Host`, the `proxy_headers` of a `ProxyManager` / proxied pool); for a
`PoolManager` and a bare pool `c.injected = []`, i.e. there is none at all
(`C05_303_no_content_headers_noproxy`). -/
theorem C05_303_rewrite_headers (W : World) (c : Client) (fuel : Nat) (req : Req) (hwf : CarriersWF c req)
    (i : Nat) (a b : Sent)
    (ha : (run W c fuel req).log[i]? = some a) (hb : (run W c fuel req).log[i + 1]? = some b)
    (h303 : a.reply.status = 303) :
    ∀ l ∈ b.headers, lower l.1 ∈ contentSpecific.map lower → l.1 ∈ c.injected := by
  have := (run_303_headers W c fuel req hwf).get i a b ha hb
  exact this (by rw [h303]; decide)

theorem C05_303_no_content_headers_noproxy (W : World) (c : Client) (fuel : Nat) (req : Req)
    (hwf : CarriersWF c req) (hp : c.noProxy) (i : Nat) (a b : Sent)
    (ha : (run W c fuel req).log[i]? = some a) (hb : (run W c fuel req).log[i + 1]? = some b)
    (h303 : a.reply.status = 303) :
    ∀ l ∈ b.headers, lower l.1 ∉ contentSpecific.map lower := by
  intro l hl hcs
  have := C05_303_rewrite_headers W c fuel req hwf i a b ha hb h303 l hl hcs
  cases c with
  | manager m => simp only [Client.noProxy] at hp; simp [Client.injected, injected, hp] at this
  | pool p => simp only [Client.noProxy] at hp; simp [Client.injected, poolInjected, hp] at this

/-- non-vacuity: `POST` with `Content-Type` (any casing) and `X-Keep` in a dict / in an
`HTTPHeaderDict`, answered by 303: the follow-up keeps `X-Keep` only -/
example :
    Client.noProxy (.manager ⟨.none, .dict [], none⟩) ∧ Client.noProxy (.pool barePool) ∧
    CarriersWF (.manager ⟨.none, .dict [], none⟩)
      { postReq with headers := some (.dict [(lit "content-TYPE", lit "t"), (lit "X-Keep", lit "k")]) } ∧
    ((run (statusWorld 303) (.manager ⟨.none, .dict [], none⟩) 2
      { postReq with headers := some (.dict [(lit "content-TYPE", lit "t"), (lit "X-Keep", lit "k")]) }).log.map
        (fun s => (s.method, s.headers)))
      = [(lit "POST", [(lit "content-TYPE", lit "t"), (lit "X-Keep", lit "k")]), (sGET, [(lit "X-Keep", lit "k")])] ∧
    ((run (statusWorld 303) (.pool barePool) 2
      { postReq with url := [47], headers := some (.hd (extend [] [(lit "Digest", lit "d"), (lit "X-Keep", lit "k")])) }).log.map
        (fun s => (s.method, s.headers)))
      = [(lit "POST", [(lit "Digest", lit "d"), (lit "X-Keep", lit "k")]), (sGET, [(lit "X-Keep", lit "k")])] := by
  refine ⟨rfl, rfl, ⟨trivial, fun h hh => ?_⟩, by decide, by decide⟩
  injection hh with hh; subst hh; trivial

/-- **301/302/307/308 keep method and body** (the code rewrites on 303 only — also for a `POST`
answered by 301/302, where browsers would switch to `GET`): a followed request was answered by one of
the five redirect codes with a non-empty `Location`, and unless that code was 303 the follow-up has
the same method and the same body -/
theorem C05_30x_preserve (W : World) (c : Client) (fuel : Nat) (req : Req) (i : Nat) (a b : Sent)
    (ha : (run W c fuel req).log[i]? = some a) (hb : (run W c fuel req).log[i + 1]? = some b) :
    a.reply.status ∈ [301, 302, 303, 307, 308] ∧ (∃ loc, a.reply.location = some loc ∧ loc ≠ []) ∧
    (a.reply.status ≠ 303 → b.method = a.method ∧ b.body = a.body) := by
  obtain ⟨hloc, hm, hbd, _⟩ := (run_hops W c fuel req).get i a b ha hb
  have hst : a.reply.status ∈ Gen.Redirect.redirectStatuses ∧ ∃ loc, a.reply.location = some loc ∧ loc ≠ [] := by
    unfold Reply.redirectLocation at hloc
    split at hloc
    · rename_i hc
      refine ⟨by simpa using hc, ?_⟩
      split at hloc
      · rename_i l hl
        split at hloc
        · cases hloc
        · rename_i hne
          exact ⟨l, hl, by simpa using hne⟩
      · cases hloc
    · cases hloc
  refine ⟨C05_redirect_statuses _ hst.1, hst.2, ?_⟩
  intro hne
  have hnc : Gen.Redirect.methodRewriteStatuses.contains a.reply.status = false := by
    rw [Bool.eq_false_iff]
    intro hc
    exact hne ((C05_rewrite_statuses _).1 (by simpa using hc))
  simp only [rewrite303, hnc] at hm hbd
  exact ⟨hm, hbd⟩

example : (run (statusWorld 301) (.manager ⟨.none, .dict [], none⟩) 10 postReq).log.map
      (fun s => (s.reply.status, s.method, s.body))
    = [(301, [80, 79, 83, 84], some [120, 121]), (301, [80, 79, 83, 84], some [120, 121]),
       (301, [80, 79, 83, 84], some [120, 121]), (301, [80, 79, 83, 84], some [120, 121])] := by
  decide

/-- **Relative Locations are resolved against the current URL** — at manager level the URL of hop
`k+1` is `urljoin(URL of hop k, Location of hop k)` (not of hop 0), and — without a proxy — the request
goes to the origin `connection_from_host` derives from *that* URL with the request target of its
`request_uri`; a bare pool sends the `Location` itself as the next target -/
theorem C05_relative_resolved (W : World) (c : Client) (fuel : Nat) (req : Req) (i : Nat) (a b : Sent)
    (ha : (run W c fuel req).log[i]? = some a) (hb : (run W c fuel req).log[i + 1]? = some b) :
    match c with
    | .pool _ => some b.url = a.reply.redirectLocation
    | .manager m =>
      (∃ loc, a.reply.redirectLocation = some loc ∧ W.join a.url loc = some b.url) ∧
      (m.proxy = none → ∃ u conn pu, W.parse b.url = some u ∧
        connectionFromHost m u.host u.port u.scheme = .ok conn ∧ W.parse u.requestUri = some pu ∧
        b.dest = conn.id.origin ∧ b.dial = conn.id.origin ∧ b.target = pu.target) := by
  obtain ⟨_, _, _, hu⟩ := (run_hops W c fuel req).get i a b ha hb
  cases c with
  | pool p => exact hu
  | manager m =>
    refine ⟨hu, fun hp => ?_⟩
    rw [run_manager] at hb
    have hq := mgr_all W m (req.redirect.getD true) (fun _ _ _ => True)
      (fun s => ∃ u conn pu, W.parse s.url = some u ∧
        connectionFromHost m u.host u.port u.scheme = .ok conn ∧ W.parse u.requestUri = some pu ∧
        s.dest = conn.id.origin ∧ s.dial = conn.id.origin ∧ s.target = pu.target)
      (fun _ _ => trivial)
      (fun _ hpass => by
        obtain ⟨u, conn, pu, h1, h2, h3, h4, h5, _, h7, _⟩ := hpass.noproxy hp
        exact ⟨u, conn, pu, h1, h2, h3, h4, h5, h7⟩)
      fuel _ _ _ trivial b (List.mem_of_getElem? hb)
    exact hq

/-! a two-directory world: `http://a/d/x` answers `302 Location: y`, everything else `200`; the join
table resolves `y` against `/d/x` (→ `/d/y`), not against anything else -/
def relWorld : World where
  serve := fun _ _ t => if t = [47, 100, 47, 120] then ⟨302, some [121]⟩ else ⟨200, none⟩
  parse := fun s =>
    if s = [104, 116, 116, 112, 58, 47, 47, 97, 47, 100, 47, 120] then
      some ⟨some sHttp, some [97], none, [47, 100, 47, 120], s, some [97], s⟩
    else if s = [104, 116, 116, 112, 58, 47, 47, 97, 47, 100, 47, 121] then
      some ⟨some sHttp, some [97], none, [47, 100, 47, 121], s, some [97], s⟩
    else if s.head? = some 47 then some ⟨none, none, none, s, s, none, s⟩
    else none
  join := fun base loc =>
    if base = [104, 116, 116, 112, 58, 47, 47, 97, 47, 100, 47, 120] ∧ loc = [121] then
      some [104, 116, 116, 112, 58, 47, 47, 97, 47, 100, 47, 121]
    else none

example : (run relWorld (.manager ⟨.none, .dict [], none⟩) 10
      { plainReq .none with url := [104, 116, 116, 112, 58, 47, 47, 97, 47, 100, 47, 120] }).log.map
        (fun s => (s.url, s.target, s.reply.status))
    = [([104, 116, 116, 112, 58, 47, 47, 97, 47, 100, 47, 120], [47, 100, 47, 120], 302),
       ([104, 116, 116, 112, 58, 47, 47, 97, 47, 100, 47, 121], [47, 100, 47, 121], 200)] := by
  decide

/-! ### the exhaustion surface -/

/-- **Exhaustion surface** — for the run of one call, `eff` the policy in effect:
1. `MaxRetryError` (too many redirects) is raised only with `raise_on_redirect` on, and the last reply
   on the wire was a followable redirect;
2. a response that is returned is always the *last* reply on the wire, and a followable redirect is
   returned only with `redirect=False` or `raise_on_redirect` off;
3. neither happens prematurely: whenever the run ends on a followable redirect although redirects are
   enabled — `MaxRetryError`, or the 3xx itself — a counter that pays for redirects is used up
   exactly: the redirect budget or the total budget of `eff` equals the number of redirects followed
   (for policies none of whose other counters is negative).
Together with `C05_followed_le_budget`: the budget is spent exactly, then the surface is
`MaxRetryError`, or the last 3xx when `raise_on_redirect` is `False`. -/
theorem C05_exhaustion_surface (W : World) (c : Client) (fuel : Nat) (req : Req) :
    ((run W c fuel req).outcome = .maxRetry →
      (effective c req).raiseOnRedirect = true ∧
      ∃ s, (run W c fuel req).log.getLast? = some s ∧ s.reply.redirectLocation.isSome = true) ∧
    (∀ x, (run W c fuel req).outcome = .response x →
      ∃ s, (run W c fuel req).log.getLast? = some s ∧ x = s.reply ∧
        (s.reply.redirectLocation.isSome = true →
          req.redirect = some false ∨ (effective c req).raiseOnRedirect = false)) ∧
    (SaneCounters (effective c req) →
      ((run W c fuel req).outcome = .maxRetry ∨
        (req.redirect ≠ some false ∧ ∃ s, (run W c fuel req).log.getLast? = some s ∧
          (run W c fuel req).outcome = .response s.reply ∧ s.reply.redirectLocation.isSome = true)) →
      (effective c req).redirectBudget = some (run W c fuel req).followed ∨
      (effective c req).totalBudget = some (run W c fuel req).followed) := by
  obtain ⟨hnil, hlast⟩ := run_surface W c fuel req
  -- the last request, if any
  have hsplit : (run W c fuel req).log = [] ∨
      ∃ pre s, (run W c fuel req).log = pre ++ [s] ∧ (run W c fuel req).log.getLast? = some s ∧
        (run W c fuel req).followed = pre.length := by
    rcases List.eq_nil_or_concat (run W c fuel req).log with h | ⟨pre, s, h⟩
    · exact Or.inl h
    · refine Or.inr ⟨pre, s, by simpa using h, by rw [h]; simp, ?_⟩
      unfold Run.followed; rw [h]; simp
  have hredF : ∀ {P : Prop}, req.redirect.getD true = false → (req.redirect = some false → P) → P := by
    intro P h k
    cases hr : req.redirect with
    | none => rw [hr] at h; cases h
    | some v => rw [hr] at h; simp at h; subst h; exact k hr
  refine ⟨?_, ?_, ?_⟩
  · intro hout
    rcases hsplit with h | ⟨pre, s, hl, hg, _⟩
    · exact absurd hout (hnil h).1
    · obtain ⟨rk, hd, he⟩ := hlast pre s hl (Or.inl hout)
      rcases he with he | he | he | ⟨_, hfol, _, he⟩
      · rw [hout] at he; cases he
      · rw [hout] at he; cases he
      · rw [hout] at he; cases he.1
      · refine ⟨?_, s, hg, hfol⟩
        rw [← hd.1]
        cases hr : rk.raiseOnRedirect with
        | true => rfl
        | false => rw [hr, hout] at he; cases he
  · intro x hout
    rcases hsplit with h | ⟨pre, s, hl, hg, _⟩
    · exact absurd hout ((hnil h).2 x)
    · obtain ⟨rk, hd, he⟩ := hlast pre s hl (Or.inr ⟨x, hout⟩)
      rcases he with he | he | he | ⟨_, hfol, _, he⟩
      · rw [hout] at he; cases he
      · rw [hout] at he; cases he
      · rw [hout] at he
        refine ⟨s, hg, by injection he.1, ?_⟩
        intro hfol
        rcases he.2 with h | h
        · exact hredF h Or.inl
        · rw [h] at hfol; cases hfol
      · cases hr : rk.raiseOnRedirect with
        | true => rw [hr, hout] at he; cases he
        | false =>
          rw [hr, hout] at he
          exact ⟨s, hg, by injection he, fun _ => Or.inr (by rw [← hd.1]; exact hr)⟩
  · intro hsane hout
    have hex : ∃ (pre : List Sent) (s : Sent) (rk : Retry), (run W c fuel req).followed = pre.length ∧
        Descends (effective c req) rk pre.length ∧
        ∃ m' cc, rk.increment (some m') (.redirect s.reply.status) = .error (.maxRetry cc) := by
      rcases hout with hout | ⟨hred, s', hg', hout, hfol'⟩
      · rcases hsplit with h | ⟨pre, s, hl, hg, hf⟩
        · exact absurd hout (hnil h).1
        · obtain ⟨rk, hd, he⟩ := hlast pre s hl (Or.inl hout)
          rcases he with he | he | he | ⟨_, _, hinc, _⟩
          · rw [hout] at he; cases he
          · rw [hout] at he; cases he
          · rw [hout] at he; cases he.1
          · exact ⟨pre, s, rk, hf, hd, hinc⟩
      · rcases hsplit with h | ⟨pre, s, hl, hg, hf⟩
        · rw [h] at hg'; cases hg'
        · rw [hg] at hg'
          injection hg' with hg'
          subst hg'
          obtain ⟨rk, hd, he⟩ := hlast pre s hl (Or.inr ⟨_, hout⟩)
          rcases he with he | he | he | ⟨_, _, hinc, _⟩
          · rw [hout] at he; cases he
          · rw [hout] at he; cases he
          · rcases he.2 with h | h
            · exact hredF h (fun h' => absurd h' hred)
            · rw [h] at hfol'; cases hfol'
          · exact ⟨pre, s, rk, hf, hd, hinc⟩
    obtain ⟨pre, s, rk, hf, hd, m', cc, hinc⟩ := hex
    rw [hf]
    rcases increment_redirect_fail (hd.2.2.2 hsane) hinc with h0 | h0
    · left; have := hd.2.1 0 h0; simpa [Retry.redirectBudget] using this
    · right; have := hd.2.2.1 0 h0; simpa [Retry.totalBudget] using this

/-- non-vacuity (both surfaces, budget spent exactly): `Retry(total=10, redirect=2)` in the redirect
loop ends in `MaxRetryError` after exactly 2 redirects; with `raise_on_redirect=False` the third 302
is returned instead -/
example : SaneCounters (effective (.manager ⟨.none, .dict [], none⟩)
      (plainReq (.retry (Retry.ofTotal (.num 10) (.num 2))))) ∧
    (run loopWorld (.manager ⟨.none, .dict [], none⟩) 10
      (plainReq (.retry (Retry.ofTotal (.num 10) (.num 2))))).outcome = .maxRetry ∧
    (run loopWorld (.manager ⟨.none, .dict [], none⟩) 10
      (plainReq (.retry (Retry.ofTotal (.num 10) (.num 2))))).followed = 2 ∧
    (run loopWorld (.manager ⟨.none, .dict [], none⟩) 10
      (plainReq (.retry { Retry.ofTotal (.num 10) (.num 2) with raiseOnRedirect := false }))).outcome
        = .response ⟨302, some [47, 110]⟩ ∧
    (run loopWorld (.manager ⟨.none, .dict [], none⟩) 10
      (plainReq (.retry { Retry.ofTotal (.num 10) (.num 2) with raiseOnRedirect := false }))).followed = 2 := by
  exact ⟨sane_ofTotal _ _, by decide, by decide, by decide, by decide⟩

end U3.Props
