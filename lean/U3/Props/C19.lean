import U3.Model.Timeout
import U3.Lemmas.Timeout
/-!
# C19 — socket waits never exceed the configured timeouts

All statements are for **all** integers (time in units of 2⁻¹⁰ s): every configured value, every
clock value, every connect / send duration.  Vocabulary (`U3/Lemmas/Timeout.lean`):
`TV.fin` (the bound a slot configures, `none` = ∞), `optMin`, `v.le b` ("`v` is at least as tight
as slot `b`"), `connectSpec` / `readSpec` (the property's min-formulas), `wire` (the events that
reach the OS: the connect-phase timeout and every `settimeout`), `elapsed` (time between
`start_connect()` and the evaluation of `read_timeout` within the same request).

Reading of "unset" (`_DEFAULT_TIMEOUT` / argument omitted): the slot configures no bound of its
own; the system default (`gdt`) is what is applied when nothing else bounds the wait.

Repaired defect (formerly `C19_sentinel_total_typeError`): `total` given *explicitly* as the
sentinel together with a numeric `connect` made `connect_timeout` raise `TypeError`
(`min(number, _DEFAULT_TIMEOUT)`).  `connect_timeout` now treats a sentinel `total` as "no total",
like `read_timeout` always did; the statements below hold for every `total` — the former
hypothesis `t.total ≠ .unset` and the hypotheses about the pool's own `connect_timeout` being
defined are gone (`C19_sentinel_total_ok`, `connectTimeout_ok`).
-/
namespace U3.Props
open U3 U3.Timeout

/-! ## validation -/

/-- A `Timeout` is built iff every argument is the sentinel, `None` or a positive number; then it
stores exactly the arguments and its clock is unstarted; otherwise (zero, negative, boolean,
non-number in any slot) the constructor raises `ValueError`. -/
theorem C19_validation (total connect read : Arg) :
    (total.Valid ∧ connect.Valid ∧ read.Valid →
      ∃ t, mk total connect read = .ok t ∧ t.start = none ∧ t.total.toArg = total ∧
        t.connect.toArg = connect ∧ t.read.toArg = read ∧ t.WF) ∧
    (¬ (total.Valid ∧ connect.Valid ∧ read.Valid) → mk total connect read = .error .valueError) :=
  ⟨fun h => mk_ok total connect read h.1 h.2.1 h.2.2, mk_err total connect read⟩

/-- the individual invalid kinds, spelled out -/
theorem C19_validation_kinds (q : Int) (b : Bool) :
    (q ≤ 0 → ¬ (Arg.num q).Valid) ∧ ¬ (Arg.bool b).Valid ∧ ¬ Arg.nonNumber.Valid ∧
    (0 < q → (Arg.num q).Valid) ∧ Arg.none.Valid ∧ Arg.unset.Valid := by
  simp [Arg.Valid]

/-- A legacy number given at request level is validated when the request builds its `Timeout`:
an invalid one ends the request with `ValueError` before anything reaches a connection. -/
theorem C19_validation_at_request (gdt : TV) (P : Timeout) (a : Arg) (conn : ConnSt)
    (now cdur sdur : Int) (cl : Bool) (h : ¬ a.Valid) :
    (urlopen gdt P (.num a) conn now cdur sdur cl).out = .exc .valueError ∧
    (urlopen gdt P (.num a) conn now cdur sdur cl).evs = [] ∧
    (makeRequest gdt P (.num a) conn now cdur sdur cl).out = .exc .valueError ∧
    (makeRequest gdt P (.num a) conn now cdur sdur cl).evs = [] := by
  have he : getTimeout P (.num a) = .error .valueError := by
    simp only [getTimeout, fromFloat]
    exact mk_err _ _ _ (fun hv => h hv.2.1)
  simp [urlopen, makeRequest, he]

example : ¬ (Arg.num 0).Valid ∧ ¬ (Arg.num (-512)).Valid ∧ ¬ (Arg.bool true).Valid := by
  simp [Arg.Valid]
example : mk .none (.num 2048) (.bool true) = .error .valueError := by rfl
example : (mk (.num 10240) (.num 2048) .unset).toOption.map (·.connect) = some (.val 2048) := by rfl

/-! ## the values -/

/-- `connect_timeout` (after `resolve_default_timeout`) is min(connect, total). -/
theorem C19_connect_eq_min (gdt : TV) (t : Timeout) :
    ∃ v, connectTimeout t = .ok v ∧
      resolveDefault gdt v =
        (match optMin t.connect.fin t.total.fin with
         | some m => .val m
         | none => resolveDefault gdt t.connect) :=
  connectTimeout_spec gdt t

example : connectTimeout ⟨.val 2048, .none, .val 512, none⟩ = .ok (.val 512) := by rfl
example : connectTimeout ⟨.unset, .none, .val 512, none⟩ = .ok (.val 512) := by rfl
example : resolveDefault (.val 3072) <$> connectTimeout ⟨.unset, .none, .none, none⟩ = .ok (.val 3072) := by rfl
example : connectTimeout ⟨.val 2048, .none, .unset, none⟩ = .ok (.val 2048) := by rfl
example : resolveDefault (.val 3072) <$> connectTimeout ⟨.none, .none, .unset, none⟩ = .ok .none := by rfl

/-- the repaired defect (positive counterpart of the former `C19_sentinel_total_typeError`, same
inputs): an explicit sentinel as `total` with a numeric `connect` is accepted by the constructor,
and `connect_timeout` is that `connect` — the sentinel configures no total -/
theorem C19_sentinel_total_ok (c : Int) (hc : 0 < c) (read : Arg) (hr : read.Valid) :
    ∃ t, mk .unset (.num c) read = .ok t ∧ connectTimeout t = .ok (.val c) := by
  obtain ⟨t, h1, _, h3, h4, _, _⟩ := mk_ok .unset (.num c) read trivial hc hr
  refine ⟨t, h1, ?_⟩
  obtain ⟨cc, r, T, s⟩ := t
  cases T <;> cases cc <;> simp_all [TV.toArg, connectTimeout]

/-- the replay case of the former finding (`Timeout(total=DEFAULT_TIMEOUT, connect=0.5)` on the
pool, default request): the request succeeds, connects under 0.5 s and awaits the response under
the system default -/
example :
    (mk .unset (.num 512) .unset).toOption.map
      (fun P => ((urlopen .none P .dflt .noConn 102400 0 0 false).out,
                 wire (urlopen .none P .dflt .noConn 102400 0 0 false).evs))
      = some (.ok, [.connect (.val 512), .sockSet .none]) := by
  decide

/-- `read_timeout` of a clock started at `s`, read at `now`, is
min(read, max(0, total − (now − s))) — for every `now`, also one before `s`. -/
theorem C19_read_eq_min_remaining (gdt : TV) (t : Timeout) (hw : t.WF) (s now : Int)
    (hs : t.start = some s) :
    readTimeout gdt t now = .ok
      (match optMin t.read.fin (t.total.fin.map fun T => max 0 (T - (now - s))) with
       | some m => .val m
       | none => resolveDefault gdt t.read) :=
  readTimeout_spec gdt t hw s now hs

example : readTimeout .none ⟨.none, .val 5120, .val 2048, some 100⟩ 356 = .ok (.val 1792) := by rfl
example : readTimeout .none ⟨.none, .val 512, .val 2048, some 100⟩ 356 = .ok (.val 512) := by rfl
example : readTimeout .none ⟨.none, .unset, .val 2048, some 100⟩ 9000 = .ok (.val 0) := by rfl
example : readTimeout (.val 3072) ⟨.val 512, .val 5120, .unset, some 100⟩ 9000 = .ok (.val 5120) := by rfl
example : (⟨.none, .val 5120, .val 2048, some 100⟩ : Timeout).WF := by simp [Timeout.WF, TV.WF]

/-- What one request puts on the wire (`urlopen`, any connection state, any durations): exactly one
connect-phase value — `create_connection`'s timeout on a new socket, `settimeout` before sending on
a re-used one — equal to min(connect, total), then either `ReadTimeoutError` with nothing further
(the remaining budget is 0) or exactly one `settimeout(min(read, total − elapsed))` before the
response is awaited.  `t` is the Timeout that governs the request (the pool's own
`connect_timeout`, only consulted to construct a connection object, never reaches the wire). -/
theorem C19_request_wire (gdt : TV) (P : Timeout) (arg : TArg) (conn : ConnSt) (now cdur sdur : Int)
    (cl : Bool) (t : Timeout) (hg : getTimeout P arg = .ok t) :
    ∀ r, r = urlopen gdt P arg conn now cdur sdur cl →
    ∀ rt, rt = readSpec gdt t (elapsed conn cdur sdur) →
    (rt = .val 0 → r.out = .exc .readTimeoutError ∧ wire r.evs = [firstEv conn (connectSpec gdt t)]) ∧
    (rt ≠ .val 0 → r.out = .ok ∧ wire r.evs = [firstEv conn (connectSpec gdt t), .sockSet rt]) := by
  obtain ⟨pv, hpv⟩ := connectTimeout_ok P
  obtain ⟨ctRaw, _, hu⟩ := urlopen_form gdt P arg conn now cdur sdur cl t hg pv (fun _ => hpv)
  intro r hr rt hrt
  rw [hu] at hr
  subst hrt
  constructor
  · intro hz
    rw [if_pos hz] at hr
    subst hr
    refine ⟨rfl, ?_⟩
    show wire (newConnEvs gdt conn pv ++ (.setConn ctRaw :: .setConn (connectSpec gdt t) :: [firstEv conn (connectSpec gdt t)])) = _
    rw [wire_pre]
    cases conn <;> rfl
  · intro hz
    rw [if_neg hz] at hr
    subst hr
    refine ⟨rfl, ?_⟩
    show wire (newConnEvs gdt conn pv ++ (.setConn ctRaw :: .setConn (connectSpec gdt t) ::
      [firstEv conn (connectSpec gdt t), .setConn (readSpec gdt t (elapsed conn cdur sdur)),
       .sockSet (readSpec gdt t (elapsed conn cdur sdur))])) = _
    rw [wire_pre]
    cases conn <;> rfl

example :
    let P : Timeout := ⟨.val 2048, .val 5120, .val 10240, none⟩
    (urlopen .none P .dflt .noConn 1000 1024 0 false).out = .ok ∧
    wire (urlopen .none P .dflt .noConn 1000 1024 0 false).evs = [.connect (.val 2048), .sockSet (.val 5120)] := by
  decide

/-- Never negative: whatever a request assigns to `conn.timeout`, passes to `create_connection` or
to `settimeout` is `None` or a number ≥ 0 (given a non-negative system default), for all — also
negative — durations. -/
theorem C19_nonneg (gdt : TV) (hgd : gdt.nonneg) (hgu : gdt ≠ .unset) (P : Timeout) (arg : TArg) (conn : ConnSt)
    (now cdur sdur : Int) (cl : Bool) (t : Timeout) (hg : getTimeout P arg = .ok t) :
    ∀ e ∈ wire (urlopen gdt P arg conn now cdur sdur cl).evs, e.value.nonneg ∧ e.value ≠ .unset := by
  have hw := (getTimeout_unstarted hg).2
  have h := C19_request_wire gdt P arg conn now cdur sdur cl t hg _ rfl _ rfl
  have hc := connectSpec_nonneg gdt t hw hgd
  have hr := readSpec_nonneg gdt t hw hgd (elapsed conn cdur sdur)
  have hcu : connectSpec gdt t ≠ .unset := by
    obtain ⟨c, r, T, s⟩ := t
    cases T <;> cases c <;> cases gdt <;> simp_all [connectSpec, optMin, TV.fin, resolveDefault, TV.nonneg]
  have hru : readSpec gdt t (elapsed conn cdur sdur) ≠ .unset := by
    obtain ⟨c, r, T, s⟩ := t
    cases T <;> cases r <;> cases gdt <;> simp_all [readSpec, optMin, TV.fin, resolveDefault, TV.nonneg]
  have hf : (firstEv conn (connectSpec gdt t)).value = connectSpec gdt t := by
    unfold firstEv; split <;> rfl
  by_cases hz : readSpec gdt t (elapsed conn cdur sdur) = .val 0
  · intro e he
    rw [(h.1 hz).2] at he
    simp at he
    subst he
    rw [hf]; exact ⟨hc, hcu⟩
  · intro e he
    rw [(h.2 hz).2] at he
    simp at he
    rcases he with he | he
    · subst he; rw [hf]; exact ⟨hc, hcu⟩
    · subst he; exact ⟨hr, hru⟩

/-- Never looser than configured (function level): the connect value respects `connect` and
`total`; the read value of a started clock respects `read` and `total` whenever the clock has not
run backwards. -/
theorem C19_never_looser (gdt : TV) (t : Timeout) (hw : t.WF)
    (s now : Int) (hs : t.start = some s) (hn : s ≤ now) :
    (∃ v, connectTimeout t = .ok v ∧ (resolveDefault gdt v).le t.connect ∧ (resolveDefault gdt v).le t.total) ∧
    (∃ v, readTimeout gdt t now = .ok v ∧ v.le t.read ∧ v.le t.total) := by
  obtain ⟨v, hv, hsp⟩ := connectTimeout_spec gdt t
  refine ⟨⟨v, hv, ?_⟩, ⟨_, readTimeout_spec gdt t hw s now hs, readSpec_le gdt t hw (now - s) (by omega)⟩⟩
  rw [hsp]
  exact connectSpec_le gdt t

example : (TV.val 1792).le (.val 5120) ∧ (TV.val 1792).le (.val 2048) ∧ ¬ (TV.none).le (.val 5) ∧
    ¬ (TV.val 6).le (.val 5) ∧ (TV.none).le .none := by
  simp [TV.le]

/-- Never looser than configured (request level): for non-negative durations every value a request
puts on the wire respects `total`; the connect-phase value also respects `connect`; the value
under which the response is awaited also respects `read`. -/
theorem C19_never_looser_request (gdt : TV) (P : Timeout) (arg : TArg) (conn : ConnSt)
    (now cdur sdur : Int) (cl : Bool) (hcd : 0 ≤ cdur) (hsd : 0 ≤ sdur)
    (t : Timeout) (hg : getTimeout P arg = .ok t) :
    ∀ r, r = urlopen gdt P arg conn now cdur sdur cl →
    (∀ e ∈ wire r.evs, e.value.le t.total) ∧
    (∀ e, (wire r.evs)[0]? = some e → e.value.le t.connect) ∧
    (r.out = .ok → ∀ e, (wire r.evs)[1]? = some e → e.value.le t.read) := by
  have hw := (getTimeout_unstarted hg).2
  have h := C19_request_wire gdt P arg conn now cdur sdur cl t hg _ rfl _ rfl
  have hc := connectSpec_le gdt t
  have hr := readSpec_le gdt t hw (elapsed conn cdur sdur) (elapsed_nonneg conn cdur sdur hcd hsd)
  have hf : (firstEv conn (connectSpec gdt t)).value = connectSpec gdt t := by
    unfold firstEv; split <;> rfl
  intro r hr
  subst hr
  by_cases hz : readSpec gdt t (elapsed conn cdur sdur) = .val 0
  · have h1 := (h.1 hz)
    have hwr := h1.2
    have hout := h1.1
    rw [hwr]
    refine ⟨?_, ?_, ?_⟩
    · intro e he; simp at he; subst he; rw [hf]; exact hc.2
    · intro e he; simp at he; subst he; rw [hf]; exact hc.1
    · intro ho; rw [hout] at ho; cases ho
  · have h2 := (h.2 hz)
    have hwr := h2.2
    rw [hwr]
    refine ⟨?_, ?_, ?_⟩
    · intro e he
      simp at he
      rcases he with he | he
      · subst he; rw [hf]; exact hc.2
      · subst he; exact hr.2
    · intro e he; simp at he; subst he; rw [hf]; exact hc.1
    · intro _ e he; simp at he; subst he; exact hr.1

/-- A remaining read budget of zero raises `ReadTimeoutError` without touching the socket again —
and only then: with `total = T` the request is refused iff `T ≤ elapsed`; without a total never. -/
theorem C19_zero_raises (gdt : TV) (hgd : gdt ≠ .val 0) (P : Timeout) (arg : TArg) (conn : ConnSt)
    (now cdur sdur : Int) (cl : Bool) (t : Timeout) (hg : getTimeout P arg = .ok t) :
    ∀ r, r = urlopen gdt P arg conn now cdur sdur cl →
    ((∃ T, t.total = .val T ∧ T ≤ elapsed conn cdur sdur) →
        r.out = .exc .readTimeoutError ∧ (wire r.evs).length = 1 ∧ r.conn = .noConn) ∧
    (¬ (∃ T, t.total = .val T ∧ T ≤ elapsed conn cdur sdur) → r.out = .ok ∧ (wire r.evs).length = 2) := by
  have hw := (getTimeout_unstarted hg).2
  have h := C19_request_wire gdt P arg conn now cdur sdur cl t hg _ rfl _ rfl
  have hz := readSpec_zero_iff gdt t hw hgd (elapsed conn cdur sdur)
  obtain ⟨pv, hpv⟩ := connectTimeout_ok P
  obtain ⟨ctRaw, _, hu⟩ := urlopen_form gdt P arg conn now cdur sdur cl t hg pv (fun _ => hpv)
  intro r hr
  subst hr
  constructor
  · intro hT
    have h0 := hz.2 hT
    have h1 := h.1 h0
    refine ⟨h1.1, ?_, ?_⟩
    · rw [h1.2]; rfl
    · rw [hu, if_pos h0]
  · intro hT
    have h0 : readSpec gdt t (elapsed conn cdur sdur) ≠ .val 0 := fun e => hT (hz.1 e)
    have h2 := h.2 h0
    refine ⟨h2.1, ?_⟩
    rw [h2.2]; rfl

example :
    let P : Timeout := ⟨.val 2048, .val 5120, .val 10240, none⟩
    (urlopen .none P .dflt .noConn 7 20480 0 false).out = .exc .readTimeoutError ∧
    wire (urlopen .none P .dflt .noConn 7 20480 0 false).evs = [.connect (.val 2048)] := by
  decide

/-! ## request level overrides pool level -/

/-- Which Timeout governs a request (the `t` of the request-level theorems): without a request-level
value the pool's configuration, with a `Timeout` object exactly that object's configuration, with a
legacy number `a` the configuration `Timeout(connect=a, read=a)` — in every case with a fresh,
unstarted clock. -/
theorem C19_governing_timeout (P u : Timeout) (a : Arg) :
    (P.WF → getTimeout P .dflt = .ok { P with start := none }) ∧
    (u.WF → getTimeout P (.tobj u) = .ok { u with start := none }) ∧
    (a.Valid → ∃ v, validateTimeout a = .ok v ∧ v.toArg = a ∧
        getTimeout P (.num a) = .ok ⟨v, v, .none, none⟩) := by
  refine ⟨fun h => clone_ok P h, fun h => clone_ok u h, fun h => ?_⟩
  obtain ⟨v, hv, hva, _⟩ := validate_ok a h
  have hn : validateTimeout .none = .ok .none := rfl
  exact ⟨v, hv, hva, by simp only [getTimeout, fromFloat, mk, hv, hn]⟩

example : (⟨.val 2048, .val 5120, .val 10240, some 77⟩ : Timeout).WF := by simp [Timeout.WF, TV.WF]

/-- With a request-level timeout (a `Timeout` object or a legacy number) the outcome, the wire
events, the clock and the connection state do not depend on the pool's Timeout at all (which is
only consulted for the constructor argument of a new connection object, overwritten before use). -/
theorem C19_request_overrides_pool (gdt : TV) (P₁ P₂ : Timeout) (arg : TArg) (harg : arg ≠ .dflt)
    (conn : ConnSt) (now cdur sdur : Int) (cl : Bool) :
    ∀ r₁ r₂, r₁ = urlopen gdt P₁ arg conn now cdur sdur cl → r₂ = urlopen gdt P₂ arg conn now cdur sdur cl →
    r₁.out = r₂.out ∧ wire r₁.evs = wire r₂.evs ∧ r₁.now = r₂.now ∧ r₁.conn = r₂.conn ∧
    (conn ≠ .noConn → r₁ = r₂) := by
  obtain ⟨pv₁, hp₁⟩ := connectTimeout_ok P₁
  obtain ⟨pv₂, hp₂⟩ := connectTimeout_ok P₂
  have hgt : getTimeout P₁ arg = getTimeout P₂ arg := by
    cases arg <;> simp_all [getTimeout]
  have hmr : ∀ a', a' ≠ TArg.dflt → ∀ c, makeRequest gdt P₁ a' c now cdur sdur cl = makeRequest gdt P₂ a' c now cdur sdur cl := by
    intro a' ha' c
    have : getTimeout P₁ a' = getTimeout P₂ a' := by cases a' <;> simp_all [getTimeout]
    simp only [makeRequest, this]
  intro r₁ r₂ e1 e2
  unfold urlopen at e1 e2
  rw [← hgt] at e2
  cases hgx : getTimeout P₁ arg with
  | error e =>
    simp only [hgx] at e1 e2
    subst e1 e2
    simp
  | ok tobj =>
    simp only [hgx, hp₁, hp₂] at e1 e2
    rw [← hmr (.tobj tobj) (by simp)] at e2
    cases hct : connectTimeout tobj with
    | error e =>
      simp only [hct] at e1 e2
      by_cases hn : conn = .noConn
      · subst hn
        simp only [if_true] at e1 e2
        subst e1 e2
        simp [wire, isWire]
      · simp only [hn, if_false] at e1 e2
        subst e1 e2
        simp
    | ok ctRaw =>
      simp only [hct] at e1 e2
      by_cases hn : conn = .noConn
      · subst hn
        simp only [if_true] at e1 e2
        subst e1 e2
        simp [wire, isWire]
      · simp only [hn, if_false] at e1 e2
        subst e1 e2
        simp

example :
    let P₁ : Timeout := ⟨.val 7168, .val 7168, .val 7168, none⟩
    let P₂ : Timeout := ⟨.none, .none, .none, none⟩
    let t : Timeout := ⟨.val 512, .val 2048, .none, none⟩
    wire (urlopen .none P₁ (.tobj t) .noConn 0 256 0 false).evs = [.connect (.val 512), .sockSet (.val 2048)] ∧
    wire (urlopen .none P₂ (.tobj t) .noConn 0 256 0 false).evs = [.connect (.val 512), .sockSet (.val 2048)] ∧
    wire (urlopen .none P₁ .dflt .noConn 0 256 0 false).evs = [.connect (.val 7168), .sockSet (.val 6912)] := by
  decide

/-! ## clock isolation -/

/-- (a) a clone is unstarted, whatever the state of the original; (b) the Timeout a request works
with is unstarted and well-formed even if the pool's or the caller's object had been started;
(c) a request changes neither the pool's Timeout nor any Timeout object held by the caller — over
any sequence of operations the pool's own clock stays unstarted and a caller's object is started
only by the caller; (d) the absolute clock value at which a request begins (hence everything that
happened in earlier requests and between requests) has no influence on what the request applies
or how it ends. -/
theorem C19_clock_isolation :
    (∀ t t', clone t = .ok t' → t'.start = none) ∧
    (∀ P arg t, getTimeout P arg = .ok t → t.start = none ∧ t.WF) ∧
    (∀ (p : Pool) u a cd sd cl, (step p (.req u a cd sd cl)).1.timeout = p.timeout ∧
        (step p (.req u a cd sd cl)).1.objs = p.objs) ∧
    (∀ (p : Pool) (ops : List Op), p.timeout.start = none → (run p ops).timeout.start = none) ∧
    (∀ gdt P arg conn now now' cd sd cl,
        (urlopen gdt P arg conn now cd sd cl).evs = (urlopen gdt P arg conn now' cd sd cl).evs ∧
        (urlopen gdt P arg conn now cd sd cl).out = (urlopen gdt P arg conn now' cd sd cl).out ∧
        (urlopen gdt P arg conn now cd sd cl).conn = (urlopen gdt P arg conn now' cd sd cl).conn ∧
        (urlopen gdt P arg conn now cd sd cl).now - now = (urlopen gdt P arg conn now' cd sd cl).now - now') := by
  refine ⟨fun t t' h => (clone_unstarted h).1, fun P arg t h => getTimeout_unstarted h, ?_, ?_, ?_⟩
  · intro p u a cd sd cl
    simp only [step]
    split <;> simp
  · intro p ops
    induction ops generalizing p with
    | nil => intro h; exact h
    | cons o ops ih =>
      intro h
      simp only [run, List.foldl_cons]
      apply ih
      cases o <;> simp only [step]
      all_goals (repeat' split) <;> simp_all
      all_goals first
        | exact (mk_wf (by assumption)).2
        | skip
  · intro gdt P arg conn now now' cd sd cl
    exact urlopen_shift gdt P arg conn now now' cd sd cl

example :
    let p := run init [.pool (.num 10240) .unset .unset, .req true .dflt 5120 0 false, .adv 102400,
                       .req true .dflt 0 0 false]
    p.timeout.start = none ∧ p.conn = .alive ∧
    (step p (.req true .dflt 0 0 false)).2 =
      .res [.setConn (.val 10240), .setConn (.val 10240), .sockSet (.val 10240), .setConn (.val 10240),
            .sockSet (.val 10240)] .ok := by
  decide

end U3.Props
