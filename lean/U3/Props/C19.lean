import U3.Model.Timeout
namespace U3.Props
open U3 U3.Timeout
theorem C19_placeholder : (1:Nat) = 1 := rfl
end U3.Props
