import U3.Base.Proto
import U3.Model.Route
-- driver: route
/-! Line-protocol driver for `U3.Route` (C15).

```
mgr d                          -> ok                  PoolManager(cert_reqs="CERT_NONE", ssl_context=CTX)
mgr p <proxy-url> <0|1>        -> ok | err <Class>    ProxyManager(proxy_url, use_forwarding_for_https=…, same keywords)
follow <url> [label=alabel,…]  -> as `route`, with the `kw["headers"]` of the previous hop (redirect follow-up)
route <url> [label=alabel,…]   -> ok pool=<n> dial=<host> <port> tls=<names> connect=<bytes|~> target=<str> host=<values> req=<bytes>
                                  | err <Class>
reset                          -> ok                  (back to `mgr d`)
```
IDNA answers as in the `url` driver: the labels listed are those for which `idna.encode` succeeded. -/
namespace U3.Drive.Route
open U3 U3.Proto U3.Route

def showWireExc : Wire.Exc → String
  | .valueError => "ValueError"
  | .invalidURL => "InvalidURL"
  | .unicodeEncodeError => "UnicodeEncodeError"
  | .unicodeError => "UnicodeError"
  | .assertionError => "AssertionError"
  | .unrewindableBody => "UnrewindableBodyError"
  | .locationParseError => "LocationParseError"

def showExc : Exc → String
  | .locationParseError => "LocationParseError"
  | .locationValueError => "LocationValueError"
  | .urlSchemeUnknown => "URLSchemeUnknown"
  | .proxySchemeUnknown => "ProxySchemeUnknown"
  | .protocolError => "ProtocolError"
  | .unicodeError => "UnicodeError"
  | .keyError => "KeyError"
  | .typeError => "TypeError"
  | .attributeError => "AttributeError"
  | .wire e => showWireExc e
  | .unmodelled => "unmodelled"

def idnaOf (tbl : List (Str × Str)) (label : Str) : Option Str :=
  (tbl.find? (fun p => p.1 == label)).map (·.2)

/-- the pool keywords the harness passes to both managers -/
def extra : PoolKey.Ctx := [(lit "cert_reqs", .str (lit "CERT_NONE")), (lit "ssl_context", .obj 1)]

def showOptBytes : Option Bytes → String
  | none => "~"
  | some b => showStr b

def showRoute (r : Route) : String :=
  s!"ok pool={r.pool} dial={showStr r.dialHost} {r.dialPort} tls={showStrList r.tls} " ++
  s!"connect={showOptBytes r.connect} target={showStr r.target} host={showStrList r.hostHeader} " ++
  s!"req={showStr r.request}"

structure St where
  m : Mgr
  carried : List (Str × Str)      -- `kw["headers"]` of the last successful hop

def doRoute (st : St) (s : Str) (tbl : List (Str × Str)) (follow : Bool) : St × String :=
  match routeUrl (idnaOf tbl) st.m s (if follow then st.carried else []) with
  | (m', .ok r) => (⟨m', r.kwHeaders⟩, showRoute r)
  | (m', .error e) => (⟨m', []⟩, "err " ++ showExc e)

def fresh : St := ⟨Mgr.init none extra, []⟩

def stepLine (m : St) (toks : List String) : St × String :=
  let bad := (m, "bad-op")
  match toks with
  | ["reset"] => (fresh, "ok")
  | ["mgr", "d"] => (fresh, "ok")
  | ["mgr", "p", url, fwd] =>
    (match str? url with
     | some u =>
       (match mkProxy (fun _ => none) u (fwd == "1") with
        | .ok p => (⟨Mgr.init (some p) extra, []⟩, "ok")
        | .error e => (m, "err " ++ showExc e))
     | none => bad)
  | [op, s] =>
    if op != "route" && op != "follow" then bad else
    (match str? s with
     | some s => doRoute m s [] (op == "follow")
     | none => bad)
  | [op, s, tbl] =>
    if op != "route" && op != "follow" then bad else
    (match str? s, pairs? tbl with
     | some s, some tbl => doRoute m s tbl (op == "follow")
     | _, _ => bad)
  | _ => bad

def main : IO Unit := loop stepLine fresh

end U3.Drive.Route
