import U3.Base.Proto
import U3.Model.Timeout
-- driver: timeout
/-! Line-protocol driver for `U3.Timeout`.

Tokens: timeout values `U` (sentinel) `N` (None) or a decimal integer (units of 2⁻¹⁰ s);
constructor arguments additionally `T` / `F` (booleans) and `X` (non-number).

  gdt <tv>                               -> ok
  pool <total> <connect> <read>          -> ok | <Exc>
  poolnum <arg>                          -> ok | <Exc>
  tmo <total> <connect> <read>           -> h<i> | <Exc>
  adv <d>                                -> ok
  req <u|d> <D|h<i>|n:<arg>> <cdur> <sdur> <0|1>
                                         -> out=<ok|Exc> ev=<new:v,set:v,connect:v,sock:v…|->
  start <h>                              -> ok | <Exc>
  clone <h>                              -> h<j> | <Exc>
  ct <h> | rt <h> | dur <h>              -> <tv> | <int> | <Exc>          (observations)
  obs                                    -> pool=<0|1> conn=<none|closed|alive> objs=<0|1…|->
-/
namespace U3.Drive.Timeout
open U3 U3.Proto U3.Timeout

def tv? (s : String) : Option TV :=
  if s == "U" then some .unset else if s == "N" then some .none else s.toInt?.map .val

def arg? (s : String) : Option Arg :=
  if s == "U" then some .unset else if s == "N" then some .none
  else if s == "T" then some (.bool true) else if s == "F" then some (.bool false)
  else if s == "X" then some .nonNumber else s.toInt?.map .num

def showTV : TV → String
  | .unset => "U"
  | .none => "N"
  | .val q => toString q

def showExc : Exc → String
  | .valueError => "ValueError"
  | .timeoutStateError => "TimeoutStateError"
  | .readTimeoutError => "ReadTimeoutError"
  | .badHandle => "bad-handle"

def showEv : Ev → String
  | .newConn v => "new:" ++ showTV v
  | .setConn v => "set:" ++ showTV v
  | .connect v => "connect:" ++ showTV v
  | .sockSet v => "sock:" ++ showTV v

def handle? (s : String) : Option Nat :=
  if s.startsWith "h" then (s.drop 1).toString.toNat? else none

def reqArg? (s : String) : Option ReqArg :=
  if s == "D" then some .dflt
  else if s.startsWith "n:" then (arg? (s.drop 2).toString).map .num
  else (handle? s).map .obj

def bool? (s : String) : Option Bool := if s == "1" then some true else if s == "0" then some false else none

def parseOp : List String → Option Op
  | ["gdt", v] => (tv? v).map .setGdt
  | ["pool", t, c, r] => do pure (.pool (← arg? t) (← arg? c) (← arg? r))
  | ["poolnum", a] => (arg? a).map .poolNum
  | ["tmo", t, c, r] => do pure (.tmo (← arg? t) (← arg? c) (← arg? r))
  | ["adv", d] => d.toInt?.map .adv
  | ["req", m, a, cd, sd, cl] => do
    let u ← (if m == "u" then some true else if m == "d" then some false else none)
    pure (.req u (← reqArg? a) (← cd.toInt?) (← sd.toInt?) (← bool? cl))
  | ["start", h] => (handle? h).map .start
  | ["clone", h] => (handle? h).map .cloneObj
  | _ => none

def showOut : Out → String
  | .unit => "ok"
  | .handle h => s!"h{h}"
  | .err e => showExc e
  | .res evs out =>
    "out=" ++ (match out with | .ok => "ok" | .exc e => showExc e) ++
    " ev=" ++ (if evs.isEmpty then "-" else ",".intercalate (evs.map showEv))

def b (x : Bool) : String := if x then "1" else "0"

def showExcept {α : Type} (f : α → String) : Except Exc α → String
  | .ok a => f a
  | .error e => showExc e

def observe (p : Pool) : List String → Option String
  | ["ct", h] => do
    let t ← p.objs[(← handle? h)]?
    pure (showExcept showTV (connectTimeout t))
  | ["rt", h] => do
    let t ← p.objs[(← handle? h)]?
    pure (showExcept showTV (readTimeout p.gdt t p.now))
  | ["dur", h] => do
    let t ← p.objs[(← handle? h)]?
    pure (showExcept toString (getConnectDuration t p.now))
  | ["obs"] =>
    let conn := match p.conn with | .noConn => "none" | .closed => "closed" | .alive => "alive"
    let objs := if p.objs.isEmpty then "-" else String.join (p.objs.map fun t => b t.start.isSome)
    some s!"pool={b p.timeout.start.isSome} conn={conn} objs={objs}"
  | _ => none

def stepLine (p : Pool) (toks : List String) : Pool × String :=
  if toks == ["reset"] then (init, "ok") else
  match parseOp toks with
  | some op => let (p', o) := step p op; (p', showOut o)
  | none => match observe p toks with
    | some s => (p, s)
    | none => (p, "bad-op")

def main : IO Unit := loop stepLine init

end U3.Drive.Timeout
