import U3.Base.Proto
import U3.Model.Lru
-- driver: lru
/-!
Line-protocol driver for `U3.Lru` / `U3.Conc` / `U3.Mgr` (C17).

Sequential container:   `new <cap>` · `get k` · `set k v` · `del k` · `clear` · `len` · `keys` · `has k` · `mget k`
                        → `<result> | <disposed values in call order> | <items oldest first>`
Sequential manager:     `mnew <cap>` · `goc k` · `mclear` · `release p` · `gc` · `mlen`
Concurrent (container `…`, manager `m…`), programs `op,op/op,…` (threads separated by `/`, `-` = empty),
ops `g:k s:k:v d:k c l k h:k m:k` (manager: `g:k c r:p x l`), thread-id lists `0.1.1.0` (`-` = empty):
  `conc <cap> <progs> <schedule>`     small-step semantics `Conc.exec` under the given schedule
  `lin <cap> <progs> <order>`         sequential execution in the given lock order (`Conc.seqRun ∘ histOf`)
  `outcomes <cap> <progs>`            the set of outcomes over all complete lock orders (= over all schedules,
                                      `C17_linearizable` / `C17_outcomes_complete`)
  `member <cap> <progs> <outcome>`    `in` / `out`
-/
namespace U3.Drive.Lru
open U3 U3.Proto U3.Lru U3.Conc U3.Mgr

def dots (l : List Nat) : String := if l.isEmpty then "-" else ".".intercalate (l.map toString)
def sortN (l : List Nat) : List Nat := l.mergeSort (· ≤ ·)
def showItems (l : Items) : String :=
  if l.isEmpty then "-" else ",".intercalate (l.map fun (k, v) => s!"{k}:{v}")

def showOut : Out → String
  | .val v => s!"v{v}" | .keyError => "KeyError" | .unit => "ok" | .num n => s!"n{n}"
  | .ks l => "ks" ++ dots (sortN l) | .bool b => if b then "T" else "F" | .none_ => "None"

def showMOut : MOut → String
  | .pool p f => s!"p{p}" ++ (if f then "+" else "=") | .unit => "ok" | .num n => s!"n{n}"
  | .closedNow l => "closed" ++ dots (sortN l) | .error => "error"

def parseOp : List String → Option Op
  | ["get", k] => k.toNat?.map .get
  | ["set", k, v] => do pure (.set (← k.toNat?) (← v.toNat?))
  | ["del", k] => k.toNat?.map .del
  | ["clear"] => some .clear | ["len"] => some .len | ["keys"] => some .keys
  | ["has", k] => k.toNat?.map .has
  | ["mget", k] => k.toNat?.map .mget
  | _ => none

def parseMOp : List String → Option MOp
  | ["goc", k] => k.toNat?.map .goc
  | ["mclear"] => some .clear
  | ["release", p] => p.toNat?.map .release
  | ["gc"] => some .gc
  | ["mlen"] => some .len
  | _ => none

def shortOp? (s : String) : Option Op :=
  match s.splitOn ":" with
  | ["g", k] => k.toNat?.map .get
  | ["s", k, v] => do pure (.set (← k.toNat?) (← v.toNat?))
  | ["d", k] => k.toNat?.map .del
  | ["c"] => some .clear | ["l"] => some .len | ["k"] => some .keys
  | ["h", k] => k.toNat?.map .has
  | ["m", k] => k.toNat?.map .mget
  | _ => none

def shortMOp? (s : String) : Option MOp :=
  match s.splitOn ":" with
  | ["g", k] => k.toNat?.map .goc
  | ["c"] => some .clear
  | ["r", p] => p.toNat?.map .release
  | ["x"] => some .gc
  | ["l"] => some .len
  | _ => none

def progs? {α : Type} (f : String → Option α) (tok : String) : Option (List (List α)) :=
  (tok.splitOn "/").mapM fun p => if p == "-" then some [] else (p.splitOn ",").mapM f

def nats? (tok : String) : Option (List Nat) :=
  if tok == "-" then some [] else (tok.splitOn ".").mapM (·.toNat?)

def showResults {R : Type} (sh : R → String) (rs : List (List R)) : String :=
  "/".intercalate (rs.map fun l => if l.isEmpty then "-" else ",".intercalate (l.map sh))

/-- canonical outcome: per-thread results, final items (ordered), dispose multiset -/
def outcomeC (rs : List (List Out)) (c : C) (disposed : List Val) : String :=
  "R" ++ showResults showOut rs ++ "|I" ++ showItems c.items ++ "|D" ++ dots (sortN disposed)

def outcomeM (rs : List (List MOut)) (m : M) (_ : List Val) : String :=
  "R" ++ showResults showMOut rs ++ "|I" ++ showItems m.cache.items ++ "|X" ++ dots (sortN m.dropped)

def dedupSorted : List String → List String
  | a :: b :: t => if a == b then dedupSorted (b :: t) else a :: dedupSorted (b :: t)
  | l => l

def outcomesOf {S O R : Type} (stepf : S → O → S × R × List Val) (oc : List (List R) → S → List Val → String)
    (s : S) (progs : List (List O)) : List String :=
  let os := (lockOrders progs).map fun τ =>
    let q := seqRun stepf s progs.length (histOf progs τ)
    oc q.results q.st q.disposed
  dedupSorted (os.mergeSort (· ≤ ·))

def concLine {S O R : Type} (stepf : S → O → S × R × List Val) (oc : List (List R) → S → List Val → String)
    (s : S) (progs : List (List O)) (σ : List Nat) : String :=
  let cfg := exec stepf (Cfg.init s progs) σ
  (if cfg.done then "done " else "open ") ++ oc (cfg.threads.map (·.results)) cfg.st (cfg.log.map (·.2))
    ++ "|L" ++ (if cfg.log.isEmpty then "-" else ",".intercalate (cfg.log.map fun (i, v) => s!"{i}:{v}"))
    ++ "|H" ++ dots (cfg.hist.map (·.1))

def linLine {S O R : Type} (stepf : S → O → S × R × List Val) (oc : List (List R) → S → List Val → String)
    (s : S) (progs : List (List O)) (τ : List Nat) : String :=
  let q := seqRun stepf s progs.length (histOf progs τ)
  (if (restOf progs τ).all List.isEmpty then "done " else "open ") ++ oc q.results q.st q.disposed

structure St where
  c : C
  m : M
  key : String            -- cache of the last outcome set
  outs : List String

def St.init : St := { c := Lru.new 0, m := M.new 0, key := "", outs := [] }

def withOutcomes (st : St) (kind cap progs : String) : Option (St × List String) :=
  let key := kind ++ " " ++ cap ++ " " ++ progs
  if key == st.key then some (st, st.outs) else do
    let n ← cap.toNat?
    let os ← (if kind == "c" then (progs? shortOp? progs).map (outcomesOf Lru.step outcomeC (Lru.new n))
              else (progs? shortMOp? progs).map (outcomesOf stepM outcomeM (M.new n)))
    pure ({ st with key := key, outs := os }, os)

def stepLine (st : St) (toks : List String) : St × String :=
  match toks with
  | ["reset"] => ({ st with c := Lru.new 0, m := M.new 0 }, "ok")
  | ["new", cap] => match cap.toNat? with
    | some n => ({ st with c := Lru.new n }, "ok")
    | none => (st, "bad-op")
  | ["mnew", cap] => match cap.toNat? with
    | some n => ({ st with m := M.new n }, "ok")
    | none => (st, "bad-op")
  | ["conc", cap, progs, sched] =>
    match cap.toNat?, progs? shortOp? progs, nats? sched with
    | some n, some ps, some σ => (st, concLine Lru.step outcomeC (Lru.new n) ps σ)
    | _, _, _ => (st, "bad-op")
  | ["mconc", cap, progs, sched] =>
    match cap.toNat?, progs? shortMOp? progs, nats? sched with
    | some n, some ps, some σ => (st, concLine stepM outcomeM (M.new n) ps σ)
    | _, _, _ => (st, "bad-op")
  | ["lin", cap, progs, order] =>
    match cap.toNat?, progs? shortOp? progs, nats? order with
    | some n, some ps, some τ => (st, linLine Lru.step outcomeC (Lru.new n) ps τ)
    | _, _, _ => (st, "bad-op")
  | ["mlin", cap, progs, order] =>
    match cap.toNat?, progs? shortMOp? progs, nats? order with
    | some n, some ps, some τ => (st, linLine stepM outcomeM (M.new n) ps τ)
    | _, _, _ => (st, "bad-op")
  | ["outcomes", cap, progs] => match withOutcomes st "c" cap progs with
    | some (st', os) => (st', " ".intercalate os)
    | none => (st, "bad-op")
  | ["moutcomes", cap, progs] => match withOutcomes st "m" cap progs with
    | some (st', os) => (st', " ".intercalate os)
    | none => (st, "bad-op")
  | ["member", cap, progs, o] => match withOutcomes st "c" cap progs with
    | some (st', os) => (st', if os.contains o then "in" else "out")
    | none => (st, "bad-op")
  | ["mmember", cap, progs, o] => match withOutcomes st "m" cap progs with
    | some (st', os) => (st', if os.contains o then "in" else "out")
    | none => (st, "bad-op")
  | _ =>
    match parseOp toks with
    | some op =>
      let r := Lru.step st.c op
      ({ st with c := r.1 }, showOut r.2.1 ++ " | " ++ " ".intercalate (r.2.2.map toString) ++ " | " ++ showItems r.1.items)
    | none =>
      match parseMOp toks with
      | some op =>
        let r := stepM st.m op
        ({ st with m := r.1 }, showMOut r.2.1 ++ " | " ++ showItems r.1.cache.items)
      | none => (st, "bad-op")

def main : IO Unit := loop stepLine St.init

end U3.Drive.Lru
