import U3.Base.Proto
import U3.Model.Pool
-- driver: pool
/-! Line-protocol driver for `U3.Pool`.

```
new <maxsize> <block> <proxy>
req <rid> <retries ~|n> <preload> <release> <redirect> <methodRetryable> <isHead> [<fileBody><bodyPos><badTimeout>[<badPoolTimeout>[<badHeader>]]] <attempt>;<attempt>…
    attempt = connect,send,head,headLen,body,stray,after,seg[,sizes,trailers,hold[,pre,wait]]
    pre = ok | unrewind      wait = ok | invalid | intr
    head = none | garbage | <status>:<close>:<cl ~|n>:<location>:<retryAfter>[:<chunked>]
disp <rid> readall|readk:<k>|readkrel:<k>|release|drain|close|drop|stream:<k>
closepool
```
answer: `trace=<events, consecutive duplicates collapsed> q=<queue, top first> result=<…>` -/
namespace U3.Drive.Pool
open U3 U3.Proto U3.Pool

def bool? (s : String) : Option Bool := if s == "1" then some true else if s == "0" then some false else none

def optNat? (s : String) : Option (Option Nat) := if s == "~" then some none else s.toNat?.map some

def connect? : String → Option ConnectOut
  | "ok" => some .ok | "refused" => some .refused | "timeout" => some .timeout
  | "nameres" => some .nameRes | "intr" => some .interrupt | _ => none

def send? : String → Option SendOut
  | "ok" => some .ok | "epipe" => some .epipe | "reset" => some .reset
  | "oserr" => some .osError | "intr" => some .interrupt | _ => none

def after? : String → Option After
  | "silent" => some .silent | "fin" => some .fin | "reset" => some .reset | "intr" => some .interrupt | _ => none

def pre? : String → Option PreOut
  | "ok" => some .ok | "unrewind" => some .unrewindable | _ => none

def wait? : String → Option WaitOut
  | "ok" => some .ok | "invalid" => some .invalidHeader | "intr" => some .interrupt | _ => none

def head? (s : String) : Option (Option Head) :=
  if s == "none" then some none
  else if s == "garbage" then some (some garbageHead)
  else match s.splitOn ":" with
    | [st, cl, n, loc, ra] => do
      let h : Head := Head.mk (← st.toNat?) (← bool? cl) (← optNat? n) (← bool? loc) (← bool? ra) false false
      pure (some h)
    | [st, cl, n, loc, ra, ch] => do
      let h : Head := Head.mk (← st.toNat?) (← bool? cl) (← optNat? n) (← bool? loc) (← bool? ra) false (← bool? ch)
      pure (some h)
    | _ => none

def attempt? (s : String) : Option Attempt :=
  match s.splitOn "," with
  | [c, sd, h, hl, b, st, a, sg] => do
    let a : Attempt := Attempt.mk (← connect? c) (← send? sd) (← head? h) (← hl.toNat?) (← str? b) (← str? st)
      (← after? a) (← sg.toNat?) [] [] 0 .ok .ok
    pure a
  | [c, sd, h, hl, b, st, a, sg, sz, tr, ho] => do
    let a : Attempt := Attempt.mk (← connect? c) (← send? sd) (← head? h) (← hl.toNat?) (← str? b) (← str? st)
      (← after? a) (← sg.toNat?) (← str? sz) (← str? tr) (← ho.toNat?) .ok .ok
    pure a
  | [c, sd, h, hl, b, st, a, sg, sz, tr, ho, pr, wt] => do
    let a : Attempt := Attempt.mk (← connect? c) (← send? sd) (← head? h) (← hl.toNat?) (← str? b) (← str? st)
      (← after? a) (← sg.toNat?) (← str? sz) (← str? tr) (← ho.toNat?) (← pre? pr) (← wait? wt)
    pure a
  | _ => none

def script? (s : String) : Option (List Attempt) :=
  if s == "-" then some [] else (s.splitOn ";").mapM attempt?

def how? (s : String) : Option How :=
  match s.splitOn ":" with
  | ["readall"] => some .readAll
  | ["readk", k] => k.toNat?.map .readK
  | ["readkrel", k] => k.toNat?.map .readKRelease
  | ["release"] => some .release
  | ["drain"] => some .drain
  | ["close"] => some .close
  | ["drop"] => some .drop
  | ["stream", k] => k.toNat?.map .stream
  | _ => none

def flags? (s : String) : Option (Bool × Bool × Bool × Bool × Bool) :=
  match s.toList with
  | [a, b, c] => do pure (← bool? (String.ofList [a]), ← bool? (String.ofList [b]), ← bool? (String.ofList [c]), false, false)
  | [a, b, c, d] => do
    pure (← bool? (String.ofList [a]), ← bool? (String.ofList [b]), ← bool? (String.ofList [c]), ← bool? (String.ofList [d]),
      false)
  | [a, b, c, d, e] => do
    pure (← bool? (String.ofList [a]), ← bool? (String.ofList [b]), ← bool? (String.ofList [c]), ← bool? (String.ofList [d]),
      ← bool? (String.ofList [e]))
  | _ => none

def reqOp (rid ret pre rel red mret hd ext sc : String) : Option Op := do
  let retries ← (optNat? ret).map fun
    | none => Retry.off
    | some n => Retry.count n
  let pre ← bool? pre
  let rel ← bool? rel
  let red ← bool? red
  let mret ← bool? mret
  let hd ← bool? hd
  let (fb, bp, bt, bpt, bh) ← flags? ext
  let rc : ReqCfg := ReqCfg.mk pre rel red mret hd fb bp bt bpt bh
  pure (.request (← rid.toNat?) rc retries (← script? sc))

def parseOp : List String → Option Op
  | ["req", rid, ret, pre, rel, red, mret, hd, sc] => reqOp rid ret pre rel red mret hd "000" sc
  | ["req", rid, ret, pre, rel, red, mret, hd, ext, sc] => reqOp rid ret pre rel red mret hd ext sc
  | ["disp", rid, how] => do pure (.dispose (← rid.toNat?) (← how? how))
  | ["closepool"] => some .closePool
  | _ => none

def showEv : Ev → String
  | .connect k => s!"connect:s{k}"
  | .send k => s!"send:s{k}"
  | .recv k => s!"recv:s{k}"
  | .close k => s!"close:s{k}"
  | .put (some c) => s!"put:c{c}"
  | .put none => "put:~"

def dedup : List Ev → List Ev
  | [] => []
  | [e] => [e]
  | a :: b :: t => if a = b then dedup (b :: t) else a :: dedup (b :: t)

def showList (l : List String) : String := if l.isEmpty then "-" else ",".intercalate l

def showQueue (q : List (Option Nat)) : String :=
  showList (q.map fun
    | some c => s!"c{c}"
    | none => "~")

def clsName (c : Nat) : String := Gen.excNames.getD c s!"class{c}"

def cellVal : Cell → Nat
  | .hd _ _ => 0
  | .body _ v => v
  | .fr _ _ => 0

def showResult (s : State) : Result → String
  | .resp r => match s.resps[r]? with
    | some rs => s!"resp:{rs.status}"
    | none => "resp:?"
  | .raised e => "raise:" ++ clsName e.cls
  | .scriptExhausted => "script-exhausted"

def showDisp : DispOut → String
  | .unit => "ok"
  | .data d => "data:" ++ showStr (d.map cellVal)
  | .raised e => "raise:" ++ clsName e.cls
  | .noSuchResponse => "no-such-response"

def showOut (s : State) : Out → String
  | .result r => showResult s r
  | .disp d => showDisp d
  | .unit => "ok"

def stepLine (st : Option State) (toks : List String) : Option State × String :=
  if toks == ["reset"] then (none, "ok") else
  match toks with
  | ["new", m, b, p] =>
    match m.toNat?, bool? b, bool? p with
    | some m, some b, some p => (some (init m b p), "ok")
    | _, _, _ => (st, "bad-op")
  | _ =>
    match st, parseOp toks with
    | some s, some op =>
      let (s', o) := step { s with log := [] } op
      (some s', s!"trace={showList ((dedup s'.log).map showEv)} q={showQueue s'.queue} result={showOut s' o}")
    | _, _ => (st, "bad-op")

def main : IO Unit := loop stepLine (none : Option State)

end U3.Drive.Pool
