import U3.Base.Proto
import U3.Model.Wire
import U3.Model.Url
-- driver: wire
/-! Line-protocol driver for `U3.Wire` (C10, C11).

```
req  <host> <port> <dport> <bs> <netloc|E:Exc> <idna|E:Exc> <meth> <target> <headers> <body> <chunked>
pool …same…                     (target re-encoded by `_encode_target` first)
     -> ok <wire bytes>  |  err <Exc> <bytes written before the failure>
enc <target>                    -> ok <str> | err LocationParseError
encx <target>                   -> same, followed by ` url=agree|differ` (vs `U3.Url.encodeTarget`)
mt <tail>                       -> ok <str>
hist <pool|manager> <cfg×6> <meth> <target> <headers> <body> <chunked> <outcomes>
     -> result=<ok|Exc> n=<k> <wire0> <wire1> …
h2 <name> <value>               -> ok <name bytes> <value bytes> | err <Exc>
parse <bytes>                   -> none | m=… t=… h=… frame=<kind|none> payload=…
```
body: `N` | `B/<bytes>` | `S/<str>` | `U/<itemsize>/<bytes>` | `F/<text01>/<seek>/<tell>/<pos>/<content>`
| `R/<text01>/<seek>/<tell>/<pos>/<piece,piece,…>` (read script of a stream, `~` = no piece; `F/…/<content>` is the
script `[content]`) | `I/<oneshot01>/<chunk,chunk,…>` with chunk `b:<bytes>` | `s:<str>` | `u:<itemsize>:<bytes>`;
outcomes: letters `c r s k t o`. -/
namespace U3.Drive.Wire
open U3 U3.Proto U3.Wire

def excName : Exc → String
  | .valueError => "ValueError"
  | .invalidURL => "InvalidURL"
  | .unicodeEncodeError => "UnicodeEncodeError"
  | .unicodeError => "UnicodeError"
  | .assertionError => "AssertionError"
  | .unrewindableBody => "UnrewindableBodyError"
  | .locationParseError => "LocationParseError"

def exc? (s : String) : Option Exc :=
  [Exc.valueError, .invalidURL, .unicodeEncodeError, .unicodeError, .assertionError, .unrewindableBody,
   .locationParseError].find? fun e => excName e == s

def bool? (s : String) : Option Bool := if s == "1" then some true else if s == "0" then some false else none

def orExc? (tok : String) : Option (Except Exc Str) :=
  match tok.splitOn ":" with
  | ["E", e] => (exc? e).map .error
  | _ => (str? tok).map .ok

def avail? : String → Option Avail
  | "ok" => some .ok
  | "raises" => some .raises
  | "absent" => some .absent
  | _ => none

def chunk? (tok : String) : Option Chunk :=
  match tok.splitOn ":" with
  | ["b", x] => (str? x).map .bytes
  | ["s", x] => (str? x).map .str
  | ["u", k, x] => do pure (.buf (← str? x) (← k.toNat?))
  | _ => none

def body? (tok : String) : Option Body :=
  match tok.splitOn "/" with
  | ["N"] => some .none
  | ["B", x] => (str? x).map .bytes
  | ["S", x] => (str? x).map .str
  | ["U", k, x] => do pure (.buffer (← str? x) (← k.toNat?))
  | ["F", tx, sk, tl, pos, c] => do          -- a regular file: the one-piece read script
    pure (.file ⟨[← str? c], ← pos.toNat?, ← avail? sk, ← avail? tl, ← bool? tx⟩)
  | ["R", tx, sk, tl, pos, ps] => do         -- a stream given by its read script
    let ps ← if ps == "~" then some [] else (ps.splitOn ",").mapM str?
    pure (.file ⟨ps, ← pos.toNat?, ← avail? sk, ← avail? tl, ← bool? tx⟩)
  | ["I", one, cs] => do
    let cs ← if cs == "-" then some [] else (cs.splitOn ",").mapM chunk?
    pure (.iter cs (← bool? one))
  | _ => none

def cfg? : List String → Option Cfg
  | [host, port, dport, bs, netloc, idna] => do
    pure ⟨← str? host, ← port.toNat?, ← dport.toNat?, ← bs.toNat?, ← orExc? netloc, ← orExc? idna⟩
  | _ => none

def outcome? : Char → Option Outcome
  | 'c' => some .connErr
  | 'r' => some .readErr
  | 's' => some .retryStatus
  | 'k' => some .redirectKeep
  | 't' => some .redirect303
  | 'o' => some .ok
  | _ => none

def showRes (r : Result) : String :=
  match r.sent.err with
  | none => "ok " ++ showStr r.sent.written
  | some e => "err " ++ excName e ++ " " ++ showStr r.sent.written

def frameName : FrameKind → String
  | .unframed => "unframed"
  | .contentLength => "content-length"
  | .chunked => "chunked"

def run : List String → Option String
  | "req" :: a :: b :: c :: d :: e :: f :: [m, t, hs, body, ch] => do
    let cfg ← cfg? [a, b, c, d, e, f]
    pure (showRes (request cfg (← str? m) (← str? t) (← pairs? hs) (← body? body) (← bool? ch)))
  | "pool" :: a :: b :: c :: d :: e :: f :: [m, t, hs, body, ch] => do
    let cfg ← cfg? [a, b, c, d, e, f]
    let body ← body? body
    match encodeTarget (← str? t) with
    | .error e => pure ("err " ++ excName e ++ " -")
    | .ok t' => pure (showRes (request cfg (← str? m) t' (← pairs? hs) body (← bool? ch)))
  | ["enc", t] => do
    match encodeTarget (← str? t) with
    | .ok s => pure ("ok " ++ showStr s)
    | .error e => pure ("err " ++ excName e)
  | ["encx", t] => do
    -- `_encode_target` by this model, and whether the C14 model (`U3.Url.encodeTarget`) agrees
    let t ← str? t
    let agree := match encodeTarget t, U3.Url.encodeTarget t with
      | .ok a, .ok b => a == b
      | .error _, .error _ => true
      | _, _ => false
    let tag := if agree then " url=agree" else " url=differ"
    match encodeTarget t with
    | .ok s => pure ("ok " ++ showStr s ++ tag)
    | .error e => pure ("err " ++ excName e ++ tag)
  | ["mt", t] => do pure ("ok " ++ showStr (managerTarget (← str? t)))
  | "hist" :: lvl :: a :: b :: c :: d :: e :: f :: [m, t, hs, body, ch, outs] => do
    let cfg ← cfg? [a, b, c, d, e, f]
    let lvl ← if lvl == "pool" then some Level.pool else if lvl == "manager" then some Level.manager else none
    let os ← outs.toList.mapM outcome?
    let r := sendHistory lvl cfg (← str? t) (← bool? ch) os
      ⟨← str? m, ← pairs? hs, ← body? body, .none, false, none⟩
    let res := match r.result with | .ok _ => "ok" | .error e => excName e
    pure (s!"result={res} n={r.attempts.length}" ++ String.join (r.attempts.map fun a => " " ++ showStr a.wire))
  | ["h2", n, v] => do
    match h2Putheader (← str? n) (← str? v) with
    | .ok (a, b) => pure ("ok " ++ showStr a ++ " " ++ showStr b)
    | .error e => pure ("err " ++ excName e)
  | ["parse", w] => do
    match strictParse (← str? w) with
    | none => pure "none"
    | some r =>
      let fr := match deframe r with
        | some (k, p) => s!"frame={frameName k} payload={showStr p}"
        | none => "frame=none payload=-"
      pure (s!"m={showStr r.method} t={showStr r.target} h={showPairs r.headers} " ++ fr)
  | _ => none

def stepLine (st : Unit) (toks : List String) : Unit × String :=
  if toks == ["reset"] then (st, "ok") else
  match run toks with
  | some s => (st, s)
  | none => (st, "bad-op")

def main : IO Unit := loop stepLine ()

end U3.Drive.Wire
