import U3.Base.Proto
import U3.Model.PoolConc
-- driver: poolconc
/-! Line-protocol driver for `U3.PoolConc`.

* `conf <maxsize> <block 0|1> <timeout 0|1> <prog> <prog> …` — fixes the configuration and computes,
  by exhaustive search over ALL schedules (DFS over `U3.PoolConc.step` with a visited set), the set
  of outcome vectors of the terminal configurations (no thread enabled); prints `ok`.
  A program is a `,`-joined list of ops `r<fails><O|F|C|D>` (request, preload; `C` = the reply carries
  `Connection: close`, `D` = keep-alive reply after which the peer closes), `s<fails><O|F|C|D>` (request, streaming), `l` (release_conn), `c` (close); `-` is the empty program.
* `mem <vector>` — `1` / `0`: is the vector a possible outcome?  A vector is
  `<thread>/<thread>/…:<open after drop>:<max open>`, a thread being its `,`-joined results
  (`hang` for the op it is blocked in for ever, `-` for every op after that, `.` if it has no op).
* `outcomes` — all vectors, `|`-joined (sorted);  `stats` — `<#outcomes> <#configurations>`.
* `sched <t.t.t…>` — the vector reached by `U3.PoolConc.run` on that schedule, prefixed by
  `final ` when no thread is enabled there and `partial ` otherwise.
-/
namespace U3.Drive.PoolConc
open U3 U3.Proto U3.PoolConc

def parseOp (s : String) : Option Op :=
  match s.toList with
  | ['l'] => some .release
  | ['c'] => some .close
  | k :: rest =>
    if k != 'r' && k != 's' then none else
    match rest.reverse with
    | o :: ds =>
      let last? : Option Outcome :=
        if o == 'O' then some .ok else if o == 'F' then some .fail else if o == 'C' then some .okClose else if o == 'D' then some .okDrop else none
      match last?, (String.ofList ds.reverse).toNat? with
      | some last, some n => some (.req n last (k == 's'))
      | _, _ => none
    | [] => none
  | [] => none

def parseProg (s : String) : Option (List Op) :=
  if s == "-" then some [] else (s.splitOn ",").mapM parseOp

def showRes : Res → String
  | .ok => "ok"
  | .closedPool => "closed"
  | .emptyPool => "empty"
  | .failed => "failed"
  | .fullPool => "full"
  | .internalErr => "internal"
  | .wrongResp => "wrong"

def showThread (th : Thread) : String :=
  let done := th.results.map (fun p => showRes p.2)
  let rest := if th.done then []
              else "hang" :: List.replicate (th.prog.length - 1) "-"
  let all := done ++ rest
  if all.isEmpty then "." else ",".intercalate all

def showVec (s : State) : String :=
  "/".intercalate (s.threads.map showThread) ++ s!":{(openAfterDrop s).length}:{s.sh.maxOpen}"

def nBuckets : Nat := 262144

/-- exhaustive search; returns the outcome vectors of the terminal configurations and the number of
configurations visited -/
partial def explore (s0 : State) : List String × Nat :=
  let rec go (stack : List State) (seen : Array (List State)) (outs : List String) (n : Nat) :
      List String × Nat :=
    match stack with
    | [] => (outs, n)
    | s :: rest =>
      let i := (hash s).toNat % nBuckets
      let b := seen[i]!
      if b.contains s then go rest seen outs n else
      let seen := seen.set! i (s :: b)
      let succ := (List.range s.threads.length).filterMap (step s)
      if succ.isEmpty then
        let v := showVec s
        go rest seen (if outs.contains v then outs else v :: outs) (n + 1)
      else go (succ ++ rest) seen outs (n + 1)
  go [s0] (Array.replicate nBuckets []) [] 0

def insertSorted (x : String) : List String → List String
  | [] => [x]
  | y :: t => if x < y then x :: y :: t else y :: insertSorted x t

structure St where
  conf : Option State := none
  outs : List String := []
  nconf : Nat := 0

def b? (s : String) : Option Bool := if s == "1" then some true else if s == "0" then some false else none

def stepLine (st : St) (toks : List String) : St × String :=
  match toks with
  | ["reset"] => ({}, "ok")
  | "conf" :: m :: b :: t :: progs =>
    match m.toNat?, b? b, b? t, progs.mapM parseProg with
    | some m, some b, some t, some ps =>
      let s0 := init ⟨m, b, t⟩ ps
      let (outs, n) := explore s0
      ({ conf := some s0, outs := outs.foldl (fun acc x => insertSorted x acc) [], nconf := n }, "ok")
    | _, _, _, _ => (st, "bad-conf")
  | ["mem", v] => (st, if st.conf.isNone then "no-conf" else if st.outs.contains v then "1" else "0")
  | ["outcomes"] => (st, if st.conf.isNone then "no-conf" else "|".intercalate st.outs)
  | ["stats"] => (st, s!"{st.outs.length} {st.nconf}")
  | ["sched", σ] =>
    match st.conf, (if σ == "-" then some [] else (σ.splitOn ".").mapM String.toNat?) with
    | some s0, some σ =>
      let s := runFrom s0 σ
      let fin := (List.range s.threads.length).all (fun t => !enabled s t)
      (st, (if fin then "final " else "partial ") ++ showVec s)
    | _, _ => (st, "bad-sched")
  | _ => (st, "bad-op")

def main : IO Unit := loop stepLine ({} : St)

end U3.Drive.PoolConc
