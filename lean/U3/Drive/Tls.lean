import U3.Base.Proto
import U3.Model.Tls
-- driver: tls
/-! Line-protocol driver for `U3.Tls`.

One line per case, `key=value` tokens in any order:

```
run py=0 ncn=1 host=<s> cr=<u|c|f|s><N|O|R>? ah=<u|f|n:<s>> fp=<~|s> sh=<~|s> ctx=<~|<s|p><N|O|R><ch><cn><ca>>
    ca=<0|1> mode=<d|th|ts|fw> th=<s> pctx=… pah=… pfp=… oo=<3 bits> op=<3 bits>
    names=<s>:<isIp><o.ossl cn0><o.ossl cn1><o.u3 cn0><o.u3 cn1><p.ossl0><p.ossl1><p.u30><p.u31>,…
    pins=<s>:<origin digestOk><proxy digestOk>,…
dem  … same tokens …        -- prints `demands` / `proxyDemands`
```

Answer of `run`: `ok iv= piv= sni= wraps=… warn= req= closed=` or `err=<class> wraps=… …`; one TLS-layer
call is printed as `<server_hostname>/<verify_mode>/<check_hostname>/<ca given>/<tls_in_tls>/<load_default_certs called>`.

The oracle functions are finite tables; the model is evaluated twice, with `false` and with `true`
as the answer for names / pins missing from the table, and `oracle-miss` is printed when the two
runs differ (so that an incomplete table can never pass silently). -/
namespace U3.Drive.Tls
open U3 U3.Proto U3.Tls

def vm? : Char → Option VerifyMode
  | 'N' => some .none | 'O' => some .optional | 'R' => some .required | _ => none

def bit? : Char → Option Bool
  | '0' => some false | '1' => some true | _ => none

def cr? (s : String) : Option CertReqs :=
  match s.toList with
  | ['u'] => some .unset
  | ['c', m] => (vm? m).map .const
  | ['f', m] => (vm? m).map .full
  | ['s', m] => (vm? m).map .short
  | _ => none

def ah? (s : String) : Option AssertHostname :=
  if s == "u" then some .unset else if s == "f" then some .isFalse else
  match s.splitOn ":" with
  | ["n", n] => (str? n).map .name
  | _ => none

def ctx? (s : String) : Option (Option Ctx) :=
  if s == "~" then some none else
  match s.toList with
  | [k, m, ch, cn, ca] => do
    let kind ← (if k == 's' then some CtxKind.stdlib else if k == 'p' then some CtxKind.pyopenssl else none)
    pure (some { kind := kind, verifyMode := ← vm? m, checkHostname := ← bit? ch, checksCN := ← bit? cn,
                 ownCA := ← bit? ca })
  | _ => none

def mode? (s : String) : Option ProxyMode :=
  if s == "d" then some .direct else if s == "th" then some .tunnelHttp
  else if s == "ts" then some .tunnelHttps else if s == "fw" then some .forwardHttps else none

def lookup (kv : List (String × String)) (k : String) : Option String :=
  (kv.find? (·.1 == k)).map (·.2)

def kvs (toks : List String) : List (String × String) :=
  toks.filterMap fun t => match t.splitOn "=" with
    | [k, v] => some (k, v)
    | _ => none

structure NameRow where
  name : Str
  bits : List Bool

def rows? (tok : String) (width : Nat) : Option (List NameRow) :=
  if tok == "-" then some [] else
  (tok.splitOn ",").mapM fun p => match p.splitOn ":" with
    | [n, b] => do
      let n ← str? (if n.isEmpty then "-" else n)
      let bs ← b.toList.mapM bit?
      if bs.length == width then pure { name := n, bits := bs } else none
    | _ => none

def tableFn (rows : List NameRow) (dflt : Bool) (col : Nat) (s : Str) : Bool :=
  match rows.find? (·.name == s) with
  | some r => r.bits.getD col dflt
  | none => dflt

def peer (bits : List Bool) (names pins : List NameRow) (base pcol : Nat) (dflt : Bool) : PeerOracle :=
  { validConfigured := bits.getD 0 false, validSystem := bits.getD 1 false, validOwn := bits.getD 2 false,
    osslMatch := fun s cn => tableFn names dflt (base + (if cn then 1 else 0)) s,
    u3Match := fun s cn => tableFn names dflt (base + 2 + (if cn then 1 else 0)) s,
    digestOk := fun s => tableFn pins dflt pcol s }

def parse (toks : List String) : Option (Cfg × (Bool → Oracle)) := do
  let kv := kvs toks
  let g := lookup kv
  let b (k : String) : Option Bool := do let v ← g k; match v.toList with | [c] => bit? c | _ => none
  let cfg : Cfg := {
    env := { isPyOpenSSL := ← b "py", hasNeverCheckCN := ← b "ncn" },
    host := ← str? (← g "host"),
    certReqs := ← cr? (← g "cr"),
    assertHostname := ← ah? (← g "ah"),
    assertFingerprint := ← optStr? (← g "fp"),
    serverHostname := ← optStr? (← g "sh"),
    sslContext := ← ctx? (← g "ctx"),
    caGiven := ← b "ca",
    mode := ← mode? (← g "mode"),
    tunnelHost := ← str? (← g "th"),
    proxy := { sslContext := ← ctx? (← g "pctx"), assertHostname := ← ah? (← g "pah"),
               assertFingerprint := ← optStr? (← g "pfp") } }
  let oo ← (← g "oo").toList.mapM bit?
  let op ← (← g "op").toList.mapM bit?
  let names ← rows? (← g "names") 9
  let pins ← rows? (← g "pins") 2
  let mk (d : Bool) : Oracle :=
    { isIp := tableFn names d 0, origin := peer oo names pins 1 0 d, proxy := peer op names pins 5 1 d }
  pure (cfg, mk)

def bs (x : Bool) : String := if x then "1" else "0"

def showVm : VerifyMode → String
  | .none => "N" | .optional => "O" | .required => "R"

def showWrap (w : WrapObs) : String :=
  s!"{showStr w.serverHostname}/{showVm w.verifyMode}/{bs w.checkHostname}/{bs w.caGiven}/{bs w.tlsInTls}/{bs w.loadDefault}"

def showWraps (ws : List WrapObs) : String :=
  if ws.isEmpty then "-" else ";".intercalate (ws.map showWrap)

def showExc : Exc → String
  | .sslError => "SSLError"
  | .proxyErrorSsl => "ProxyError/SSLError"
  | .valueError => "ValueError"
  | .proxySchemeUnsupported => "ProxySchemeUnsupported"

def wrapsOf (r : Outcome) : List WrapObs :=
  r.events.filterMap fun | .wrap o => some o | _ => none

def showOutcome (r : Outcome) : String :=
  let tail := s!"wraps={showWraps (wrapsOf r)} warn={bs r.warned} req={bs r.requestSent} closed={bs r.closedAtEnd}"
  match r.result with
  | .error e => s!"err={showExc e} {tail}"
  | .ok k =>
    let piv := match k.proxyIsVerified with | none => "~" | some v => bs v
    s!"ok iv={bs k.isVerified} piv={piv} sni={showStr k.sni} {tail}"

def showDemand (d : PeerDemand) : String :=
  let nm := match d.name with
    | none => "~"
    | some (n, cn) => s!"{showStr n}/{bs cn}"
  s!"chain={bs d.chain} trust={bs d.trust.configured}{bs d.trust.system}{bs d.trust.own} name={nm} pin={showOptStr d.pin}"

def stepLine (st : Unit) (toks : List String) : Unit × String :=
  if toks == ["reset"] then (st, "ok") else
  match toks with
  | "run" :: rest =>
    match parse rest with
    | none => (st, "bad-op")
    | some (cfg, mk) =>
      let a := showOutcome (urlopenOnce cfg (mk false))
      let b := showOutcome (urlopenOnce cfg (mk true))
      (st, if a == b then a else "oracle-miss")
  | "dem" :: rest =>
    match parse rest with
    | none => (st, "bad-op")
    | some (cfg, _) =>
      let p := match proxyDemands cfg with
        | none => "~"
        | some d => showDemand d
      (st, s!"eff={showVm (effectiveCertReqs cfg)} origin: {showDemand (demands cfg)} proxy: {p}")
  | _ => (st, "bad-op")

def main : IO Unit := loop stepLine ()

end U3.Drive.Tls
