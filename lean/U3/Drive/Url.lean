import U3.Base.Proto
import U3.Model.Url
-- driver: url
/-! Line-protocol driver for `U3.Url` (DESIGN.md App. C).

```
parse <str> [label=alabel,…]   -> ok <scheme> <auth> <host> <port> <path> <query> <fragment> | url=… request_uri=… netloc=… authority=…
                                  | err LocationParseError
enc <u|i|p|q|f> <str>          -> str <encoded>          (_encode_invalid_chars with the named set)
dotseg <str>                   -> str <path>             (_remove_path_dot_segments)
nhost <host|~> <scheme|~> [idna] -> host <str|~> | err …   (_normalize_host)
hostport <str>                 -> hp <host> <port|~> | nomatch   (_HOST_PORT_RE.match(...).groups())
target <str>                   -> str <encoded> | err …   (_encode_target)
ref <str>                      -> ref <userinfo|~> <host> <port|~> <wf> | noauth   (independent RFC reading)
```
IDNA answers: the labels listed are those for which `idna.encode` succeeded (with its answer); any
other non-ASCII label fails. -/
namespace U3.Drive.Url
open U3 U3.Proto U3.Url

def showExc : Exc → String
  | .locationParseError => "LocationParseError"
  | .attributeError => "AttributeError"
  | .valueError => "ValueError"
  | .other => "Exception"

def idnaOf (tbl : List (Str × Str)) (label : Str) : Option Str :=
  (tbl.find? (fun p => p.1 == label)).map (·.2)

def showPort : Option Nat → String
  | none => "~"
  | some n => toString n

def showUrl (u : Url) : String :=
  s!"ok {showOptStr u.scheme} {showOptStr u.auth} {showOptStr u.host} {showPort u.port} " ++
  s!"{showOptStr u.path} {showOptStr u.query} {showOptStr u.fragment} | url={showStr u.render} " ++
  s!"request_uri={showStr u.requestUri} netloc={showOptStr u.netloc} authority={showOptStr u.authority}"

def setOf : String → Option (List Nat)
  | "u" => some Gen.unreservedChars
  | "i" => some Gen.userinfoChars
  | "p" => some Gen.pathChars
  | "q" => some Gen.queryChars
  | "f" => some Gen.fragmentChars
  | _ => none

def run : List String → Option String
  | ["parse", s] => do
    let s ← str? s
    pure (match parseUrlWith (fun _ => none) s with
      | .ok u => showUrl u
      | .error e => "err " ++ showExc e)
  | ["parse", s, tbl] => do
    let s ← str? s
    let tbl ← pairs? tbl
    pure (match parseUrlWith (idnaOf tbl) s with
      | .ok u => showUrl u
      | .error e => "err " ++ showExc e)
  | ["enc", k, s] => do
    pure ("str " ++ showStr (encodeInvalidChars (← setOf k) (← str? s)))
  | ["dotseg", s] => do pure ("str " ++ showStr (removeDotSegments (← str? s)))
  | "nhost" :: h :: sc :: rest => do
    let h ← optStr? h
    let sc ← optStr? sc
    let tbl ← match rest with
      | [] => some []
      | [t] => pairs? t
      | _ => none
    pure (match normalizeHost (idnaOf tbl) h sc with
      | .ok r => "host " ++ showOptStr r
      | .error e => "err " ++ showExc e)
  | ["hostport", s] => do
    pure (match hostPortRe (← str? s) with
      | some (h, p) => s!"hp {showStr h} {showOptStr p}"
      | none => "nomatch")
  | ["target", s] => do
    pure (match encodeTarget (← str? s) with
      | .ok r => "str " ++ showStr r
      | .error e => "err " ++ showExc e)
  | ["ref", s] => do
    pure (match refAuthority (← str? s) with
      | some r => s!"ref {showOptStr r.userinfo} {showStr r.host} {showOptStr r.port} {if r.wellFormed then 1 else 0}"
      | none => "noauth")
  | _ => none

def stepLine (st : Unit) (toks : List String) : Unit × String :=
  if toks == ["reset"] then (st, "ok") else
  match run toks with
  | some s => (st, s)
  | none => (st, "bad-op")

def main : IO Unit := loop stepLine ()

end U3.Drive.Url
