import U3.Base.Proto
import U3.Model.Manager
-- driver: manager
/-! Line-protocol driver for `U3.Manager` (stateless: every line is one complete case).

`run k=v k=v …` — values contain no spaces; a value is split at the *first* `=` of its token.

* strings are `.`-joined hex code points (`-` empty, `~` None); bytes likewise
* `arg`: `~` (None) | `F` (False) | `i<int>` | `R:<total>/<redirect>/<raise_on_redirect 0|1>/<remove>`
  with counters `~ | F | <int>` and `remove` = `D` (default set) or a string list
* `hdrs`: `~` (not passed) | `d:<pairs>` (plain dict items) | `h:<pairs>` (HTTPHeaderDict built by
  `add` of these lines in order)
* keys: `client=pm|px|pool`, `mret=<arg>` `mhdr=<hdrs>` (manager constructor),
  `proxy=<scheme>,<host>,<port>,<forward_https 0|1>` `pxhdr=<pairs>`,
  `pool=<scheme>,<host>,<port|~>` `pret=<arg>` `phdr=<hdrs>` (bare pool),
  `via=0|1` `method=` `url=` `body=` `hdr=<hdrs>` `ret=<arg>` `redirect=~|0|1` `ash=~|0|1` `fuel=<n>`
* `serve=<scheme>,<host>,<port>,<method|*>,<target>,<status>,<location|~>;…` (first match wins; no
  match: `200` without `Location`)
* `parse=<raw>,<scheme|~>,<host|~>,<port|~>,<request_uri>,<url>,<netloc|~>,<target>;…`
* `join=<base>,<location>,<result>;…`

Output: `log=<sent>|<sent>… out=<outcome>` with
`sent = <dial scheme>:<host>:<port>/<tunnel 0|1>/<dest scheme>:<host>:<port>/<method>/<target>/<header pairs>/<body|~>/<status>`.
A second command `samehost <pool scheme>,<host>,<port|~> <url> <parse entry>` prints `0`/`1`. -/
namespace U3.Drive.Manager
open U3 U3.Proto U3.Headers U3.Retry U3.Manager

def int? (s : String) : Option Int :=
  if s.startsWith "-" then (s.drop 1).toNat?.map fun n => -(n : Int) else s.toNat?.map fun n => (n : Int)

def count? (s : String) : Option Count :=
  if s == "~" then some .none else if s == "F" then some .disabled else (int? s).map .num

def bool? (s : String) : Option Bool :=
  if s == "1" then some true else if s == "0" then some false else none

def optBool? (s : String) : Option (Option Bool) :=
  if s == "~" then some none else (bool? s).map some

def optNat? (s : String) : Option (Option Nat) :=
  if s == "~" then some none else s.toNat?.map some

def arg? (s : String) : Option Arg :=
  if s == "~" then some .none
  else if s == "F" then some .false
  else if s.startsWith "i" then (int? (s.drop 1).toString).map .int
  else if s.startsWith "R:" then
    match ((s.drop 2).toString).splitOn "/" with
    | [t, rd, ror, rm] => do
      let remove ← if rm == "D" then some Retry.initDefaults.removeHeadersOnRedirect else strList? rm
      pure (.retry (Retry.init { Retry.initDefaults with
        total := ← count? t, redirect := ← count? rd, raiseOnRedirect := ← bool? ror,
        removeHeadersOnRedirect := remove }))
    | _ => none
  else none

def hdrs? (s : String) : Option (Option Hdrs) :=
  if s == "~" then some none
  else if s.startsWith "d:" then (pairs? (s.drop 2).toString).map fun ps => some (.dict ps)
  else if s.startsWith "h:" then (pairs? (s.drop 2).toString).map fun ps => some (.hd (extend [] ps))
  else none

def records (s : String) : List (List String) :=
  if s == "-" then [] else (s.splitOn ";").map (·.splitOn ",")

structure Rule where
  origin : Origin
  method : Option Str
  target : Str
  reply : Reply

def rule? : List String → Option Rule
  | [sc, h, p, m, t, st, loc] => do
    pure ⟨⟨← str? sc, ← str? h, ← p.toNat?⟩, ← (if m == "*" then some none else (str? m).map some),
          ← str? t, ⟨← st.toNat?, ← optStr? loc⟩⟩
  | _ => none

def parseEntry? : List String → Option (Str × PUrl)
  | [raw, sc, h, p, ru, u, nl, t] => do
    pure (← str? raw, ⟨← optStr? sc, ← optStr? h, ← optNat? p, ← str? ru, ← str? u, ← optStr? nl, ← str? t⟩)
  | _ => none

def joinEntry? : List String → Option (Str × Str × Str)
  | [b, l, r] => do pure (← str? b, ← str? l, ← str? r)
  | _ => none

def mkWorld (rules : List Rule) (ptab : List (Str × PUrl)) (jtab : List (Str × Str × Str)) : World where
  serve := fun o m t =>
    match rules.find? (fun r => r.origin == o && r.target == t && (r.method == none || r.method == some m)) with
    | some r => r.reply
    | none => ⟨200, none⟩
  parse := fun s => (ptab.find? (fun e => e.1 == s)).map (·.2)
  join := fun b l => (jtab.find? (fun e => e.1 == b && e.2.1 == l)).map (·.2.2)

/-- `k=v` tokens → association list (split at the first `=`) -/
def kvs (toks : List String) : List (String × String) :=
  toks.filterMap fun t => match t.splitOn "=" with
    | k :: v :: rest => some (k, "=".intercalate (v :: rest))
    | _ => none

def get (kv : List (String × String)) (k : String) (dflt : String) : String :=
  match kv.find? (·.1 == k) with
  | some p => p.2
  | none => dflt

def proxy? (s pxhdr : String) : Option (Option Proxy) :=
  if s == "~" then some none else
  match s.splitOn "," with
  | [sc, h, p, f] => do
    pure (some ⟨← str? sc, ← str? h, ← p.toNat?, ← pairs? pxhdr, ← bool? f⟩)
  | _ => none

def poolId? (s : String) : Option PoolId :=
  match s.splitOn "," with
  | [sc, h, p] => do pure ⟨← str? sc, ← str? h, ← optNat? p⟩
  | _ => none

def showOrigin (o : Origin) : String := s!"{showStr o.scheme}:{showStr o.host}:{o.port}"

def showSent (s : Sent) : String :=
  "/".intercalate [showOrigin s.dial, (if s.tunnel then "1" else "0"), showOrigin s.dest, showStr s.method,
    showStr s.target, showPairs s.headers, showOptStr s.body, toString s.reply.status]

def showOutcome : Manager.Outcome → String
  | .response r => s!"resp:{r.status}:{showOptStr r.location}"
  | .maxRetry => "MaxRetryError"
  | .hostChanged => "HostChangedError"
  | .locationValue => "LocationValueError"
  | .schemeUnknown => "URLSchemeUnknown"
  | .reraised => "reraised"
  | .statusRetry => "statusRetry"
  | .oracleMissing => "oracleMissing"
  | .outOfFuel => "outOfFuel"

def showRun (r : Manager.Run) : String :=
  "log=" ++ (if r.log.isEmpty then "-" else "|".intercalate (r.log.map showSent)) ++ " out=" ++ showOutcome r.outcome

def runLine (kv : List (String × String)) : Option String := do
  let rules ← (records (get kv "serve" "-")).mapM rule?
  let ptab ← (records (get kv "parse" "-")).mapM parseEntry?
  let jtab ← (records (get kv "join" "-")).mapM joinEntry?
  let W := mkWorld rules ptab jtab
  let client ← match get kv "client" "pm" with
    | "pool" => do
      let id ← poolId? (get kv "pool" "")
      pure (Client.pool (Pool.ofCtor id.scheme id.host id.port (← arg? (get kv "pret" "~")) (← hdrs? (get kv "phdr" "~"))))
    | c => do
      let proxy ← if c == "px" then proxy? (get kv "proxy" "~") (get kv "pxhdr" "-") else some none
      pure (Client.manager ⟨← arg? (get kv "mret" "~"), headersOrEmpty (← hdrs? (get kv "mhdr" "~")), proxy⟩)
  let req : Req := {
    viaRequest := ← bool? (get kv "via" "0"), method := ← str? (get kv "method" "47.45.54"),
    url := ← str? (get kv "url" "-"), body := ← optStr? (get kv "body" "~"),
    headers := ← hdrs? (get kv "hdr" "~"), retries := ← arg? (get kv "ret" "~"),
    redirect := ← optBool? (get kv "redirect" "~"), assertSameHost := ← optBool? (get kv "ash" "~") }
  let fuel ← (get kv "fuel" "40").toNat?
  pure (showRun (run W client fuel req))

def stepLine (st : Unit) (toks : List String) : Unit × String :=
  match toks with
  | ["reset"] => (st, "ok")
  | "run" :: rest => (st, (runLine (kvs rest)).getD "bad-op")
  | ["samehost", pool, url, entry] =>
    (st, match poolId? pool, str? url, parseEntry? (entry.splitOn ",") with
      | some p, some u, some (_, pu) =>
        if isSameHost (Pool.ofCtor p.scheme p.host p.port .none none).id u pu then "1" else "0"
      | _, _, _ => "bad-op")
  | _ => (st, "bad-op")

def main : IO Unit := loop stepLine ()

end U3.Drive.Manager
