import U3.Base.Proto
import U3.Model.Resp
-- driver: resp
/-! Line-protocol driver for `U3.Resp` (C12 / C13).

```
resp <wire> <seg> <ce> <cl> <te> <close> <status> <head> <enforce> <decode> <preload> <calls>
   -> one token per call (`rd=68656c`, `st=6865/6c`, `dc` for drain_conn(), `E:ProtocolError`, …) then
      `| fp=… rel=… sock=… lr=… tell=…`
dec <ce> <piece/piece/…>      -> the decoder's output per piece, then `fl=…`
inthex <bytes>                -> ok n | neg | ValueError
sums <bytes>                  -> crc32 adler32
bq <op,op,…>                  -> BytesQueueBuffer ops: p<hex> put, g<n> get, a get_all
```
Bytes are compact lower-case hex (`-` = empty); header values are `.`-joined code points (`~` = absent).
-/
namespace U3.Drive.Resp
open U3 U3.Proto U3.Resp

def hexByte? (a b : Char) : Option Nat := do
  let x ← hexVal a.toNat
  let y ← hexVal b.toNat
  pure (x * 16 + y)

def bytesGo : List Char → Bytes → Option Bytes
  | [], acc => some acc.reverse
  | [_], _ => none
  | a :: b :: t, acc => match hexByte? a b with
    | some v => bytesGo t (v :: acc)
    | none => none

def bytes? (tok : String) : Option Bytes :=
  if tok == "-" then some [] else bytesGo tok.toList []

def hexChar (n : Nat) : Char := Char.ofNat (hexDigit n)

def showBytes (b : Bytes) : String :=
  if b.isEmpty then "-" else String.ofList (b.foldr (fun x acc => hexChar (x / 16) :: hexChar (x % 16) :: acc) [])

def bool? (s : String) : Option Bool := if s == "1" then some true else if s == "0" then some false else none
def b01 (x : Bool) : String := if x then "1" else "0"

def showExc : Exc → String
  | .protocolError => "ProtocolError"
  | .decodeError => "DecodeError"
  | .runtimeError => "RuntimeError"
  | .responseNotChunked => "ResponseNotChunked"
  | .invalidHeader => "InvalidHeader"
  | .attributeError => "AttributeError"
  | .rawDecoderError => "RawDecoderError"
  | .unsupported => "unsupported"
  | .fuel => "no-termination"

inductive Call
  | read (a : Option Nat) | read1 (a : Option Nat) | readinto (k : Nat)
  | stream (a : Option Nat) | readChunked (a : Option Nat) | iter | data
  | drain                    -- `drain_conn()`: returns nothing (token `dc`)
  | loop (c : Call)          -- repeat a read-family call until it returns b"" (harness-side loop)

def amt? (s : String) : Option (Option Nat) := if s == "~" then some none else s.toNat?.map some

def call1? (tok : String) : Option Call :=
  let tag := (tok.take 2).toString
  let rest := (tok.drop 2).toString
  match tag with
  | "rd" => (amt? rest).map .read
  | "r1" => (amt? rest).map .read1
  | "ri" => rest.toNat?.map .readinto
  | "st" => (amt? rest).map .stream
  | "rc" => (amt? rest).map .readChunked
  | "it" => some .iter
  | "da" => some .data
  | "dc" => some .drain
  | _ => none

def call? (tok : String) : Option Call :=
  if (tok.take 1).toString == "L" then (call1? (tok.drop 1).toString).map .loop else call1? tok

def showGen (tag : String) (g : Gen) : String × Bool :=
  let ps := "/".intercalate (g.1.map showBytes)
  match g.2 with
  | none => (tag ++ "=" ++ ps, false)
  | some e => (tag ++ "=" ++ ps ++ "!" ++ showExc e, true)

abbrev St := R H CD

def readLike (cfg : Cfg CD) (dc : Bool) (r : St) : Call → Except Exc Bytes × St
  | .read a => read hSrc cdDec cfg r a (some dc)
  | .read1 a => read1 hSrc cdDec cfg r a (some dc)
  | .readinto k => readinto hSrc cdDec cfg r k
  | _ => (.error .unsupported, r)

def loopCall (cfg : Cfg CD) (dc : Bool) (c : Call) : Nat → St → List Bytes → Gen × St
  | 0, r, acc => ((acc, some .fuel), r)
  | fuel + 1, r, acc =>
    match readLike cfg dc r c with
    | (.error e, r) => ((acc, some e), r)
    | (.ok d, r) => if d.isEmpty then ((acc, none), r) else loopCall cfg dc c fuel r (acc ++ [d])

def runCall (cfg : Cfg CD) (dc : Bool) (r : St) : Call → (String × Bool) × St
  | .loop c => let (g, r) := loopCall cfg dc c cfg.fuel r []; (showGen "L" g, r)
  | .read a => match read hSrc cdDec cfg r a (some dc) with
    | (.ok d, r) => (("rd=" ++ showBytes d, false), r)
    | (.error e, r) => (("E:" ++ showExc e, true), r)
  | .read1 a => match read1 hSrc cdDec cfg r a (some dc) with
    | (.ok d, r) => (("r1=" ++ showBytes d, false), r)
    | (.error e, r) => (("E:" ++ showExc e, true), r)
  | .readinto k => match readinto hSrc cdDec cfg r k with
    | (.ok d, r) => (("ri=" ++ showBytes d, false), r)
    | (.error e, r) => (("E:" ++ showExc e, true), r)
  | .stream a => let (g, r) := stream hSrc cdDec cfg r a (some dc); (showGen "st" g, r)
  | .readChunked a => let (g, r) := readChunked hSrc cdDec cfg r a dc; (showGen "rc" g, r)
  | .iter => let (g, r) := iter hSrc cdDec cfg r; (showGen "it" g, r)
  | .data => match data hSrc cdDec cfg r with
    | (.ok d, r) => (("da=" ++ showBytes d, false), r)
    | (.error e, r) => (("E:" ++ showExc e, true), r)
  | .drain => match drainConn hSrc cdDec cfg r with
    | (.ok _, r) => (("dc", false), r)
    | (.error e, r) => (("E:" ++ showExc e, true), r)

def runCalls (cfg : Cfg CD) (dc : Bool) : List Call → St → List String → List String × St × Bool
  | [], r, acc => (acc.reverse, r, false)
  | c :: t, r, acc =>
    let ((s, stop), r) := runCall cfg dc r c
    if stop then ((s :: acc).reverse, r, true) else runCalls cfg dc t r (s :: acc)

def showOptInt : Option Int → String
  | none => "~"
  | some i => toString i

def final (r : St) (preloadErr : Bool) : String :=
  let sock := r.connClosed || (r.fp.willClose && r.fp.isclosed) || preloadErr
  s!"| fp={b01 r.fp.isclosed} rel={b01 r.released} sock={b01 sock} lr={showOptInt r.lengthRemaining} tell={r.fpBytesRead}"

def runResp : List String → Option String
  | [wire, seg, ce, cl, te, close, status, head, enforce, decode, preload, calls] => do
    let wire ← bytes? wire
    let seg ← seg.toNat?
    let ce ← optStr? ce
    let cl ← optStr? cl
    let te ← optStr? te
    let close ← bool? close
    let status ← status.toNat?
    let head ← bool? head
    let enforce ← bool? enforce
    let dc ← bool? decode
    let preload ← bool? preload
    let calls ← if calls == "-" then some [] else (calls.splitOn ",").mapM call?
    let h := hBegin ⟨[], wire, seg⟩ te cl close status head
    let chunked := u3Chunked te
    let cfg : Cfg CD := { newDecoder := initDecoder ce, enforce := enforce, decodeDefault := dc,
                          chunked := chunked, head := head, fuel := 64 * wire.length + 100000 }
    match initLength cl chunked status head with
    | .error e => pure ("E:" ++ showExc e)
    | .ok lr =>
      let r0 : St := { fp := h, lengthRemaining := lr, conn := !preload }
      if preload then
        -- `self._body = self.read(decode_content=decode_content)` in the constructor
        match read hSrc cdDec cfg r0 none (some dc) with
        | (.error e, r) => pure ("E:" ++ showExc e ++ " " ++ final r true)
        | (.ok d, r) =>
          let r := { r with body := if d.isEmpty then r.body else some d }
          let (outs, r, _) := runCalls cfg dc calls r ["pre=" ++ showBytes d]
          pure (" ".intercalate outs ++ " " ++ final r false)
      else
        let (outs, r, _) := runCalls cfg dc calls r0 []
        pure (" ".intercalate outs ++ " " ++ final r false)
  | _ => none

def showD : Except DErr Bytes → String
  | .ok b => showBytes b
  | .error .decodeError => "E:DecodeError"
  | .error .rawError => "E:RawError"
  | .error .unsupported => "unsupported"

def decPieces (d : CD) : List Bytes → List String → List String
  | [], acc => (match cdDec.flush d with | (r, _) => ("fl=" ++ showD r) :: acc).reverse
  | p :: t, acc =>
    match cdDec.decompress d p with
    | (.ok o, d') => decPieces d' t (showBytes o :: acc)
    | (.error e, _) => (showD (.error e) :: acc).reverse

def runDec : List String → Option String
  | [ce, pieces] => do
    let ce ← str? ce
    let ps ← (pieces.splitOn "/").mapM bytes?
    pure (" ".intercalate (decPieces (getDecoder ce) ps []))
  | _ => none

def bqRun : BQ → List String → List String → Option (List String)
  | _, [], acc => some acc.reverse
  | q, op :: t, acc =>
    let tag := (op.take 1).toString
    let rest := (op.drop 1).toString
    match tag with
    | "p" => do let d ← bytes? rest; bqRun (bqPut q d) t (s!"len={bqLen (bqPut q d)}" :: acc)
    | "g" => do
      let n ← rest.toNat?
      match bqGet q n with
      | none => bqRun q t ("RuntimeError" :: acc)
      | some (d, q') => bqRun q' t ((showBytes d ++ s!":{bqLen q'}") :: acc)
    | "a" => let (d, q') := bqGetAll q; bqRun q' t ((showBytes d ++ s!":{bqLen q'}") :: acc)
    | _ => none

def stepLine (st : Unit) (toks : List String) : Unit × String :=
  if toks == ["reset"] then (st, "ok") else
  let out : Option String := match toks with
    | "resp" :: rest => runResp rest
    | "dec" :: rest => runDec rest
    | ["inthex", b] => (bytes? b).map fun bs => match parseSize bs with
        | .ok n => s!"ok {n}" | .negative => "neg" | .valueError => "ValueError"
    | ["sums", b] => (bytes? b).map fun bs => s!"{crc32 bs} {adler32 bs}"
    | ["bq", ops] => (bqRun [] (ops.splitOn ",") []).map (" ".intercalate ·)
    | _ => none
  (st, out.getD "bad-op")

def main : IO Unit := loop stepLine ()

end U3.Drive.Resp
