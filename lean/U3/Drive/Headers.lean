import U3.Base.Proto
import U3.Model.Headers
-- driver: hd
/-! Line-protocol driver for `U3.Headers` (see DESIGN.md App. C). -/
namespace U3.Drive.Headers
open U3 U3.Proto U3.Headers

def src? : List String → Option Src
  | ["hd", i] => i.toNat?.map .hd
  | ["pairs", p] => (pairs? p).map .pairs
  | _ => none

def bool? (s : String) : Option Bool := if s == "1" then some true else if s == "0" then some false else none

def parseOp : List String → Option Op
  | ["new"] => some .new
  | "ctor" :: s => (src? s).map .ctor
  | ["set", i, k, v] => do pure (.set (← i.toNat?) (← str? k) (← str? v))
  | ["del", i, k] => do pure (.del (← i.toNat?) (← str? k))
  | ["add", i, k, v, c] => do pure (.add (← i.toNat?) (← str? k) (← str? v) (← bool? c))
  | "extend" :: i :: s => do pure (.extend (← i.toNat?) (← src? s))
  | "update" :: i :: s => do pure (.update (← i.toNat?) (← src? s))
  | ["setdefault", i, k, v] => do pure (.setdefault (← i.toNat?) (← str? k) (← str? v))
  | ["pop", i, k, d] => do pure (.pop (← i.toNat?) (← str? k) (← optStr? d))
  | ["popitem", i] => do pure (.popitem (← i.toNat?))
  | ["discard", i, k] => do pure (.discard (← i.toNat?) (← str? k))
  | ["clear", i] => do pure (.clear (← i.toNat?))
  | ["copy", i] => do pure (.copy (← i.toNat?))
  | "or" :: i :: s => do pure (.or (← i.toNat?) (← src? s))
  | "ior" :: i :: s => do pure (.ior (← i.toNat?) (← src? s))
  | "ror" :: i :: s => do pure (.ror (← i.toNat?) (← src? s))
  | ["pmc", i] => do pure (.pmc (← i.toNat?))
  | _ => none

def showOut : Out → String
  | .unit => "ok"
  | .keyError => "KeyError"
  | .badHandle => "bad-handle"
  | .str s => "str " ++ showStr s
  | .pair k v => "pair " ++ showStr k ++ " " ++ showStr v
  | .handle i => s!"h{i}"

def b (x : Bool) : String := if x then "1" else "0"

def observe (st : Store) : List String → Option String
  | ["obs", i] => do
    let h ← st.get (← i.toNat?)
    pure s!"len={h.length} keys={showStrList (iterKeys h)} items={showPairs (iteritems h)} merged={showPairs (itermerged h)}"
  | ["get", i, k] => do
    let h ← st.get (← i.toNat?)
    pure (match getItem h (← str? k) with | some s => "str " ++ showStr s | none => "KeyError")
  | ["getlist", i, k] => do
    let h ← st.get (← i.toNat?)
    pure ("list " ++ showStrList (getlist h (← str? k)))
  | ["contains", i, k] => do
    let h ← st.get (← i.toNat?)
    pure (b (hasKey h (← str? k)))
  | ["hasval", i, k, v] => do
    let h ← st.get (← i.toNat?)
    pure (b (hasValueFor h (← str? k) (← str? v)))
  | ["eq", i, j] => do
    let h ← st.get (← i.toNat?)
    let g ← st.get (← j.toNat?)
    pure (b (eqDict h g))
  | _ => none

def stepLine (st : Store) (toks : List String) : Store × String :=
  if toks == ["reset"] then ([], "ok") else
  match parseOp toks with
  | some op => let (st', o) := step st op; (st', showOut o)
  | none => match observe st toks with
    | some s => (st, s)
    | none => (st, "bad-op")

def main : IO Unit := loop stepLine ([] : Store)

end U3.Drive.Headers
