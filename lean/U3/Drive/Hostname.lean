import U3.Base.Proto
import U3.Model.Hostname
-- driver: hostname
/-! Line-protocol driver for `U3.Hostname` (stateless: every line is one query).

    dns  <dn> <host>                          -> 1 | 0 | CertificateError
    ip   <text>                               -> v4 <packed> | v6 <packed> | ValueError
    ipm  <ipname> <hosttext>                  -> 1 | 0 | ValueError | bad-host
    isip <text>                               -> 1 | 0
    mh   <0|1 cert present> <san pairs> <subject rdns ;-joined pairs> <host> <0|1 cn>
    wmh  … same, through the `_match_hostname` wrapper …
                                              -> ok | CertificateError | ValueError
    fp   <cert bytes | ~> <pin> <md5> <sha1> <sha256>   (the three true digests of the cert)
                                              -> ok | SSLError | BinasciiError | UnicodeEncodeError
-/
namespace U3.Drive.Hostname
open U3 U3.Proto U3.Hostname

def showExc : Exc → String
  | .certificateError => "CertificateError"
  | .valueError => "ValueError"
  | .sslError => "SSLError"
  | .binasciiError => "BinasciiError"
  | .unicodeEncodeError => "UnicodeEncodeError"

def showBool : Except Exc Bool → String
  | .ok true => "1"
  | .ok false => "0"
  | .error e => showExc e

def showUnit : Except Exc Unit → String
  | .ok () => "ok"
  | .error e => showExc e

def bool? (s : String) : Option Bool := if s == "1" then some true else if s == "0" then some false else none

def subject? (tok : String) : Option (List (List (Str × Str))) :=
  if tok == "-" then some [] else (tok.splitOn ";").mapM pairs?

def cert? (present san subj : String) : Option (Option Cert) := do
  let p ← bool? present
  if !p then return none
  let s ← pairs? san
  let j ← subject? subj
  return some ⟨s, j⟩

def showIp : Option IpAddr → String
  | none => "ValueError"
  | some a => (if a.v6 then "v6 " else "v4 ") ++ showStr a.packed

def query : List String → Option String
  | ["dns", dn, host] => do pure (showBool (dnsnameMatch (← str? dn) (← str? host)))
  | ["ip", t] => do pure (showIp (ipAddress (← str? t)))
  | ["ipm", n, h] => do
    match ipAddress (← str? h) with
    | none => pure "bad-host"
    | some ip => pure (showBool (ipaddressMatch (← str? n) ip))
  | ["isip", t] => do pure (if isIpaddress (← str? t) then "1" else "0")
  | ["mh", p, san, subj, host, cn] => do
    pure (showUnit (matchHostname (← cert? p san subj) (← str? host) (← bool? cn)))
  | ["wmh", p, san, subj, host, cn] => do
    pure (showUnit (matchHostnameWrapper (← cert? p san subj) (← str? host) (← bool? cn)))
  | ["fp", cert, pin, d1, d2, d3] => do
    let c ← optStr? cert
    let m ← str? d1
    let s1 ← str? d2
    let s2 ← str? d3
    let H : Alg → Bytes → Bytes := fun a _ => match a with
      | .md5 => m | .sha1 => s1 | .sha256 => s2 | .other _ => []
    pure (showUnit (assertFingerprint H c (← str? pin)))
  | _ => none

def stepLine (st : Unit) (toks : List String) : Unit × String :=
  if toks == ["reset"] then (st, "ok") else
  match query toks with
  | some s => (st, s)
  | none => (st, "bad-op")

def main : IO Unit := loop stepLine ()

end U3.Drive.Hostname
