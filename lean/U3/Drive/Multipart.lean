import U3.Base.Proto
import U3.Model.Multipart
-- driver: multipart
/-!
Line-protocol driver for `U3.Multipart`.

```
param <name> <value>                       -> str <formatted>
enc <boundary|~> <rand> <field>*           -> ok <body> <content-type> | err UnicodeEncodeError
parse <boundary-bytes> <body>              -> parts <headers>/<data> … | none
disp <value-bytes>                         -> disp <type> <params> | none
reqct <callerCT|~> <encoderCT>             -> str <header value>
field := t/<name>/<data> | t2/<name>/<fn|~>/<data>/<mimetypes|~> | t3/<name>/<fn|~>/<data>/<ct|~>
       | rf/<name>/<fn|~>/<data>/<hdrs>/<mm>
data  := s:<str> | b:<bytes>      hdrs := - | k=v,k=v (v may be ~)     mm := - | mm:<cd|~>:<ct|~>:<cl|~>
```
-/
namespace U3.Drive.Multipart
open U3 U3.Proto U3.Multipart

def data? (tok : String) : Option Data :=
  match tok.splitOn ":" with
  | ["s", s] => (str? s).map .str
  | ["b", s] => (str? s).map .bytes
  | _ => none

def hdrs? (tok : String) : Option HeaderDict :=
  if tok == "-" then some [] else
  (tok.splitOn ",").mapM fun p => match p.splitOn "=" with
    | [a, b] => do pure ((← str? a), (← optStr? b))
    | _ => none

def field? (tok : String) : Option FieldSpec :=
  match tok.splitOn "/" with
  | ["t", n, d] => do pure (.tuple (← str? n) (.plain (← data? d)))
  | ["t2", n, fn, d, _] => do pure (.tuple (← str? n) (.file2 (← optStr? fn) (← data? d)))
  | ["t3", n, fn, d, ct] => do pure (.tuple (← str? n) (.file3 (← optStr? fn) (← data? d) (← optStr? ct)))
  | ["rf", n, fn, d, h, mm] => do
    let f : RequestField := ⟨← str? n, ← optStr? fn, ← data? d, ← hdrs? h⟩
    if mm == "-" then pure (.obj f) else
    match mm.splitOn ":" with
    | ["mm", cd, ct, cl] => do pure (.obj (makeMultipart f (← optStr? cd) (← optStr? ct) (← optStr? cl)))
    | _ => none
  | _ => none

/-- the `mimetypes` oracle values travel on the line: one per `t2` field, looked up by filename -/
def mtOf (toks : List String) : Str → Option Str := fun fn =>
  let tbl : List (Str × Option Str) := toks.filterMap fun tok =>
    match tok.splitOn "/" with
    | ["t2", _, f, _, m] => do
      let f ← optStr? f
      let m ← optStr? m
      f.map fun f => (f, m)
    | _ => none
  (tbl.lookup fn).getD none

def showParts (ps : List Part) : String :=
  "parts" ++ String.join (ps.map fun p =>
    " " ++ (if p.headers.isEmpty then "-" else
            ",".intercalate (p.headers.map fun kv => showStr kv.1 ++ "=" ++ showStr kv.2)) ++ "/" ++ showStr p.data)

def stepLine (st : Unit) (toks : List String) : Unit × String :=
  (st, match toks with
  | ["reset"] => "ok"
  | ["param", n, v] =>
    (match str? n, str? v with
     | some n, some v => "str " ++ showStr (formatParam n v)
     | _, _ => "bad-op")
  | "enc" :: b :: r :: fs =>
    (match optStr? b, str? r, fs.mapM field? with
     | some b, some r, some specs =>
       (match encode (mtOf fs) specs b r with
        | .ok (body, ct) => "ok " ++ showStr body ++ " " ++ showStr ct
        | .error .unicodeEncodeError => "err UnicodeEncodeError")
     | _, _, _ => "bad-op")
  | ["parse", b, body] =>
    (match str? b, str? body with
     | some b, some body =>
       (match parseMultipart b body with
        | some ps => showParts ps
        | none => "none")
     | _, _ => "bad-op")
  | ["disp", v] =>
    (match str? v with
     | some v =>
       (match parseDisposition v with
        | some (ty, ps) => "disp " ++ showStr ty ++ " " ++
            (if ps.isEmpty then "-" else ",".intercalate (ps.map fun kv => showStr kv.1 ++ "=" ++ showStr kv.2))
        | none => "none")
     | none => "bad-op")
  | ["reqct", c, e] =>
    (match optStr? c, str? e with
     | some c, some e => "str " ++ showStr (requestContentType c e)
     | _, _ => "bad-op")
  | _ => "bad-op")

def main : IO Unit := loop stepLine ()

end U3.Drive.Multipart
