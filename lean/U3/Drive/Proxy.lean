import U3.Base.Proto
import U3.Model.Proxy
-- driver: proxy
/-! Line-protocol driver for `U3.Proxy`.

* `tunnel <proxy scheme|~> <fwd 0/1> <dest scheme|~>` → `0`/`1` (`connection_requires_http_tunnel`)
* `cfg <proxy scheme> <proxy host> <proxy port> <fwd> <proxy headers> <manager headers> <user agent>` → `ok`
* `script <cert:status:cert,…|->` (status `200`, another code, or `g`) → `ok`
* `req <GET|POST> <scheme> <host> <port|~> <path> <headers|~> <body length|~> <retries|F> <close 0/1>`
  → the events of that request and its outcome; pools persist until `reset`. -/
namespace U3.Drive.Proxy
open U3 U3.Proto U3.Proxy

def bool? (s : String) : Option Bool := if s == "1" then some true else if s == "0" then some false else none

def scheme? (s : String) : Option Scheme :=
  if s == "http" then some .http else if s == "https" then some .https else none

def optScheme? (s : String) : Option (Option Scheme) :=
  if s == "~" then some none else (scheme? s).map some

def optNat? (s : String) : Option (Option Nat) :=
  if s == "~" then some none else s.toNat?.map some

def optPairs? (s : String) : Option (Option Dict) :=
  if s == "~" then some none else (pairs? s).map some

def status? (s : String) : Option CStatus :=
  if s == "g" then some .garbage else
  match s.toNat? with
  | some 200 => some .ok
  | some n => some (.refused n)
  | none => none

def scriptItem? (s : String) : Option Script :=
  match s.splitOn ":" with
  | [a, b, c] => do pure ⟨← bool? a, ← status? b, ← bool? c⟩
  | _ => none

def script? (s : String) : Option (List Script) :=
  if s == "-" then some [] else (s.splitOn ",").mapM scriptItem?

def method? (s : String) : Option Method :=
  if s == "GET" then some .get else if s == "POST" then some .post else none

def retries? (s : String) : Option (Option Nat) :=
  if s == "F" then some none else s.toNat?.map some

def b (x : Bool) : String := if x then "1" else "0"

def showEvent : Event → String
  | .tcp s h p => s!"tcp:{s}:{showStr h}:{p}"
  | .tlsProxy s n => s!"tlsp:{s}:{showStr n}"
  | .connect s t hs => s!"connect:{s}:{showStr t}:{showPairs hs}"
  | .tlsOrigin s n i => s!"tlso:{s}:{showStr n}:{b i}"
  | .request s t m u hs => s!"req:{s}:{b t}:{showStr m}:{showStr u}:{showPairs hs}"
  | .serverClose s => s!"close:{s}"

def showErr : Err → String
  | .proxyOS => "ProxyError(OSError)"
  | .proxySSL => "ProxyError(SSLError)"
  | .ssl => "SSLError"
  | .protocol => "ProtocolError"

def showOutcome : Outcome → String
  | .response => "response"
  | .raised e => "raise:" ++ showErr e
  | .maxRetry e => "max:" ++ showErr e

structure DState where
  cfg : Cfg
  script : List Script
  st : St

def DState.init : DState := ⟨⟨.http, [], 0, false, [], [], []⟩, [], St.init⟩

def stepLine (d : DState) (toks : List String) : DState × String :=
  match toks with
  | ["reset"] => (DState.init, "ok")
  | ["tunnel", p, f, s] =>
    match optScheme? p, bool? f, optScheme? s with
    | some p, some f, some s => (d, b (requiresTunnel p f s))
    | _, _, _ => (d, "bad-op")
  | ["cfg", ps, ph, pp, f, phs, mhs, ua] =>
    match scheme? ps, str? ph, pp.toNat?, bool? f, pairs? phs, pairs? mhs, str? ua with
    | some ps, some ph, some pp, some f, some phs, some mhs, some ua =>
      ({ d with cfg := ⟨ps, ph, pp, f, phs, mhs, ua⟩, st := St.init }, "ok")
    | _, _, _, _, _, _, _ => (d, "bad-op")
  | ["script", s] =>
    match script? s with
    | some sc => ({ d with script := sc }, "ok")
    | none => (d, "bad-op")
  | ["req", m, sch, h, p, path, hs, body, rt, cl] =>
    match method? m, scheme? sch, str? h, optNat? p, str? path, optPairs? hs, optNat? body, retries? rt, bool? cl with
    | some m, some sch, some h, some p, some path, some hs, some body, some rt, some cl =>
      let r : Req := ⟨m, sch, h, p, path, hs, body, rt, cl⟩
      let (ev, o, st') := managerRequest d.cfg d.script d.st r
      ({ d with st := st' }, " ".intercalate (ev.map showEvent) ++ " => " ++ showOutcome o)
    | _, _, _, _, _, _, _, _, _ => (d, "bad-op")
  | _ => (d, "bad-op")

def main : IO Unit := loop stepLine DState.init

end U3.Drive.Proxy
