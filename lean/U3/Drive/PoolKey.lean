import U3.Base.Proto
import U3.Model.PoolKey
-- driver: poolkey
/-!
Line-protocol driver for `U3.PoolKey`.

Value tokens (prefix notation): `N` None, `S<str>` str, `I<int>`, `B0`/`B1`, `O<id>` object identity,
`D<n>` followed by `n` key/value string tokens, `L<n>` followed by `n` values (list / tuple).
A context is `<n>` followed by `n` × (keyword string token, value); an optional context is `~` or a
context.

Lines:  `mgr <ctx>` (new manager with these defaults) · `host <host|~> <scheme|~> <port value> <kw>`
(`connection_from_host`) · `ctx <ctx>` (`connection_from_context`) · `defaults` · `norm <ctx>` ·
`pair <ctx> <ctx>` · `merge <ctx> <kw>` · `reset`.
-/
namespace U3.Drive.PoolKey
open U3 U3.Proto U3.PoolKey

def rest (cs : List Char) : String := String.ofList cs

mutual
def parseVal : Nat → List String → Option (Val × List String)
  | 0, _ => none
  | _, [] => none
  | fuel + 1, tok :: ts =>
    match tok.toList with
    | ['N'] => some (.none, ts)
    | ['B', '0'] => some (.bool false, ts)
    | ['B', '1'] => some (.bool true, ts)
    | 'S' :: r => (str? (rest r)).map fun s => (.str s, ts)
    | 'I' :: r => (rest r).toInt?.map fun i => (.int i, ts)
    | 'O' :: r => (rest r).toNat?.map fun i => (.obj i, ts)
    | 'D' :: r => do
      let n ← (rest r).toNat?
      let (d, ts') ← parsePairs n ts
      pure (.dict d, ts')
    | 'L' :: r => do
      let n ← (rest r).toNat?
      let (l, ts') ← parseVals fuel n ts
      pure (.list l, ts')
    | _ => none
def parseVals : Nat → Nat → List String → Option (List Val × List String)
  | _, 0, ts => some ([], ts)
  | 0, _ + 1, _ => none
  | fuel + 1, n + 1, ts => do
    let (v, ts1) ← parseVal fuel ts
    let (vs, ts2) ← parseVals fuel n ts1
    pure (v :: vs, ts2)
def parsePairs : Nat → List String → Option (List (Str × Str) × List String)
  | 0, ts => some ([], ts)
  | n + 1, k :: v :: ts => do
    let k ← str? k
    let v ← str? v
    let (ps, ts') ← parsePairs n ts
    pure ((k, v) :: ps, ts')
  | _ + 1, _ => none
end

def parseItems : Nat → List String → Option (Ctx × List String)
  | 0, ts => some ([], ts)
  | _ + 1, [] => none
  | n + 1, k :: ts => do
    let k ← str? k
    let (v, ts1) ← parseVal (2 * ts.length + 2) ts
    let (c, ts2) ← parseItems n ts1
    pure ((k, v) :: c, ts2)

def parseCtx : List String → Option (Ctx × List String)
  | [] => none
  | n :: ts => do parseItems (← n.toNat?) ts

def parseOptCtx : List String → Option (Option Ctx × List String)
  | "~" :: ts => some (none, ts)
  | ts => (parseCtx ts).map fun (c, r) => (some c, r)

mutual
def showVal : Val → String
  | .none => "N"
  | .str s => "S" ++ showStr s
  | .int i => "I" ++ toString i
  | .bool b => if b then "B1" else "B0"
  | .obj i => "O" ++ toString i
  | .dict d => d.foldl (fun acc p => acc ++ " " ++ showStr p.1 ++ " " ++ showStr p.2) ("D" ++ toString d.length)
  | .list l => "L" ++ toString l.length ++ showVals l
def showVals : List Val → String
  | [] => ""
  | v :: vs => " " ++ showVal v ++ showVals vs
end

def showCtx (c : Ctx) : String :=
  c.foldl (fun acc p => acc ++ " " ++ showStr p.1 ++ " " ++ showVal p.2) (toString c.length)

def showExc : Exc → String
  | .keyError => "KeyError"
  | .attributeError => "AttributeError"
  | .typeError => "TypeError"
  | .locationValueError => "LocationValueError"
  | .urlSchemeUnknown => "URLSchemeUnknown"

def showOut : Out → String
  | .old i => s!"old {i}"
  | .new i kw => s!"new {i} kw {showCtx kw}"
  | .exc e => showExc e

def stepLine (m : Mgr) (toks : List String) : Mgr × String :=
  let bad := (m, "bad-op")
  match toks with
  | ["reset"] => (Mgr.init [], "ok")
  | "mgr" :: ts => match parseCtx ts with
    | some (c, []) => (Mgr.init c, "ok")
    | _ => bad
  | "host" :: h :: s :: ts =>
    match optStr? h, optStr? s, parseVal (2 * ts.length + 2) ts with
    | some h, some s, some (port, ts1) => match parseOptCtx ts1 with
      | some (kw, []) => let (m', o) := fromHost m h port s kw; (m', showOut o)
      | _ => bad
    | _, _, _ => bad
  | "ctx" :: ts => match parseCtx ts with
    | some (c, []) => let (m', o) := fromContext m c; (m', showOut o)
    | _ => bad
  | ["defaults"] => (m, showCtx m.defaults)
  | "norm" :: ts => match parseCtx ts with
    | some (c, []) => (m, match normalize c with
      | .ok k => "key" ++ showVals k
      | .error e => showExc e)
    | _ => bad
  | "pair" :: ts => match parseCtx ts with
    | some (c1, ts1) => match parseCtx ts1 with
      | some (c2, []) => (m, match normalize c1, normalize c2 with
        | .error e, _ => showExc e
        | _, .error e => showExc e
        | .ok k1, .ok k2 => if k1 = k2 then "same" else "different")
      | _ => bad
    | _ => bad
  | "merge" :: ts => match parseCtx ts with
    | some (d, ts1) => match parseOptCtx ts1 with
      | some (kw, []) => (m, showCtx (merge d kw))
      | _ => bad
    | _ => bad
  | _ => bad

def main : IO Unit := loop stepLine (Mgr.init [])

end U3.Drive.PoolKey
