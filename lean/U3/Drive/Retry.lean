import U3.Base.Proto
import U3.Model.Retry
-- driver: retry
/-! Line-protocol driver for `U3.Retry`.

Tokens: a counter is `~` (None), `F` (False) or a decimal int; booleans are `0`/`1`; seconds are
decimal ints in units of 2^-10 s; `allowed_methods` is `~` or a string list; the forcelist is `-` or
comma-separated decimals.  A Retry object is the 13 tokens
`total connect read redirect status other allowed forcelist raise_on_status raise_on_redirect
respect_retry_after backoff_factor backoff_max` (history empty).

* `run <proxied> <redirect> <body> <method> <script> <policy…>` — one `urlopen(method, url, body,
  retries=policy, redirect=redirect)` on a pool whose own `retries` is `None`; `policy` is the 13
  tokens of a Retry object or `I <~|F|int>` (then `Retry.from_int` runs inside the model); script
  items `ct cr ht hr st sr sp rt rr re rg o s<status>[:<retry-after>] l<status>[:<retry-after>]` (`l`: the reply
  carries `Location:` a path on the same pool).  Answer: per attempt
  `<method>@<target><+|-(body)>/<outcome>`, requests on the wire, sleeps, result
  (`resp:<script index of the reply returned>:<status>`);
* `fromint <arg> <redirect> <default>` — `Retry.from_int` (`arg`: `~`, `F`, int);
* `retry <retry…>` loads an object; `inc <method|~> <event>` (`e:<Err>`, `r:<status>`, `s:<status>`,
  `n`) replaces it by `increment(...)` when that returns; `show`, `exh`, `isretry <method> <status>
  <0/1>`, `backoff`, `sleep <~|status[:retry-after]>` observe it. -/
namespace U3.Drive.Retry
open U3 U3.Proto U3.Retry

def int? (s : String) : Option Int :=
  if s.startsWith "-" then (s.drop 1).toNat?.map fun n => -(n : Int) else s.toNat?.map fun n => (n : Int)

def count? (s : String) : Option Count :=
  if s == "~" then some .none else if s == "F" then some .disabled else (int? s).map .num

def bool? (s : String) : Option Bool :=
  if s == "1" then some true else if s == "0" then some false else none

def natList? (s : String) : Option (List Nat) :=
  if s == "-" then some [] else (s.splitOn ",").mapM (·.toNat?)

def allowed? (s : String) : Option (Option (List Str)) :=
  if s == "~" then some none else (strList? s).map some

def retry? : List String → Option Retry
  | [t, c, r, rd, st, o, al, fl, ros, ror, rra, bf, bm] => do
    pure (Retry.init
      { total := ← count? t, connect := ← count? c, read := ← count? r, redirect := ← count? rd,
        status := ← count? st, other := ← count? o, allowedMethods := ← allowed? al,
        statusForcelist := ← natList? fl, backoffFactor := ← int? bf, backoffMax := ← int? bm,
        raiseOnRedirect := ← bool? ror, raiseOnStatus := ← bool? ros, history := [],
        respectRetryAfter := ← bool? rra,
        removeHeadersOnRedirect := Retry.initDefaults.removeHeadersOnRedirect })
  | _ => none

def respTok? (s : String) : Option (Nat × Option Nat) :=
  match s.splitOn ":" with
  | [a] => do pure (← a.toNat?, none)
  | [a, b] => do pure (← a.toNat?, some (← b.toNat?))
  | _ => none

def outcome? (s : String) : Option Outcome :=
  if s == "ct" then some (.connectError .timeout)
  else if s == "cr" then some (.connectError .refused)
  else if s == "ht" then some (.handshakeError .timeout)
  else if s == "hr" then some (.handshakeError .reset)
  else if s == "st" then some (.sendError .timeout)
  else if s == "sr" then some (.sendError .reset)
  else if s == "sp" then some (.sendError .pipe)
  else if s == "rt" then some (.readError .timeout)
  else if s == "rr" then some (.readError .reset)
  else if s == "re" then some (.readError .eof)
  else if s == "rg" then some (.readError .garbage)
  else if s == "o" then some .otherError
  else if s.startsWith "s" then (respTok? (s.drop 1).toString).map fun (a, b) => .response a b
  else if s.startsWith "l" then (respTok? (s.drop 1).toString).map fun (a, b) => .located a b
  else none

def script? (s : String) : Option (List Outcome) :=
  if s == "-" then some [] else (s.splitOn ",").mapM outcome?

def showCount : Count → String
  | .none => "~"
  | .disabled => "F"
  | .num n => toString n

def b (x : Bool) : String := if x then "1" else "0"

def showClass : ErrClass → String
  | .connectTimeout => "ConnectTimeoutError"
  | .newConnection => "NewConnectionError"
  | .readTimeout => "ReadTimeoutError"
  | .protocol => "ProtocolError"
  | .ssl => "SSLError"
  | .connectionReset => "ConnectionResetError"
  | .remoteDisconnected => "RemoteDisconnected"
  | .badStatusLine => "BadStatusLine"
  | .socketTimeout => "TimeoutError"

def classes : List ErrClass :=
  [.connectTimeout, .newConnection, .readTimeout, .protocol, .ssl, .connectionReset,
   .remoteDisconnected, .badStatusLine, .socketTimeout]

def showErr : Err → String
  | .plain c => showClass c
  | .proxy c => "ProxyError(" ++ showClass c ++ ")"

def err? (s : String) : Option Err :=
  match classes.find? (fun c => showClass c == s) with
  | some c => some (.plain c)
  | none => (classes.find? (fun c => "ProxyError(" ++ showClass c ++ ")" == s)).map .proxy

def showCause : Cause → String
  | .error e => showErr e
  | .response .unknown => "ResponseError(unknown)"
  | .response .tooManyRedirects => "ResponseError(redirects)"
  | .response .generic => "ResponseError(generic)"
  | .response (.specific s) => s!"ResponseError({s})"

def showNats (l : List Nat) : String := if l.isEmpty then "-" else ",".intercalate (l.map toString)
def showInts (l : List Int) : String := if l.isEmpty then "-" else ",".intercalate (l.map toString)

def showOutcome : Outcome → String
  | .connectError .timeout => "ct"
  | .connectError .refused => "cr"
  | .handshakeError .timeout => "ht"
  | .handshakeError .reset => "hr"
  | .sendError .timeout => "st"
  | .sendError .reset => "sr"
  | .sendError .pipe => "sp"
  | .readError .timeout => "rt"
  | .readError .reset => "rr"
  | .readError .eof => "re"
  | .readError .garbage => "rg"
  | .otherError => "o"
  | .response s none => s!"s{s}"
  | .response s (some n) => s!"s{s}:{n}"
  | .located s none => s!"l{s}"
  | .located s (some n) => s!"l{s}:{n}"

def showHist (h : Hist) : String :=
  (match h.error with | some e => showErr e | none => "~") ++ "/" ++
  (match h.status with | some s => toString s | none => "~") ++ "/" ++ b h.redirect

def showRetry (r : Retry) : String :=
  s!"total={showCount r.total} connect={showCount r.connect} read={showCount r.read} " ++
  s!"redirect={showCount r.redirect} status={showCount r.status} other={showCount r.other} " ++
  s!"allowed={match r.allowedMethods with | none => "~" | some l => showStrList l} " ++
  s!"force={showNats r.statusForcelist} ros={b r.raiseOnStatus} ror={b r.raiseOnRedirect} " ++
  s!"rra={b r.respectRetryAfter} bf={r.backoffFactor} bmax={r.backoffMax} " ++
  s!"rm={showStrList r.removeHeadersOnRedirect} " ++
  s!"hist={if r.history.isEmpty then "-" else ",".intercalate (r.history.map showHist)}"

def showResult : Result → String
  | .response i s => s!"resp:{i}:{s}"
  | .maxRetry c => "max:" ++ showCause c
  | .reraised e => "err:" ++ showErr e
  | .outOfScript => "out-of-script"

def showAttempt (a : Attempt) : String :=
  s!"{showStr a.rq.method}@{a.rq.target}{if a.rq.body then "+" else "-"}/{showOutcome a.outcome}"

def showRun (x : Run) : String :=
  let att := if x.attempts.isEmpty then "-" else ",".intercalate (x.attempts.map showAttempt)
  s!"att={att} sent={x.sent.length} sleeps={showInts x.sleeps} res={showResult x.result}"

def arg? (s : String) : Option Arg :=
  if s == "~" then some .none else if s == "F" then some .false else (int? s).map .int

def event? (s : String) : Option Event :=
  if s == "n" then some .nothing
  else if s.startsWith "e:" then (err? (s.drop 2).toString).map .error
  else if s.startsWith "r:" then (s.drop 2).toNat?.map .redirect
  else if s.startsWith "s:" then (s.drop 2).toNat?.map .status
  else none

def method? (s : String) : Option (Option Str) := optStr? s

def stepLine (st : Option Retry) (toks : List String) : Option Retry × String :=
  match toks with
  | ["reset"] => (none, "ok")
  | "run" :: p :: rd :: bd :: m :: sc :: pol =>
    let arg : Option Arg := match pol with
      | ["I", a] => arg? a
      | _ => (retry? pol).map .retry
    match bool? p, bool? rd, bool? bd, str? m, script? sc, arg with
    | some p, some rd, some bd, some m, some sc, some a => (st, showRun (urlopen ⟨p⟩ .none a rd m bd sc))
    | _, _, _, _, _, _ => (st, "bad-op")
  | ["fromint", a, rd, d] =>
    match arg? a, bool? rd, arg? d with
    | some a, some rd, some d => (st, showRetry (Retry.fromInt a rd d))
    | _, _, _ => (st, "bad-op")
  | "retry" :: rest =>
    match retry? rest with
    | some r => (some r, "ok")
    | none => (st, "bad-op")
  | ["inc", m, ev] =>
    match st, method? m, event? ev with
    | some r, some m, some ev =>
      match r.increment m ev with
      | .ok r' => (some r', "ok " ++ showRetry r')
      | .error (.reraise e) => (st, "reraise " ++ showErr e)
      | .error (.maxRetry c) => (st, "max " ++ showCause c)
    | _, _, _ => (st, "bad-op")
  | ["show"] => (st, match st with | some r => showRetry r | none => "bad-op")
  | ["exh"] => (st, match st with | some r => b r.isExhausted | none => "bad-op")
  | ["isretry", m, s, h] =>
    match st, str? m, s.toNat?, bool? h with
    | some r, some m, some s, some h => (st, b (r.isRetry m s h))
    | _, _, _, _ => (st, "bad-op")
  | ["backoff"] => (st, match st with | some r => toString r.getBackoffTime | none => "bad-op")
  | ["sleep", x] =>
    match st with
    | some r =>
      if x == "~" then (st, match r.sleep none with | some t => toString t | none => "~")
      else match respTok? x with
        | some (s, ra) => (st, match r.sleep (some ⟨s, ra⟩) with | some t => toString t | none => "~")
        | none => (st, "bad-op")
    | none => (st, "bad-op")
  | _ => (st, "bad-op")

def main : IO Unit := loop stepLine (none : Option Retry)

end U3.Drive.Retry
