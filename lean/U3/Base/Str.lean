/-!
# Base: Python `str` / `bytes` as lists of naturals

Python `str` is modelled as `List Nat` (code points, lone surrogates allowed, which Lean's `Char`
cannot hold); `bytes` as `List Nat` with every element `< 256`.  Import-free on purpose so that the
line-protocol driver links as a plain `lean_exe`.
-/
namespace U3

abbrev Str := List Nat
abbrev Bytes := List Nat

/-- ASCII literal → code points -/
def lit (s : String) : Str := s.toList.map Char.toNat

def isUpperC (c : Nat) : Bool := 65 ≤ c && c ≤ 90
def isLowerC (c : Nat) : Bool := 97 ≤ c && c ≤ 122
def isDigitC (c : Nat) : Bool := 48 ≤ c && c ≤ 57
def isAlphaC (c : Nat) : Bool := isUpperC c || isLowerC c
def isHexC (c : Nat) : Bool := isDigitC c || (65 ≤ c && c ≤ 70) || (97 ≤ c && c ≤ 102)

/-- `str.lower()` restricted to ASCII (non-ASCII case mapping is outside the model; generators only
use ASCII letters where case matters). -/
def lowerC (c : Nat) : Nat := if 65 ≤ c ∧ c ≤ 90 then c + 32 else c
def upperC (c : Nat) : Nat := if 97 ≤ c ∧ c ≤ 122 then c - 32 else c
def lower (s : Str) : Str := s.map lowerC
def upper (s : Str) : Str := s.map upperC

@[simp] theorem lowerC_idem (c : Nat) : lowerC (lowerC c) = lowerC c := by
  unfold lowerC; split <;> (try split) <;> omega

@[simp] theorem lower_idem (s : Str) : lower (lower s) = lower s := by
  simp [lower, Function.comp_def]

@[simp] theorem lower_nil : lower [] = [] := rfl
@[simp] theorem lower_length (s : Str) : (lower s).length = s.length := by simp [lower]
@[simp] theorem lower_append (a b : Str) : lower (a ++ b) = lower a ++ lower b := by simp [lower]

/-- `sep.join(xs)` -/
def joinWith (sep : List Nat) : List (List Nat) → List Nat
  | [] => []
  | [x] => x
  | x :: y :: t => x ++ sep ++ joinWith sep (y :: t)

/-- split on a single separator element (Python `s.split(c)`): always at least one piece -/
def splitOn1 (c : Nat) : List Nat → List (List Nat)
  | [] => [[]]
  | x :: t =>
    if x = c then [] :: splitOn1 c t
    else match splitOn1 c t with
      | [] => [[x]]            -- unreachable
      | p :: ps => (x :: p) :: ps

theorem splitOn1_ne_nil (c : Nat) (s : List Nat) : splitOn1 c s ≠ [] := by
  induction s with
  | nil => simp [splitOn1]
  | cons x t ih =>
    unfold splitOn1
    split
    · simp
    · split <;> simp

/-- does `p` occur as a prefix -/
def isPrefix (p s : List Nat) : Bool := p.length ≤ s.length && s.take p.length == p

/-- does `p` occur as a contiguous sub-list -/
def isInfix (p : List Nat) : List Nat → Bool
  | [] => p.isEmpty
  | x :: t => isPrefix p (x :: t) || isInfix p t

def hexDigit (n : Nat) : Nat := if n < 10 then 48 + n else 87 + n      -- lower case
def hexDigitU (n : Nat) : Nat := if n < 10 then 48 + n else 55 + n     -- upper case

def hexVal (c : Nat) : Option Nat :=
  if 48 ≤ c ∧ c ≤ 57 then some (c - 48)
  else if 97 ≤ c ∧ c ≤ 102 then some (c - 87)
  else if 65 ≤ c ∧ c ≤ 70 then some (c - 55)
  else none

end U3
