import U3.Base.Str
/-!
# Line protocol helpers (driver side only — nothing here is mentioned by a theorem)

Tokens are separated by single spaces.  A string is the `.`-joined lower-case hex of its code
points, the empty string is `-`; bytes likewise.  `~` is Python `None`.
-/
namespace U3.Proto
open U3

def hexNat? (s : String) : Option Nat :=
  if s.isEmpty then none else
  s.toList.foldl (fun acc c => match acc, hexVal c.toNat with
    | some a, some d => some (a * 16 + d)
    | _, _ => none) (some 0)

def str? (tok : String) : Option Str :=
  if tok == "-" then some [] else (tok.splitOn ".").mapM hexNat?

def natHex (n : Nat) : String := String.ofList (Nat.toDigits 16 n)

def showStr (s : Str) : String :=
  if s.isEmpty then "-" else ".".intercalate (s.map natHex)

def optStr? (tok : String) : Option (Option Str) :=
  if tok == "~" then some none else (str? tok).map some

def showOptStr : Option Str → String
  | none => "~"
  | some s => showStr s

/-- `k=v,k=v` (each side a string token); `-` is the empty list -/
def pairs? (tok : String) : Option (List (Str × Str)) :=
  if tok == "-" then some [] else
  (tok.splitOn ",").mapM fun p => match p.splitOn "=" with
    | [a, b] => do let a ← str? (if a.isEmpty then "-" else a); let b ← str? (if b.isEmpty then "-" else b); pure (a, b)
    | _ => none

def showPairs (l : List (Str × Str)) : String :=
  if l.isEmpty then "-" else
  ",".intercalate (l.map fun (a, b) => (if a.isEmpty then "" else showStr a) ++ "=" ++ (if b.isEmpty then "" else showStr b))

def strList? (tok : String) : Option (List Str) :=
  if tok == "-" then some [] else
  (tok.splitOn ",").mapM fun p => str? (if p.isEmpty then "-" else p)

def showStrList (l : List Str) : String :=
  if l.isEmpty then "-" else ",".intercalate (l.map fun a => if a.isEmpty then "" else showStr a)

def tokens (line : String) : List String :=
  (line.trimAscii.toString.splitOn " ").filter (· ≠ "")

/-- generic stateful loop: `step` gets the tokens of one line and returns the new state and one
output line -/
partial def loop {σ : Type} (step : σ → List String → σ × String) (s : σ) : IO Unit := do
  let stdin ← IO.getStdin
  let stdout ← IO.getStdout
  let rec go (s : σ) (n : Nat) : IO Unit := do
    let line ← stdin.getLine
    if line.isEmpty then stdout.flush; return ()
    let (s', out) := step s (tokens line)
    stdout.putStrLn out
    if n % 256 == 0 then stdout.flush
    go s' (n + 1)
  go s 1

end U3.Proto
